// Auto-registers every stream module src/s_*.rs: each must export
//   pub fn oneshot(sub: &str, rest: &[String]) -> Option<String>
//   pub fn dispatch(sub: &str, rest: &[String], line: &str) -> Option<String>
use std::{env, fs, path::Path};
fn main() {
    let src = Path::new(&env::var("CARGO_MANIFEST_DIR").unwrap()).join("src");
    let mut mods: Vec<String> = fs::read_dir(&src)
        .unwrap()
        .filter_map(|e| e.ok())
        .map(|e| e.file_name().to_string_lossy().to_string())
        .filter(|n| n.starts_with("s_") && n.ends_with(".rs"))
        .map(|n| n.trim_end_matches(".rs").to_string())
        .collect();
    mods.sort();
    let mut o = String::new();
    for m in &mods {
        o.push_str(&format!("#[path = \"{}/{}.rs\"]\npub mod {};\n", src.display(), m, m));
    }
    o.push_str("pub fn auto_oneshot(sub: &str, rest: &[String]) -> Option<String> {\n");
    for m in &mods {
        o.push_str(&format!("    if let Some(r) = {}::oneshot(sub, rest) {{ return Some(r); }}\n", m));
    }
    o.push_str("    None\n}\npub fn auto_dispatch(sub: &str, rest: &[String], line: &str) -> Option<String> {\n");
    for m in &mods {
        o.push_str(&format!("    if let Some(r) = {}::dispatch(sub, rest, line) {{ return Some(r); }}\n", m));
    }
    o.push_str("    None\n}\n");
    fs::write(Path::new(&env::var("OUT_DIR").unwrap()).join("mods.rs"), o).unwrap();
    println!("cargo:rerun-if-changed=src");
    println!("cargo:rerun-if-changed=build.rs");
}
