// Stream implementations.  One input line -> one output line.
use crate::show::*;
use blots_core::environment::Environment;
use blots_core::expressions::{evaluate_pairs, pairs_to_expr, pairs_to_expr_with_comments, validate_portable_value};
use blots_core::functions::{BuiltInFunction, FunctionDef};
use blots_core::heap::Heap;
use blots_core::parser::{Rule, get_pairs};
use blots_core::values::{FunctionArity, SerializableValue, Value};
use indexmap::IndexMap;
use std::cell::RefCell;
use std::rc::Rc;

pub fn oneshot(sub: &str, _rest: &[String]) -> Option<String> {
    match sub {
        "dump-builtins" => Some(dump_builtins()),
        _ => crate::streams2::oneshot(sub, _rest),
    }
}

pub fn dispatch(sub: &str, rest: &[String], line: &str) -> Option<String> {
    match sub {
        "parse" => Some(parse_line(line, rest.iter().any(|a| a == "--comments"))),
        "eval" => Some(eval_line(line)),
        _ => crate::streams2::dispatch(sub, rest, line),
    }
}

fn arity_text(a: FunctionArity) -> String {
    match a {
        FunctionArity::Exact(n) => format!("exact\t{}\t{}", n, n),
        FunctionArity::AtLeast(n) => format!("atleast\t{}\t0", n),
        FunctionArity::Between(a, b) => format!("between\t{}\t{}", a, b),
    }
}

/// name <TAB> arity kind <TAB> a <TAB> b <TAB> from_ident(name) round-trips (1/0)
fn dump_builtins() -> String {
    let mut s = String::new();
    for b in BuiltInFunction::all() {
        let rt = BuiltInFunction::from_ident(b.name()) == Some(b);
        s.push_str(&format!("{}\t{}\t{}\n", b.name(), arity_text(b.arity()), if rt { 1 } else { 0 }));
    }
    s
}

fn text_of(line_hex: &str) -> Option<String> {
    String::from_utf8(unhex(line_hex)).ok()
}

/// PARSE: hex(source) -> statements in Coq term syntax:  "E <expr>" | "O <expr>" | "C <hex>"
/// joined by " ;; ", or REJECT / GLUEERR.
fn parse_line(line: &str, comments: bool) -> String {
    let src = match text_of(line) {
        Some(s) => s,
        None => return "BADUTF8".into(),
    };
    let pairs = match get_pairs(&src) {
        Ok(p) => p,
        Err(_) => return "REJECT".into(),
    };
    let mut out: Vec<String> = Vec::new();
    for pair in pairs {
        if pair.as_rule() != Rule::statement {
            continue;
        }
        let mut inner = pair.into_inner();
        if let Some(first) = inner.next() {
            let trailing = inner.next().map(|p| p.as_str().to_string());
            let tr = match (&trailing, comments) {
                (Some(t), true) => format!(" //{}", hex(t.as_bytes())),
                _ => String::new(),
            };
            match first.as_rule() {
                Rule::expression | Rule::output_declaration => {
                    let kind = if first.as_rule() == Rule::expression { "E" } else { "O" };
                    let r = if comments {
                        pairs_to_expr_with_comments(first.into_inner())
                    } else {
                        pairs_to_expr(first.into_inner())
                    };
                    match r {
                        Ok(e) => out.push(format!("{} {}{}", kind, coq_expr(&e), tr)),
                        Err(_) => return "GLUEERR".into(),
                    }
                }
                Rule::comment => out.push(format!("C {}{}", hex(first.as_str().as_bytes()), tr)),
                _ => out.push("?".into()),
            }
        }
    }
    out.join(" ;; ")
}

pub fn classify_err(msg: &str) -> &'static str {
    if msg.contains("maximum call depth") {
        "ERRDEPTH"
    } else {
        "ERR"
    }
}

pub struct Session {
    pub heap: Rc<RefCell<Heap>>,
    pub bindings: Rc<Environment>,
    pub outputs: IndexMap<String, SerializableValue>,
}

impl Session {
    pub fn new(inputs_json: Option<&str>) -> Result<Session, String> {
        let heap = Rc::new(RefCell::new(Heap::new()));
        let bindings = Rc::new(Environment::new());
        let mut inputs_map: IndexMap<String, Value> = IndexMap::new();
        if let Some(js) = inputs_json {
            let v: serde_json::Value = serde_json::from_str(js).map_err(|e| e.to_string())?;
            if let serde_json::Value::Object(obj) = v {
                for (k, v) in obj.iter() {
                    let ser = SerializableValue::from_json(v);
                    if let Ok(val) = ser.to_value(&mut heap.borrow_mut()) {
                        inputs_map.insert(k.clone(), val);
                    }
                }
            }
        }
        let rec = heap.borrow_mut().insert_record(inputs_map);
        bindings.insert("inputs".to_string(), rec);
        Ok(Session { heap, bindings, outputs: IndexMap::new() })
    }
}

/// Mirrors blots/src/main.rs::evaluate_source, without exiting the process:
/// returns per-statement outcomes; stops at the first failure like the CLI does.
pub fn run_program(sess: &mut Session, src: &str, names: bool) -> Vec<String> {
    let mut res: Vec<String> = Vec::new();
    let pairs = match get_pairs(src) {
        Ok(p) => p,
        Err(_) => {
            res.push("REJECT".into());
            return res;
        }
    };
    for pair in pairs {
        if pair.as_rule() != Rule::statement {
            continue;
        }
        let inner_pair = match pair.into_inner().next() {
            Some(p) => p,
            None => continue,
        };
        match inner_pair.as_rule() {
            Rule::expression => {
                let r = evaluate_pairs(
                    inner_pair.into_inner(),
                    Rc::clone(&sess.heap),
                    Rc::clone(&sess.bindings),
                    0,
                    src,
                );
                match r {
                    Ok(v) => res.push(format!("OK:{}", show_value(&v, &sess.heap.borrow(), names))),
                    Err(e) => {
                        res.push(classify_err(&e.to_string()).to_string());
                        return res;
                    }
                }
            }
            Rule::output_declaration => {
                let inner_clone = inner_pair.clone().into_inner();
                let r = evaluate_pairs(
                    inner_pair.clone().into_inner(),
                    Rc::clone(&sess.heap),
                    Rc::clone(&sess.bindings),
                    0,
                    src,
                );
                let mut out_err = false;
                for p in inner_clone {
                    match p.as_rule() {
                        Rule::identifier => {
                            let ident = p.as_str();
                            if let Ok(value) = &r {
                                if validate_portable_value(value, &sess.heap.borrow(), &sess.bindings).is_err() {
                                    out_err = true;
                                } else if let Ok(ser) = value.to_serializable_value(&sess.heap.borrow()) {
                                    sess.outputs.insert(ident.to_string(), ser);
                                }
                            }
                            break;
                        }
                        Rule::assignment => {
                            if let Some(ip) = p.into_inner().next() {
                                let ident = ip.as_str();
                                if let Ok(value) = &r {
                                    if validate_portable_value(value, &sess.heap.borrow(), &sess.bindings).is_err() {
                                        out_err = true;
                                    } else if let Ok(ser) = value.to_serializable_value(&sess.heap.borrow()) {
                                        sess.outputs.insert(ident.to_string(), ser);
                                    }
                                }
                            }
                            break;
                        }
                        _ => {}
                    }
                }
                if out_err {
                    res.push("OUTERR".into());
                    return res;
                }
                match r {
                    Ok(v) => res.push(format!("OK:{}", show_value(&v, &sess.heap.borrow(), names))),
                    Err(e) => {
                        res.push(classify_err(&e.to_string()).to_string());
                        return res;
                    }
                }
            }
            Rule::comment => {}
            _ => res.push("?".into()),
        }
    }
    res
}

pub fn show_env(sess: &Session, names: bool) -> String {
    let mut items: Vec<(String, Value)> = sess.bindings.iter().collect();
    items.sort_by(|a, b| a.0.as_bytes().cmp(b.0.as_bytes()));
    items
        .iter()
        .filter(|(k, _)| k != "inputs")
        .map(|(k, v)| format!("{}={}", hex(k.as_bytes()), show_value(v, &sess.heap.borrow(), names)))
        .collect::<Vec<_>>()
        .join(",")
}

/// EVAL: "hex(src)[ TAB hex(inputs json)]" -> "r1|r2|...;ENV:<bindings sorted by name>"
fn eval_line(line: &str) -> String {
    let mut parts = line.split('\t');
    let src = match parts.next().and_then(text_of) {
        Some(s) => s,
        None => return "BADUTF8".into(),
    };
    let inputs = parts.next().and_then(text_of);
    let mut sess = match Session::new(inputs.as_deref()) {
        Ok(s) => s,
        Err(_) => return "BADINPUT".into(),
    };
    let res = run_program(&mut sess, &src, true);
    format!("{};ENV:{}", res.join("|"), show_env(&sess, true))
}

#[allow(dead_code)]
pub fn builtin_def(b: BuiltInFunction) -> FunctionDef {
    FunctionDef::BuiltIn(b)
}
