// C19 (CLI contract) streams.
//
//   c19-input   line: hex(JSON text)
//     -> the Gallina `input_src` term (coq/Cli.v) for that text, computed with the real
//        serde_json::from_str + SerializableValue::from_json; a function's printed body is
//        re-parsed with the real parser exactly as SerializableValue::to_value does
//        (`get_pairs(&body)?.next().unwrap().into_inner()` + `pairs_to_expr(..)?`).
//        After the term, TAB and what the real to_value says: `O<hex keys that fail, comma
//        separated>` for an object, `V0`/`V1` (1 = fails) for another value, `B` for bad JSON.
//   The CLI itself cannot be linked (binary crate); checks/c19.py runs the release binary.
use crate::show::*;
use blots_core::expressions::pairs_to_expr;
use blots_core::functions::BuiltInFunction;
use blots_core::heap::Heap;
use blots_core::parser::get_pairs;
use blots_core::values::{LambdaArg, SerializableValue};

pub fn oneshot(_sub: &str, _rest: &[String]) -> Option<String> {
    None
}

pub fn dispatch(sub: &str, _rest: &[String], line: &str) -> Option<String> {
    match sub {
        "c19-input" => Some(input_line(line)),
        _ => None,
    }
}

fn cs(s: &str) -> String {
    format!("(hx \"{}\")", hex(s.as_bytes()))
}

fn coq_arg(a: &LambdaArg) -> String {
    match a {
        LambdaArg::Required(n) => format!("(AReq {})", cs(n)),
        LambdaArg::Optional(n) => format!("(AOpt {})", cs(n)),
        LambdaArg::Rest(n) => format!("(ARest {})", cs(n)),
    }
}

fn body_term(body: &str) -> String {
    match get_pairs(body) {
        Err(_) => "None".into(),
        Ok(mut pairs) => {
            // `.next().unwrap()`: the grammar always yields at least EOI
            let first = pairs.next().unwrap();
            match pairs_to_expr(first.into_inner()) {
                Ok(e) => format!("(Some {})", coq_expr(&e)),
                Err(_) => "None".into(),
            }
        }
    }
}

fn sval_term(v: &SerializableValue) -> String {
    match v {
        SerializableValue::Number(x) => format!("(SNum (nb 0x{}))", num_bits(*x)),
        SerializableValue::Bool(b) => format!("(SBool {})", if *b { "true" } else { "false" }),
        SerializableValue::Null => "SNull".into(),
        SerializableValue::String(s) => format!("(SStr {})", cs(s)),
        SerializableValue::List(l) => {
            format!("(SList [{}])", l.iter().map(sval_term).collect::<Vec<_>>().join("; "))
        }
        SerializableValue::Record(r) => format!(
            "(SRec [{}])",
            r.iter().map(|(k, x)| format!("({}, {})", cs(k), sval_term(x))).collect::<Vec<_>>().join("; ")
        ),
        SerializableValue::Lambda(d) => format!(
            "(SLam [{}] {})",
            d.args.iter().map(coq_arg).collect::<Vec<_>>().join("; "),
            body_term(&d.body)
        ),
        SerializableValue::BuiltIn(name) => match BuiltInFunction::from_ident(name) {
            Some(b) => format!("(SBuiltin (Some {}))", builtin_ctor(b.name())),
            None => "(SBuiltin None)".into(),
        },
    }
}

fn input_line(line: &str) -> String {
    let text = match String::from_utf8(unhex(line)) {
        Ok(s) => s,
        Err(_) => return "BADUTF8".into(),
    };
    let json: serde_json::Value = match serde_json::from_str(&text) {
        Ok(v) => v,
        Err(_) => return "IBad\tB".into(),
    };
    let mut heap = Heap::new();
    if let serde_json::Value::Object(obj) = &json {
        let mut items: Vec<String> = Vec::new();
        let mut failed: Vec<String> = Vec::new();
        for (k, v) in obj.iter() {
            let ser = SerializableValue::from_json(v);
            if ser.to_value(&mut heap).is_err() {
                failed.push(hex(k.as_bytes()));
            }
            items.push(format!("({}, {})", cs(k), sval_term(&ser)));
        }
        format!("(IObj [{}])\tO{}", items.join("; "), failed.join(","))
    } else {
        let ser = SerializableValue::from_json(&json);
        let bad = ser.to_value(&mut heap).is_err();
        format!("(IVal {})\tV{}", sval_term(&ser), if bad { 1 } else { 0 })
    }
}
