// C07L stream: what format_expr really outputs, per statement, next to the parsed tree.
//
//   fmtitems07              line: hex(src) TAB width   (width 0 = None = default 80)
//       per statement (joined by " ;; "):
//         <K> <coq expr> | hex(format_expr(ast, width)) | hex(expr_to_source(ast))
//       K = E (expression statement) / O (output declaration, handed to format_expr as
//       Expr::Output exactly like both format drivers do); comments are dropped by the parse
//       (pairs_to_expr), so the tree is the comment-free tree the C07 theorems quantify over.
//       Whole line REJECT / GLUEERR when the source does not parse.
use crate::show::*;
use blots_core::ast::{Expr, Spanned, SpannedExpr};
use blots_core::ast_to_source::expr_to_source;
use blots_core::expressions::pairs_to_expr;
use blots_core::formatter::format_expr;
use blots_core::parser::{get_pairs, Rule};

pub fn oneshot(_sub: &str, _rest: &[String]) -> Option<String> {
    None
}

pub fn dispatch(sub: &str, _rest: &[String], line: &str) -> Option<String> {
    match sub {
        "fmtitems07" => Some(fmtitems07(line)),
        _ => None,
    }
}

fn parse_stmts(src: &str) -> Result<Vec<(char, SpannedExpr)>, &'static str> {
    let pairs = get_pairs(src).map_err(|_| "REJECT")?;
    let mut out = Vec::new();
    for pair in pairs {
        if pair.as_rule() != Rule::statement {
            continue;
        }
        if let Some(first) = pair.into_inner().next() {
            let rule = first.as_rule();
            match rule {
                Rule::expression | Rule::output_declaration => {
                    let e = pairs_to_expr(first.into_inner()).map_err(|_| "GLUEERR")?;
                    if rule == Rule::expression {
                        out.push(('E', e));
                    } else {
                        out.push(('O', Spanned::dummy(Expr::Output { expr: Box::new(e) })));
                    }
                }
                _ => {}
            }
        }
    }
    Ok(out)
}

fn fmtitems07(line: &str) -> String {
    let mut parts = line.split('\t');
    let src = match parts.next().and_then(|h| String::from_utf8(unhex(h)).ok()) {
        Some(s) => s,
        None => return "BADUTF8".into(),
    };
    let width: usize = parts.next().and_then(|w| w.parse().ok()).unwrap_or(0);
    let stmts = match parse_stmts(&src) {
        Ok(s) => s,
        Err(e) => return e.into(),
    };
    let w = if width == 0 { None } else { Some(width) };
    let mut out = Vec::new();
    for (k, e) in &stmts {
        let text = format_expr(e, w);
        let one = expr_to_source(e);
        out.push(format!("{} {} | {} | {}", k, coq_expr(e), hex(text.as_bytes()), hex(one.as_bytes())));
    }
    out.join(" ;; ")
}
