// TEXT-EVAL correspondence stream (coq/TextRun.v: program TEXT -> pairs -> AST -> evaluation -> outputs as one
// Gallina function, against the real pipeline on the same bytes).
//
//   text-eval  line: hex(program text) [TAB hex(inputs json)]
//              -> "<r1>|<r2>|...;ENV:<root bindings>;OUT:<outputs object>"
//                 exactly the `eval` line of streams.rs (real get_pairs, then per statement the real
//                 evaluate_pairs = pairs_to_expr + evaluate_ast, output bookkeeping with
//                 validate_portable_value, stop at the first failure: streams::run_program, the mirror of
//                 blots/src/main.rs::evaluate_source) followed by the outputs object the CLI would write:
//                 hex(name)=<canonical value, lambdas as their parameter list>, in insertion order.
//                 A rejected text prints "REJECT;ENV:;OUT:"; a panic comes back as `PANIC <hex msg>` from
//                 main.rs's catch_unwind.  Twin: TextRun.show_text_outcome.
use crate::show::{hex, num_bits, show_args, unhex};
use crate::streams::{run_program, show_env, Session};
use blots_core::values::SerializableValue;

pub fn oneshot(_sub: &str, _rest: &[String]) -> Option<String> {
    None
}

pub fn dispatch(sub: &str, _rest: &[String], line: &str) -> Option<String> {
    match sub {
        "text-eval" => Some(text_eval(line)),
        _ => None,
    }
}

fn text_of(h: &str) -> Option<String> {
    String::from_utf8(unhex(h)).ok()
}

/// show::show_value (names = false) over the serialised form the outputs object holds
fn show_ser(v: &SerializableValue) -> String {
    match v {
        SerializableValue::Number(x) => format!("N{}", num_bits(*x)),
        SerializableValue::Bool(true) => "T".into(),
        SerializableValue::Bool(false) => "F".into(),
        SerializableValue::Null => "U".into(),
        SerializableValue::String(s) => format!("S{};", hex(s.as_bytes())),
        SerializableValue::List(l) => format!("L[{}]", l.iter().map(show_ser).collect::<Vec<_>>().join(",")),
        SerializableValue::Record(r) => format!(
            "R{{{}}}",
            r.iter().map(|(k, x)| format!("{}:{}", hex(k.as_bytes()), show_ser(x))).collect::<Vec<_>>().join(",")
        ),
        SerializableValue::Lambda(d) => format!("FN({})", show_args(&d.args)),
        SerializableValue::BuiltIn(name) => format!("B{};", name),
    }
}

fn text_eval(line: &str) -> String {
    let mut parts = line.split('\t');
    let src = match parts.next().and_then(text_of) {
        Some(s) => s,
        None => return "BADUTF8".into(),
    };
    let inputs = parts.next().and_then(text_of);
    let mut sess = match Session::new(inputs.as_deref()) {
        Ok(s) => s,
        Err(_) => return "BADINPUT".into(),
    };
    let res = run_program(&mut sess, &src, true);
    let outs = sess
        .outputs
        .iter()
        .map(|(k, v)| format!("{}={}", hex(k.as_bytes()), show_ser(v)))
        .collect::<Vec<_>>()
        .join(",");
    format!("{};ENV:{};OUT:{}", res.join("|"), show_env(&sess, true), outs)
}
