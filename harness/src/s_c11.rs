// C11 streams: binary operators on two operand values through the real parser and evaluator.
//
//   c11-binop   line: hex(src of a) TAB hex(src of b) [TAB "lit"]
//               -> 23 results joined by '|': the 17 broadcasting operators then the 6 dot
//                  operators, each the outcome of the one-statement program `a OP b` evaluated in
//                  a session where a and b are bound to the operand values (or, with "lit", of
//                  `(<src a>) OP (<src b>)` with the operands written in place).
//                  Result: OK:<canonical value> | ERR | ERRDEPTH | PANIC | REJECT ; SETUPERR when an
//                  operand itself does not evaluate.
//   c11-powf    line: 16 hex digits SPACE 16 hex digits -> 16 hex digits of x.powf(y)
//               (the same std function blots-core calls; oracle table for the model's `powf`)
use crate::show::{hex, num_bits, unhex};
use crate::streams::{run_program, Session};

pub const OPS: [&str; 23] = [
    "+", "-", "*", "/", "%", "^", "==", "!=", "<", "<=", ">", ">=", "&&", "and", "||", "or", "??",
    ".==", ".!=", ".<", ".<=", ".>", ".>=",
];

pub fn oneshot(sub: &str, _rest: &[String]) -> Option<String> {
    match sub {
        "c11-ops" => Some(OPS.join("\n") + "\n"),
        _ => None,
    }
}

pub fn dispatch(sub: &str, _rest: &[String], line: &str) -> Option<String> {
    match sub {
        "c11-binop" => Some(binop_line(line)),
        "c11-powf" => Some(powf_line(line)),
        _ => None,
    }
}

fn text(h: &str) -> Option<String> {
    String::from_utf8(unhex(h)).ok()
}

fn one(sess: &mut Session, prog: &str) -> String {
    let r = std::panic::catch_unwind(std::panic::AssertUnwindSafe(|| run_program(sess, prog, false)));
    match r {
        Ok(v) => v.last().cloned().unwrap_or_else(|| "EMPTY".to_string()),
        Err(_) => "PANIC".to_string(),
    }
}

fn binop_line(line: &str) -> String {
    let mut parts = line.split('\t');
    let a = match parts.next().and_then(text) {
        Some(s) => s,
        None => return "BADUTF8".into(),
    };
    let b = match parts.next().and_then(text) {
        Some(s) => s,
        None => return "BADUTF8".into(),
    };
    let lit = parts.next() == Some("lit");
    let mut sess = match Session::new(None) {
        Ok(s) => s,
        Err(_) => return "BADINPUT".into(),
    };
    if !lit {
        let setup = run_program(&mut sess, &format!("a = {}\nb = {}", a, b), false);
        if setup.len() != 2 || !setup.iter().all(|r| r.starts_with("OK:")) {
            return format!("SETUPERR {}", hex(setup.join("|").as_bytes()));
        }
    }
    let mut out: Vec<String> = Vec::with_capacity(OPS.len());
    for op in OPS.iter() {
        let prog = if lit { format!("({}) {} ({})", a, op, b) } else { format!("a {} b", op) };
        out.push(one(&mut sess, &prog));
    }
    out.join("|")
}

fn powf_line(line: &str) -> String {
    let mut it = line.split_whitespace();
    let p = |s: Option<&str>| s.and_then(|t| u64::from_str_radix(t, 16).ok()).map(f64::from_bits);
    match (p(it.next()), p(it.next())) {
        (Some(x), Some(y)) => num_bits(x.powf(y)),
        _ => "BAD".into(),
    }
}
