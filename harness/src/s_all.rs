// ALL streams (extension round, C01/evaluator coverage): oracle tables for the model's ORACLE record
// (coq/EvalAll.v, coq/AllRun.v) — the results of the very std / libm functions blots-core calls.
//
//   all-libm   line: "<fn> <16 hex bits>"          fn in sin cos tan asin acos atan ln log10 exp
//              -> 16 hex digits of f(x)             (f64 method of the same name; `log` built-in = ln)
//   all-powf   line: "<16 hex> <16 hex>"           -> 16 hex digits of x.powf(y)
//   all-str    line: "<fn> <hex utf-8>"            fn in trim upper lower
//              -> hex of str::trim / to_uppercase / to_lowercase
//   all-now    (oneshot)                            -> 16 hex digits of SystemTime::now() since the epoch, secs f64
//   all-print  line: hex(src of a list literal [a, b, ..])  [TAB hex(inputs json)]
//              -> OK:<hex of the line print(a, b, ..) hands to eprintln!> | ERR | ARGERR
//                 (the text is rebuilt with the same public functions the Print arm uses:
//                  stringify_internal and dyn-fmt's format; the real stderr of the binary is compared
//                  separately by the check)
//
//   all-direct line: <built-in name> TAB hex(src of a list literal [a, b, ..]) [TAB hex(inputs json)]
//              -> BuiltInFunction::call(args, ..) invoked DIRECTLY, i.e. WITHOUT FunctionDef::check_arity:
//                 OK:<canonical value> | ERR | ERRDEPTH ; a panic (e.g. args[i] past a too short vector) comes
//                 back as `PANIC <hex msg>` from main.rs's catch_unwind.  Ties the model's explicit Panic arms
//                 (and the order of args[i] / type checks inside each arm) to the code.
//
// The programs themselves go through the ordinary `parse` / `eval` streams.
use crate::show::{hex, num_bits, unhex};
use crate::streams::Session;
use blots_core::expressions::evaluate_pairs;
use blots_core::heap::HeapPointer;
use blots_core::parser::{get_pairs, Rule};
use blots_core::values::Value;
use blots_core::environment::Environment;
use blots_core::functions::BuiltInFunction;
use std::rc::Rc;

pub fn oneshot(sub: &str, _rest: &[String]) -> Option<String> {
    match sub {
        "all-now" => {
            let t = std::time::SystemTime::now()
                .duration_since(std::time::UNIX_EPOCH)
                .map(|d| d.as_secs_f64())
                .unwrap_or(f64::NAN);
            Some(format!("{}\n", num_bits(t)))
        }
        _ => None,
    }
}

fn bits(s: &str) -> Option<f64> {
    u64::from_str_radix(s.trim(), 16).ok().map(f64::from_bits)
}

fn libm_line(line: &str) -> String {
    let mut it = line.split_whitespace();
    let f = it.next().unwrap_or("");
    let x = match it.next().and_then(bits) {
        Some(x) => x,
        None => return "BAD".into(),
    };
    let r = match f {
        "sin" => x.sin(),
        "cos" => x.cos(),
        "tan" => x.tan(),
        "asin" => x.asin(),
        "acos" => x.acos(),
        "atan" => x.atan(),
        "ln" => x.ln(),
        "log10" => x.log10(),
        "exp" => x.exp(),
        _ => return "BAD".into(),
    };
    num_bits(r)
}

fn str_line(line: &str) -> String {
    let mut it = line.split_whitespace();
    let f = it.next().unwrap_or("");
    let s = match String::from_utf8(unhex(it.next().unwrap_or(""))) {
        Ok(s) => s,
        Err(_) => return "BADUTF8".into(),
    };
    let r = match f {
        "trim" => s.trim().to_string(),
        "upper" => s.to_uppercase(),
        "lower" => s.to_lowercase(),
        _ => return "BAD".into(),
    };
    hex(r.as_bytes())
}

/// evaluates the list literal `src` in a fresh session; Err(text) = the answer line for a failure
fn eval_list(src: &str, inputs: Option<&str>) -> Result<(Session, Vec<Value>), String> {
    let sess = Session::new(inputs).map_err(|_| "BADINPUT".to_string())?;
    let pairs = get_pairs(src).map_err(|_| "REJECT".to_string())?;
    let mut val: Option<Value> = None;
    for pair in pairs {
        if pair.as_rule() != Rule::statement {
            continue;
        }
        if let Some(inner) = pair.into_inner().next() {
            if inner.as_rule() == Rule::expression {
                match evaluate_pairs(inner.into_inner(), Rc::clone(&sess.heap), Rc::clone(&sess.bindings), 0, src) {
                    Ok(v) => val = Some(v),
                    Err(_) => return Err("ARGERR".into()),
                }
            }
        }
    }
    let args: Vec<Value> = {
        let heap = sess.heap.borrow();
        match val {
            Some(Value::List(p)) => match p.reify(&heap).as_list() {
                Ok(l) => l.clone(),
                Err(_) => return Err("ARGERR".into()),
            },
            _ => return Err("ARGERR".into()),
        }
    };
    Ok((sess, args))
}

fn direct_line(line: &str) -> String {
    let mut parts = line.split('\t');
    let name = parts.next().unwrap_or("");
    let src = match String::from_utf8(unhex(parts.next().unwrap_or(""))) {
        Ok(s) => s,
        Err(_) => return "BADUTF8".into(),
    };
    let inputs = parts.next().and_then(|h| String::from_utf8(unhex(h)).ok());
    let b = match BuiltInFunction::from_ident(name) {
        Some(b) => b,
        None => return "NOBUILTIN".into(),
    };
    let (sess, args) = match eval_list(&src, inputs.as_deref()) {
        Ok(x) => x,
        Err(t) => return t,
    };
    match b.call(args, Rc::clone(&sess.heap), Rc::clone(&sess.bindings), 0, &src) {
        Ok(v) => format!("OK:{}", crate::show::show_value(&v, &sess.heap.borrow(), false)),
        Err(e) => crate::streams::classify_err(&e.to_string()).to_string(),
    }
}

fn print_line(line: &str) -> String {
    let mut parts = line.split('\t');
    let src = match String::from_utf8(unhex(parts.next().unwrap_or(""))) {
        Ok(s) => s,
        Err(_) => return "BADUTF8".into(),
    };
    let inputs = parts.next().and_then(|h| String::from_utf8(unhex(h)).ok());
    let sess = match Session::new(inputs.as_deref()) {
        Ok(s) => s,
        Err(_) => return "BADINPUT".into(),
    };
    let pairs = match get_pairs(&src) {
        Ok(p) => p,
        Err(_) => return "REJECT".into(),
    };
    let mut val: Option<Value> = None;
    for pair in pairs {
        if pair.as_rule() != Rule::statement {
            continue;
        }
        if let Some(inner) = pair.into_inner().next() {
            if inner.as_rule() == Rule::expression {
                match evaluate_pairs(inner.into_inner(), Rc::clone(&sess.heap), Rc::clone(&sess.bindings), 0, &src) {
                    Ok(v) => val = Some(v),
                    Err(_) => return "ARGERR".into(),
                }
            }
        }
    }
    let args: Vec<Value> = {
        let heap = sess.heap.borrow();
        match val {
            Some(Value::List(p)) => match p.reify(&heap).as_list() {
                Ok(l) => l.clone(),
                Err(_) => return "ARGERR".into(),
            },
            _ => return "ARGERR".into(),
        }
    };
    if args.is_empty() {
        return "ARGERR".into();
    }
    // the body of BuiltInFunction::Print (functions.rs), without the eprintln!: one argument is
    // stringify_internal; several are `format_str.format(stringify_internal of the rest)`.  dyn-fmt is
    // reached through the real Format built-in applied to the already stringified arguments
    // (stringify_for_display of a string is the string itself).
    let output = if args.len() == 1 {
        args[0].stringify_internal(&sess.heap.borrow())
    } else {
        if args[0].as_string(&sess.heap.borrow()).is_err() {
            return "ERR".into();
        }
        let texts: Vec<String> = args[1..].iter().map(|v| v.stringify_internal(&sess.heap.borrow())).collect();
        let mut call_args = vec![args[0]];
        for t in texts {
            let v = sess.heap.borrow_mut().insert_string(t);
            call_args.push(v);
        }
        let env = Rc::new(Environment::new());
        match BuiltInFunction::Format.call(call_args, Rc::clone(&sess.heap), env, 0, "") {
            Ok(Value::String(p)) => match p.reify(&sess.heap.borrow()).as_string() {
                Ok(s) => s.to_string(),
                Err(_) => return "ERR".into(),
            },
            _ => return "ERR".into(),
        }
    };
    format!("OK:{}", hex(output.as_bytes()))
}

pub fn dispatch(sub: &str, _rest: &[String], line: &str) -> Option<String> {
    match sub {
        "all-libm" => Some(libm_line(line)),
        "all-powf" => {
            let mut it = line.split_whitespace();
            Some(match (it.next().and_then(bits), it.next().and_then(bits)) {
                (Some(x), Some(y)) => num_bits(x.powf(y)),
                _ => "BAD".into(),
            })
        }
        "all-str" => Some(str_line(line)),
        "all-print" => Some(print_line(line)),
        "all-direct" => Some(direct_line(line)),
        _ => None,
    }
}
