// verif-harness: runs the real blots-core (built from /repo's working tree) on inputs
// supplied one per line on stdin and prints one canonical result line per input.
// Every call into blots-core is wrapped in catch_unwind; a panic prints PANIC.
mod show;
mod streams;
mod streams2;

use std::io::{self, BufRead, Write};

fn main() {
    // Everything runs on a thread whose stack is sized like the CLI's interpreter thread (blots/src/main.rs
    // runs the interpreter on a 1 GiB thread so that the 1000-call depth limit is reached before the native
    // stack ends): on the 8 MiB main thread a runaway recursion with an ordinarily nested body overflows the
    // stack of THIS process (SIGABRT) although the shipped binary reports the depth error — which the thorough
    // tiers of C02 / C03 (tens of thousands of generated programs) met and reported as a process death.
    let handle = std::thread::Builder::new()
        .name("harness".into())
        .stack_size(1 << 30)
        .spawn(real_main)
        .expect("spawn harness thread");
    let _ = handle.join();
}

fn real_main() {
    // silence the default panic message; panics are reported as data
    std::panic::set_hook(Box::new(|_| {}));
    let args: Vec<String> = std::env::args().collect();
    if args.len() < 2 {
        eprintln!("usage: verif-harness <subcommand> [args]   (input lines on stdin)");
        std::process::exit(2);
    }
    let sub = args[1].as_str();
    let rest: Vec<String> = args[2..].to_vec();
    let stdin = io::stdin();
    let stdout = io::stdout();
    let mut out = io::BufWriter::new(stdout.lock());

    if let Some(text) = streams::oneshot(sub, &rest) {
        out.write_all(text.as_bytes()).unwrap();
        out.flush().unwrap();
        return;
    }
    for line in stdin.lock().lines() {
        let line = match line {
            Ok(l) => l,
            Err(_) => break,
        };
        let sub_owned = sub.to_string();
        let rest_c = rest.clone();
        let line_c = line.clone();
        let r = std::panic::catch_unwind(move || streams::dispatch(&sub_owned, &rest_c, &line_c));
        let text = match r {
            Ok(Some(t)) => t,
            Ok(None) => {
                eprintln!("unknown subcommand {}", sub);
                std::process::exit(2);
            }
            Err(e) => {
                let msg = if let Some(s) = e.downcast_ref::<&str>() {
                    s.to_string()
                } else if let Some(s) = e.downcast_ref::<String>() {
                    s.clone()
                } else {
                    "?".to_string()
                };
                format!("PANIC {}", show::hex(msg.as_bytes()))
            }
        };
        out.write_all(text.as_bytes()).unwrap();
        out.write_all(b"\n").unwrap();
        // one result per line reaches the pipe before the next case starts: a case that kills the process
        // is then the first line without a result, not some later one
        out.flush().unwrap();
    }
    out.flush().unwrap();
}
