// PEG correspondence stream (coq/Peg.v + coq/gen/Grammar.v against pest's generated parser):
//   pegtree (per line) hex(source) -> "OK <forest>" | "ERR" | "BADUTF8"
//       <forest> = the pairs of blots_core::parser::get_pairs(source) (Rule::input), each printed as
//       (<rule name> <start byte> <end byte> <inner pair>*), separated by one blank — exactly what
//       Peg.show_res prints for the model's result.
//   pegerr  (per line) hex(source) -> "OK" | "ERR <byte position of the pest error>"
use crate::show::*;
use blots_core::parser::{get_pairs, Rule};
use pest::iterators::Pair;

pub fn oneshot(_sub: &str, _rest: &[String]) -> Option<String> {
    None
}

pub fn dispatch(sub: &str, _rest: &[String], line: &str) -> Option<String> {
    match sub {
        "pegtree" => Some(pegtree(line)),
        "pegerr" => Some(pegerr(line)),
        _ => None,
    }
}

fn show_pair(p: Pair<'_, Rule>, out: &mut String) {
    let sp = p.as_span();
    out.push('(');
    out.push_str(&format!("{:?} {} {}", p.as_rule(), sp.start(), sp.end()));
    for k in p.into_inner() {
        out.push(' ');
        show_pair(k, out);
    }
    out.push(')');
}

fn pegtree(line: &str) -> String {
    let src = match String::from_utf8(unhex(line)) {
        Ok(s) => s,
        Err(_) => return "BADUTF8".into(),
    };
    match get_pairs(&src) {
        Ok(pairs) => {
            let mut out = String::from("OK ");
            let mut first = true;
            for p in pairs {
                if !first {
                    out.push(' ');
                }
                first = false;
                show_pair(p, &mut out);
            }
            out
        }
        Err(_) => "ERR".into(),
    }
}

fn pegerr(line: &str) -> String {
    let src = match String::from_utf8(unhex(line)) {
        Ok(s) => s,
        Err(_) => return "BADUTF8".into(),
    };
    match get_pairs(&src) {
        Ok(_) => "OK".into(),
        Err(e) => {
            let p = match e.location {
                pest::error::InputLocation::Pos(p) => p,
                pest::error::InputLocation::Span((a, _)) => a,
            };
            format!("ERR {} {}", p, src.len())
        }
    }
}
