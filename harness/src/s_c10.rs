// C10 streams: the precedence table as the built crate reports it, and PARSE variants.
//   dump-prec            (oneshot)  one line per BinaryOp:  <BinaryOp>\t<level u8>\t<Left|Right>
//                                   as returned by blots_core::precedence::operator_info
//   parse10   (per line) hex(source) -> "E <coq expr>" / "O <coq expr>" statements joined by
//                                   " ;; " (comments dropped: pairs_to_expr), or REJECT / GLUEERR
//   parse10eq (per line) hex(a) TAB hex(b) -> SAME | DIFF | REJECT-A | REJECT-B | REJECT-BOTH
//                                   (span-blind AST equality of the two parses, decided in Rust)
use crate::show::*;
use blots_core::ast::BinaryOp;
use blots_core::expressions::pairs_to_expr;
use blots_core::parser::{get_pairs, Rule};
use blots_core::precedence::{operator_info, Assoc};

pub fn oneshot(sub: &str, _rest: &[String]) -> Option<String> {
    match sub {
        "dump-prec" => Some(dump_prec()),
        _ => None,
    }
}

pub fn dispatch(sub: &str, _rest: &[String], line: &str) -> Option<String> {
    match sub {
        "parse10" => Some(parse10(line)),
        "parse10eq" => Some(parse10eq(line)),
        _ => None,
    }
}

const ALL_BINOPS: [BinaryOp; 26] = [
    BinaryOp::Add,
    BinaryOp::Subtract,
    BinaryOp::Multiply,
    BinaryOp::Divide,
    BinaryOp::Modulo,
    BinaryOp::Power,
    BinaryOp::Equal,
    BinaryOp::NotEqual,
    BinaryOp::Less,
    BinaryOp::LessEq,
    BinaryOp::Greater,
    BinaryOp::GreaterEq,
    BinaryOp::DotEqual,
    BinaryOp::DotNotEqual,
    BinaryOp::DotLess,
    BinaryOp::DotLessEq,
    BinaryOp::DotGreater,
    BinaryOp::DotGreaterEq,
    BinaryOp::And,
    BinaryOp::NaturalAnd,
    BinaryOp::Or,
    BinaryOp::NaturalOr,
    BinaryOp::Via,
    BinaryOp::Into,
    BinaryOp::Where,
    BinaryOp::Coalesce,
];

fn dump_prec() -> String {
    let mut s = String::new();
    for op in ALL_BINOPS.iter() {
        // exhaustive match: a new BinaryOp variant fails the harness build (a broken tie)
        match op {
            BinaryOp::Add
            | BinaryOp::Subtract
            | BinaryOp::Multiply
            | BinaryOp::Divide
            | BinaryOp::Modulo
            | BinaryOp::Power
            | BinaryOp::Equal
            | BinaryOp::NotEqual
            | BinaryOp::Less
            | BinaryOp::LessEq
            | BinaryOp::Greater
            | BinaryOp::GreaterEq
            | BinaryOp::DotEqual
            | BinaryOp::DotNotEqual
            | BinaryOp::DotLess
            | BinaryOp::DotLessEq
            | BinaryOp::DotGreater
            | BinaryOp::DotGreaterEq
            | BinaryOp::And
            | BinaryOp::NaturalAnd
            | BinaryOp::Or
            | BinaryOp::NaturalOr
            | BinaryOp::Via
            | BinaryOp::Into
            | BinaryOp::Where
            | BinaryOp::Coalesce => {}
        }
        let (p, a) = operator_info(op);
        s.push_str(&format!(
            "{}\t{}\t{}\n",
            binop_name(op),
            p,
            match a {
                Assoc::Left => "Left",
                Assoc::Right => "Right",
            }
        ));
    }
    s
}

fn parse_stmts(src: &str) -> Result<Vec<String>, &'static str> {
    let pairs = match get_pairs(src) {
        Ok(p) => p,
        Err(_) => return Err("REJECT"),
    };
    let mut out: Vec<String> = Vec::new();
    for pair in pairs {
        if pair.as_rule() != Rule::statement {
            continue;
        }
        let mut inner = pair.into_inner();
        if let Some(first) = inner.next() {
            match first.as_rule() {
                Rule::expression | Rule::output_declaration => {
                    let kind = if first.as_rule() == Rule::expression { "E" } else { "O" };
                    match pairs_to_expr(first.into_inner()) {
                        Ok(e) => out.push(format!("{} {}", kind, coq_expr(&e))),
                        Err(_) => return Err("GLUEERR"),
                    }
                }
                Rule::comment => {}
                _ => out.push("?".into()),
            }
        }
    }
    Ok(out)
}

fn parse10(line: &str) -> String {
    let src = match String::from_utf8(unhex(line)) {
        Ok(s) => s,
        Err(_) => return "BADUTF8".into(),
    };
    match parse_stmts(&src) {
        Ok(v) => v.join(" ;; "),
        Err(e) => e.into(),
    }
}

fn parse10eq(line: &str) -> String {
    let mut parts = line.split('\t');
    let a = parts.next().and_then(|h| String::from_utf8(unhex(h)).ok());
    let b = parts.next().and_then(|h| String::from_utf8(unhex(h)).ok());
    let (a, b) = match (a, b) {
        (Some(a), Some(b)) => (a, b),
        _ => return "BADUTF8".into(),
    };
    match (parse_stmts(&a), parse_stmts(&b)) {
        (Ok(x), Ok(y)) => {
            if x == y {
                "SAME".into()
            } else {
                "DIFF".into()
            }
        }
        (Err(_), Ok(_)) => "REJECT-A".into(),
        (Ok(_), Err(_)) => "REJECT-B".into(),
        (Err(_), Err(_)) => "REJECT-BOTH".into(),
    }
}
