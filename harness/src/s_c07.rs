// C07 streams: the single-line printer and the formatter, each output re-parsed by the real
// parser and compared with the parse of the input (Spanned's span-blind PartialEq; comments
// dropped by parsing both sides with pairs_to_expr).
//
//   print07  [--comments]   line: hex(src)
//       per statement (joined by " ;; "):
//         <K> <coq expr> | hex(expr_to_source(ast)) | <RT> | <classes>
//       K = E (expression statement) / O (output declaration, printed as Expr::Output like both
//       drivers do); RT = SAME / DIFF / REJECT: the printed text parsed again as a one-statement
//       program vs the ast; classes = structural known-finding classes of the ast (twin of
//       Printer.v known_classes), comma separated, "-" when none.
//       Whole line REJECT / GLUEERR when the source does not parse.
//   format07                line: hex(src) TAB width   (width 0 = None = default 80)
//       L:<verdict>:<hex text> EV:<same|diff|skip>
//       L = statement loop of blots-wasm/src/lib.rs::format_blots mirrored (width as given; the crate
//       is a cdylib); the other driver, `blots --format IN OUT`, is run as the real binary by the
//       check and its output compared through ast07eq;
//       verdict = SAME / DIFF / REJECT (formatted text does not parse) / GLUEERR / EMPTY;
//       EV compares the per-statement evaluation outcomes of src and of the L text.
//   ast07eq                 line: hex(a) TAB hex(b)  -> SAME | DIFF | REJECT-A | REJECT-B
use crate::show::*;
use crate::streams::{run_program, Session};
use blots_core::ast::{BinaryOp, Expr, RecordKey, Spanned, SpannedExpr, UnaryOp};
use blots_core::ast_to_source::expr_to_source;
use blots_core::expressions::{pairs_to_expr, pairs_to_expr_with_comments};
use blots_core::formatter::{format_expr, join_statements_with_spacing};
use blots_core::parser::{get_pairs, Rule};

pub fn oneshot(_sub: &str, _rest: &[String]) -> Option<String> {
    None
}

pub fn dispatch(sub: &str, rest: &[String], line: &str) -> Option<String> {
    match sub {
        "print07" => Some(print07(line, rest.iter().any(|a| a == "--comments"))),
        "format07" => Some(format07(line, rest.iter().any(|a| a == "--leading-minus"))),
        "ast07eq" => Some(ast07eq(line)),
        _ => None,
    }
}

fn text_of(h: &str) -> Option<String> {
    String::from_utf8(unhex(h)).ok()
}

/// The statements of a program as ASTs (comment statements dropped).  Output declarations are
/// wrapped in Expr::Output exactly like both format drivers do.
fn parse_stmts(src: &str, comments: bool) -> Result<Vec<(char, SpannedExpr)>, &'static str> {
    let pairs = get_pairs(src).map_err(|_| "REJECT")?;
    let mut out = Vec::new();
    for pair in pairs {
        if pair.as_rule() != Rule::statement {
            continue;
        }
        if let Some(first) = pair.into_inner().next() {
            let rule = first.as_rule();
            match rule {
                Rule::expression | Rule::output_declaration => {
                    let r = if comments {
                        pairs_to_expr_with_comments(first.into_inner())
                    } else {
                        pairs_to_expr(first.into_inner())
                    };
                    let e = r.map_err(|_| "GLUEERR")?;
                    if rule == Rule::expression {
                        out.push(('E', e));
                    } else {
                        out.push(('O', Spanned::dummy(Expr::Output { expr: Box::new(e) })));
                    }
                }
                _ => {}
            }
        }
    }
    Ok(out)
}

fn same_program(a: &[(char, SpannedExpr)], b: &[(char, SpannedExpr)]) -> bool {
    a.len() == b.len() && a.iter().zip(b.iter()).all(|(x, y)| x.0 == y.0 && x.1 == y.1)
}

fn verdict(orig: &[(char, SpannedExpr)], text: &str) -> &'static str {
    match parse_stmts(text, false) {
        Ok(b) => {
            if same_program(orig, &b) {
                "SAME"
            } else {
                "DIFF"
            }
        }
        Err(e) => e,
    }
}

// ------------------------------------------------------------------ known-finding classes
// Twin of coq/Printer.v `known_classes` (validated against it on every PRINT case).
// A class is a parent-position / child shape at which the pinned printer omitted parentheses
// (or quoting) that the grammar needs.
fn level(op: &BinaryOp) -> u8 {
    use BinaryOp::*;
    match op {
        And | NaturalAnd | Or | NaturalOr | Via | Into | Where => 1,
        Equal | NotEqual | Less | LessEq | Greater | GreaterEq | DotEqual | DotNotEqual | DotLess
        | DotLessEq | DotGreater | DotGreaterEq => 2,
        Add | Subtract => 3,
        Multiply | Divide | Modulo => 4,
        Power => 5,
        Coalesce => 6,
    }
}

#[derive(PartialEq, Clone, Copy)]
enum Tail {
    Closed,
    Lambda,
    Greedy,
}

struct Cls {
    tags: Vec<&'static str>,
}

impl Cls {
    fn add(&mut self, t: &'static str) {
        if !self.tags.contains(&t) {
            self.tags.push(t);
        }
    }
}

/// parentheses the PINNED printer (ast_to_source.rs::needs_parens_in_binop at the pinned commit)
/// emitted around `child` as an operand of binary `op`; there Power and Coalesce shared level 5
fn old_binop_parens(op: &BinaryOp, child: &SpannedExpr, is_left: bool) -> bool {
    let pinned = |o: &BinaryOp| -> u8 {
        match o {
            BinaryOp::Coalesce => 5,
            _ => level(o),
        }
    };
    match &child.node {
        Expr::BinaryOp { op: cop, .. } => {
            let (pp, cp) = (pinned(op), pinned(cop));
            if cp < pp {
                return true;
            }
            if cp == pp && !is_left {
                if matches!(op, BinaryOp::Power) {
                    return true;
                }
                if matches!(op, BinaryOp::Subtract | BinaryOp::Divide | BinaryOp::Modulo) {
                    return true;
                }
            }
            false
        }
        _ => false,
    }
}

fn is_vwi(op: &BinaryOp) -> bool {
    matches!(op, BinaryOp::Via | BinaryOp::Into | BinaryOp::Where)
}

fn olevel(e: &SpannedExpr) -> u8 {
    match &e.node {
        Expr::BinaryOp { op, .. } => level(op),
        Expr::UnaryOp { .. } | Expr::Spread(_) => 7,
        Expr::PostfixOp { .. } => 8,
        Expr::Call { .. } | Expr::Access { .. } | Expr::DotAccess { .. } => 9,
        _ => 10,
    }
}

fn need_l(op: &BinaryOp) -> u8 {
    if matches!(op, BinaryOp::Power) { level(op) + 1 } else { level(op) }
}
fn need_r(op: &BinaryOp) -> u8 {
    if matches!(op, BinaryOp::Power) { level(op) } else { level(op) + 1 }
}

/// parentheses of the complete rule (Printer.v new_*), and the tail it leaves
fn new_left(op: &BinaryOp, c: &SpannedExpr) -> bool {
    olevel(c) < need_l(op) || match tail(c) {
        Tail::Closed => false,
        Tail::Lambda => !is_vwi(op),
        Tail::Greedy => true,
    }
}
fn new_right(op: &BinaryOp, c: &SpannedExpr) -> bool {
    olevel(c) < need_r(op)
}
fn new_unary(c: &SpannedExpr) -> bool {
    olevel(c) < 7
}
fn new_post(c: &SpannedExpr) -> bool {
    olevel(c) < 8 || tail(c) != Tail::Closed
}
fn flat_vwi(e: &SpannedExpr) -> bool {
    match &e.node {
        Expr::BinaryOp { op, left, right } => {
            is_vwi(op) || (!new_left(op, left) && flat_vwi(left)) || (!new_right(op, right) && flat_vwi(right))
        }
        Expr::UnaryOp { expr, .. } => !new_unary(expr) && flat_vwi(expr),
        _ => false,
    }
}
fn tail(e: &SpannedExpr) -> Tail {
    match &e.node {
        Expr::Lambda { body, .. } => {
            if !flat_vwi(body) && tail(body) == Tail::Greedy { Tail::Greedy } else { Tail::Lambda }
        }
        Expr::Conditional { .. } | Expr::Assignment { .. } | Expr::Output { .. } => Tail::Greedy,
        Expr::BinaryOp { op, right, .. } => {
            if new_right(op, right) { Tail::Closed } else { tail(right) }
        }
        Expr::UnaryOp { expr, .. } => {
            if new_unary(expr) { Tail::Closed } else { tail(expr) }
        }
        _ => Tail::Closed,
    }
}

/// the leftmost token of the printed form is a prefix minus
fn starts_neg(e: &SpannedExpr) -> bool {
    match &e.node {
        Expr::UnaryOp { op: UnaryOp::Negate, .. } => true,
        Expr::BinaryOp { op, left, .. } => !new_left(op, left) && starts_neg(left),
        Expr::Call { func, .. } => !new_post(func) && starts_neg(func),
        Expr::Access { expr, .. } | Expr::DotAccess { expr, .. } | Expr::PostfixOp { expr, .. } => {
            !new_post(expr) && starts_neg(expr)
        }
        _ => false,
    }
}

fn has_both_quotes_or_escape(s: &str) -> bool {
    s.contains('"') || s.contains('\\')
}

fn classes(e: &SpannedExpr, c: &mut Cls) {
    match &e.node {
        Expr::String(s) => {
            if has_both_quotes_or_escape(s) {
                c.add("quote");
            }
        }
        Expr::List(items) => {
            for i in items {
                classes(&i.node, c);
            }
        }
        Expr::Record(entries) => {
            for en in entries {
                match &en.node.key {
                    RecordKey::Static(k) => {
                        if has_both_quotes_or_escape(k) {
                            c.add("quote");
                        }
                        classes(&en.node.value, c);
                    }
                    RecordKey::Dynamic(k) => {
                        classes(k, c);
                        classes(&en.node.value, c);
                    }
                    RecordKey::Shorthand(_) => {}
                    RecordKey::Spread(x) => classes(x, c),
                }
            }
        }
        Expr::Lambda { body, .. } => {
            if flat_vwi(body) {
                c.add("lambda-body");
            }
            classes(body, c);
        }
        Expr::Conditional { condition, then_expr, else_expr } => {
            classes(condition, c);
            classes(then_expr, c);
            classes(else_expr, c);
        }
        Expr::DoBlock { statements, return_expr } => {
            for (i, s) in statements.iter().enumerate() {
                if i > 0 && starts_neg(&s.node) {
                    c.add("do-minus");
                }
                classes(&s.node, c);
            }
            classes(&return_expr.node, c);
        }
        Expr::Assignment { value, .. } => classes(value, c),
        Expr::Output { expr } => classes(expr, c),
        Expr::Call { func, args } => {
            let old = matches!(func.node, Expr::Lambda { .. });
            if new_post(func) != old {
                c.add("postfix-operand");
            }
            classes(func, c);
            for a in args {
                classes(a, c);
            }
        }
        Expr::Access { expr, index } => {
            if new_post(expr) {
                c.add("postfix-operand");
            }
            classes(expr, c);
            classes(index, c);
        }
        Expr::DotAccess { expr, .. } => {
            if new_post(expr) {
                c.add("postfix-operand");
            }
            classes(expr, c);
        }
        Expr::PostfixOp { expr, .. } => {
            if new_post(expr) {
                c.add("postfix-operand");
            }
            classes(expr, c);
        }
        Expr::UnaryOp { expr, .. } => {
            if new_unary(expr) {
                c.add("unary-operand");
            }
            classes(expr, c);
        }
        Expr::BinaryOp { op, left, right } => {
            if new_left(op, left) != old_binop_parens(op, left, true) {
                if olevel(left) < need_l(op) { c.add("binary-left") } else { c.add("open-left") }
            }
            if new_right(op, right) != old_binop_parens(op, right, false) {
                c.add("binary-right");
            }
            classes(left, c);
            classes(right, c);
        }
        Expr::Spread(x) => classes(x, c),
        _ => {}
    }
}

fn classes_text(e: &SpannedExpr, index: usize) -> String {
    let mut c = Cls { tags: Vec::new() };
    // a statement after another one whose printed form starts with `-` continues that statement
    if index > 0 && starts_neg(e) {
        c.add("do-minus");
    }
    classes(e, &mut c);
    if c.tags.is_empty() {
        "-".into()
    } else {
        c.tags.sort();
        c.tags.join(",")
    }
}

// ------------------------------------------------------------------ PRINT
fn print07(line: &str, comments: bool) -> String {
    let src = match text_of(line) {
        Some(s) => s,
        None => return "BADUTF8".into(),
    };
    let stmts = match parse_stmts(&src, comments) {
        Ok(s) => s,
        Err(e) => return e.into(),
    };
    let plain = if comments {
        match parse_stmts(&src, false) {
            Ok(s) => s,
            Err(e) => return e.into(),
        }
    } else {
        stmts.clone()
    };
    let mut out = Vec::new();
    for (i, (k, e)) in stmts.iter().enumerate() {
        let text = expr_to_source(e);
        let rt = verdict(&plain[i..i + 1], &text);
        out.push(format!("{} {} | {} | {} | {}", k, coq_expr(e), hex(text.as_bytes()), rt, classes_text(e, i)));
    }
    out.join(" ;; ")
}

// ------------------------------------------------------------------ FORMAT drivers
/// blots-wasm/src/lib.rs::format_blots, statement loop mirrored (the crate is a cdylib).
/// `leading_minus`: the copy follows fixes/C07-leading-minus.diff (the check passes --leading-minus
/// when blots-wasm/src/lib.rs of the tree under test calls protect_leading_minus).
fn lib_driver(src: &str, max_columns: Option<usize>, leading_minus: bool) -> Result<String, &'static str> {
    let pairs = get_pairs(src).map_err(|_| "REJECT")?;
    let mut formatted_statements = Vec::new();
    for pair in pairs {
        if pair.as_rule() == Rule::statement {
            let start_line = pair.as_span().start_pos().line_col().0;
            let end_line = pair.as_span().end_pos().line_col().0;
            let mut inner_pairs = pair.into_inner();
            if let Some(first_pair) = inner_pairs.next() {
                let formatted = match first_pair.as_rule() {
                    Rule::comment => first_pair.as_str().to_string(),
                    Rule::output_declaration => {
                        let inner_expr =
                            pairs_to_expr_with_comments(first_pair.into_inner()).map_err(|_| "GLUEERR")?;
                        let output_expr = Spanned::dummy(Expr::Output { expr: Box::new(inner_expr) });
                        format_expr(&output_expr, max_columns)
                    }
                    _ => {
                        let expr = pairs_to_expr_with_comments(first_pair.into_inner()).map_err(|_| "GLUEERR")?;
                        format_expr(&expr, max_columns)
                    }
                };
                let formatted = if leading_minus && !formatted_statements.is_empty() && formatted.starts_with('-') {
                    format!("({})", formatted)
                } else {
                    formatted
                };
                let final_formatted = if let Some(eol_comment) = inner_pairs.next() {
                    if eol_comment.as_rule() == Rule::comment {
                        format!("{}  {}", formatted, eol_comment.as_str())
                    } else {
                        formatted
                    }
                } else {
                    formatted
                };
                formatted_statements.push((final_formatted, start_line, end_line));
            }
        }
    }
    if formatted_statements.is_empty() {
        return Err("EMPTY");
    }
    Ok(join_statements_with_spacing(&formatted_statements))
}

fn format07(line: &str, leading_minus: bool) -> String {
    let mut parts = line.split('\t');
    let src = match parts.next().and_then(text_of) {
        Some(s) => s,
        None => return "BADUTF8".into(),
    };
    let width: usize = parts.next().and_then(|w| w.parse().ok()).unwrap_or(0);
    let orig = match parse_stmts(&src, false) {
        Ok(s) => s,
        Err(e) => return e.into(),
    };
    let w = if width == 0 { None } else { Some(width) };
    let (lv, lt) = match lib_driver(&src, w, leading_minus) {
        Ok(t) => (verdict(&orig, &t), t),
        Err(e) => (e, String::new()),
    };
    let ev = if lv == "EMPTY" || lv == "GLUEERR" {
        "skip"
    } else {
        let a = run_program(&mut Session::new(None).unwrap(), &src, false);
        let b = run_program(&mut Session::new(None).unwrap(), &lt, false);
        if a == b { "same" } else { "diff" }
    };
    format!("L:{}:{} EV:{}", lv, hex(lt.as_bytes()), ev)
}

fn ast07eq(line: &str) -> String {
    let mut parts = line.split('\t');
    let a = parts.next().and_then(text_of);
    let b = parts.next().and_then(text_of);
    let (a, b) = match (a, b) {
        (Some(a), Some(b)) => (a, b),
        _ => return "BADUTF8".into(),
    };
    let pa = match parse_stmts(&a, false) {
        Ok(s) => s,
        Err(_) => return "REJECT-A".into(),
    };
    match parse_stmts(&b, false) {
        Ok(pb) => {
            if same_program(&pa, &pb) { "SAME".into() } else { "DIFF".into() }
        }
        Err(_) => "REJECT-B".into(),
    }
}
