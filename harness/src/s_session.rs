// SESSION stream (C02 C03 C04): statements are evaluated one by one against one heap and one
// root environment, like the REPL / evaluate_source do, but the loop CONTINUES after a failing
// statement (a session), and after every statement the root bindings are snapshotted and every
// bound function is probed with a fixed call, so that "a bound name never changes" can be
// checked on the implementation alone.
//
//   session [--stop]   line: hex(src) [TAB hex(inputs json)]
//   output: seg1|seg2|... ## probe1|probe2|...
//     seg_i   = <result>;ENV:<root bindings sorted, display names shown>
//     probe_i = name=<result of `name(2)`>,... for each bound function (names=false)
use crate::show::*;
use crate::streams::{classify_err, show_env, Session};
use blots_core::expressions::{evaluate_pairs, validate_portable_value};
use blots_core::parser::{get_pairs, Rule};
use blots_core::values::Value;
use std::rc::Rc;

pub fn oneshot(_sub: &str, _rest: &[String]) -> Option<String> {
    None
}

pub fn dispatch(sub: &str, rest: &[String], line: &str) -> Option<String> {
    match sub {
        "session" => Some(session_line(line, rest.iter().any(|a| a == "--stop"))),
        _ => None,
    }
}

fn text_of(h: &str) -> Option<String> {
    String::from_utf8(unhex(h)).ok()
}

fn probes(sess: &Session) -> String {
    let mut items: Vec<(String, Value)> = sess.bindings.iter().collect();
    items.sort_by(|a, b| a.0.as_bytes().cmp(b.0.as_bytes()));
    let mut out: Vec<String> = Vec::new();
    for (k, v) in items.iter() {
        if !(v.is_lambda() || v.is_built_in()) {
            continue;
        }
        // only plain identifiers can be called by name
        if !k.chars().all(|c| c.is_ascii_alphanumeric() || c == '_') {
            continue;
        }
        let src = format!("{}(2)", k);
        let r = match get_pairs(&src) {
            Ok(mut pairs) => match pairs.next().and_then(|p| p.into_inner().next()) {
                Some(inner) if inner.as_rule() == Rule::expression => {
                    match evaluate_pairs(
                        inner.into_inner(),
                        Rc::clone(&sess.heap),
                        Rc::clone(&sess.bindings),
                        0,
                        &src,
                    ) {
                        Ok(v) => format!("OK:{}", show_value(&v, &sess.heap.borrow(), false)),
                        Err(e) => classify_err(&e.to_string()).to_string(),
                    }
                }
                _ => "NOPROBE".into(),
            },
            Err(_) => "NOPROBE".into(),
        };
        out.push(format!("{}={}", hex(k.as_bytes()), r));
    }
    out.join(",")
}

fn session_line(line: &str, stop: bool) -> String {
    let mut parts = line.split('\t');
    let src = match parts.next().and_then(text_of) {
        Some(s) => s,
        None => return "BADUTF8".into(),
    };
    let inputs = parts.next().and_then(text_of);
    let mut sess = match Session::new(inputs.as_deref()) {
        Ok(s) => s,
        Err(_) => return "BADINPUT".into(),
    };
    let pairs = match get_pairs(&src) {
        Ok(p) => p,
        Err(_) => return "REJECT".into(),
    };
    let mut segs: Vec<String> = Vec::new();
    let mut prs: Vec<String> = Vec::new();
    for pair in pairs {
        if pair.as_rule() != Rule::statement {
            continue;
        }
        let inner_pair = match pair.into_inner().next() {
            Some(p) => p,
            None => continue,
        };
        let mut failed = false;
        let res: String = match inner_pair.as_rule() {
            Rule::expression => {
                match evaluate_pairs(
                    inner_pair.into_inner(),
                    Rc::clone(&sess.heap),
                    Rc::clone(&sess.bindings),
                    0,
                    &src,
                ) {
                    Ok(v) => format!("OK:{}", show_value(&v, &sess.heap.borrow(), true)),
                    Err(e) => {
                        failed = true;
                        classify_err(&e.to_string()).to_string()
                    }
                }
            }
            Rule::output_declaration => {
                let inner_clone = inner_pair.clone().into_inner();
                let r = evaluate_pairs(
                    inner_pair.clone().into_inner(),
                    Rc::clone(&sess.heap),
                    Rc::clone(&sess.bindings),
                    0,
                    &src,
                );
                let mut out_err = false;
                for p in inner_clone {
                    match p.as_rule() {
                        Rule::identifier => {
                            if let Ok(value) = &r {
                                if validate_portable_value(value, &sess.heap.borrow(), &sess.bindings).is_err() {
                                    out_err = true;
                                }
                            }
                            break;
                        }
                        Rule::assignment => {
                            if let Ok(value) = &r {
                                if validate_portable_value(value, &sess.heap.borrow(), &sess.bindings).is_err() {
                                    out_err = true;
                                }
                            }
                            break;
                        }
                        _ => {}
                    }
                }
                if out_err {
                    failed = true;
                    "OUTERR".into()
                } else {
                    match r {
                        Ok(v) => format!("OK:{}", show_value(&v, &sess.heap.borrow(), true)),
                        Err(e) => {
                            failed = true;
                            classify_err(&e.to_string()).to_string()
                        }
                    }
                }
            }
            Rule::comment => continue,
            _ => "?".into(),
        };
        segs.push(format!("{};ENV:{}", res, show_env(&sess, true)));
        prs.push(probes(&sess));
        if failed && stop {
            break;
        }
    }
    format!("{} ## {}", segs.join("|"), prs.join("|"))
}
