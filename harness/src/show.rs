// Canonical printers shared by every stream.  Each exists twice: here (for the Rust
// implementation's results) and in Gallina (coq/Show.v, for the model's results).
// Only "safe" characters are produced; all text payloads are hex-encoded.
use blots_core::ast::{BinaryOp, Commented, Expr, PostfixOp, RecordEntry, RecordKey, SpannedExpr, UnaryOp};
use blots_core::heap::{Heap, HeapPointer, HeapValue, IterablePointer};
use blots_core::values::{LambdaArg, Value};

pub fn hex(s: &[u8]) -> String {
    let mut o = String::with_capacity(s.len() * 2);
    for b in s {
        o.push_str(&format!("{:02x}", b));
    }
    o
}

pub fn unhex(s: &str) -> Vec<u8> {
    let b = s.as_bytes();
    let mut o = Vec::with_capacity(b.len() / 2);
    let v = |c: u8| -> u8 {
        match c {
            b'0'..=b'9' => c - b'0',
            b'a'..=b'f' => c - b'a' + 10,
            b'A'..=b'F' => c - b'A' + 10,
            _ => 0,
        }
    };
    let mut i = 0;
    while i + 1 < b.len() {
        o.push(v(b[i]) * 16 + v(b[i + 1]));
        i += 2;
    }
    o
}

pub fn num_bits(x: f64) -> String {
    if x.is_nan() {
        "7ff8000000000000".to_string()
    } else {
        format!("{:016x}", x.to_bits())
    }
}

pub fn show_args(args: &[LambdaArg]) -> String {
    args.iter()
        .map(|a| match a {
            LambdaArg::Required(n) => format!("r{}", hex(n.as_bytes())),
            LambdaArg::Optional(n) => format!("o{}", hex(n.as_bytes())),
            LambdaArg::Rest(n) => format!("s{}", hex(n.as_bytes())),
        })
        .collect::<Vec<_>>()
        .join(",")
}

/// Canonical value text. Lambdas: parameter list only (bodies are compared through
/// behaviour or through the EMIT stream), plus the current display name when `names`.
pub fn show_value(v: &Value, heap: &Heap, names: bool) -> String {
    match v {
        Value::Number(x) => format!("N{}", num_bits(*x)),
        Value::Bool(true) => "T".into(),
        Value::Bool(false) => "F".into(),
        Value::Null => "U".into(),
        Value::String(p) => match p.reify(heap).as_string() {
            Ok(s) => format!("S{};", hex(s.as_bytes())),
            Err(_) => "?dangling".into(),
        },
        Value::List(p) => match p.reify(heap).as_list() {
            Ok(l) => format!(
                "L[{}]",
                l.iter().map(|x| show_value(x, heap, names)).collect::<Vec<_>>().join(",")
            ),
            Err(_) => "?dangling".into(),
        },
        Value::Record(p) => match p.reify(heap).as_record() {
            Ok(r) => format!(
                "R{{{}}}",
                r.iter()
                    .map(|(k, x)| format!("{}:{}", hex(k.as_bytes()), show_value(x, heap, names)))
                    .collect::<Vec<_>>()
                    .join(",")
            ),
            Err(_) => "?dangling".into(),
        },
        Value::Lambda(p) => match heap.get(p.index()) {
            Some(HeapValue::Lambda(d)) => {
                if names {
                    format!(
                        "FN({})@{}",
                        show_args(&d.args),
                        d.name.as_ref().map(|n| hex(n.as_bytes())).unwrap_or_else(|| "-".into())
                    )
                } else {
                    format!("FN({})", show_args(&d.args))
                }
            }
            _ => "?dangling".into(),
        },
        Value::BuiltIn(b) => format!("B{};", b.name()),
        Value::Spread(it) => {
            let inner = match it {
                IterablePointer::List(p) => Value::List(*p),
                IterablePointer::String(p) => Value::String(*p),
                IterablePointer::Record(p) => Value::Record(*p),
            };
            format!("X{}", show_value(&inner, heap, names))
        }
    }
}

// ---------------------------------------------------------------------------
// AST in Coq term syntax (constructor names of coq/Ast.v).  Spans are dropped.
// ---------------------------------------------------------------------------
fn cs(s: &str) -> String {
    format!("(hx \"{}\")", hex(s.as_bytes()))
}

pub fn binop_name(op: &BinaryOp) -> &'static str {
    match op {
        BinaryOp::Add => "Add",
        BinaryOp::Subtract => "Subtract",
        BinaryOp::Multiply => "Multiply",
        BinaryOp::Divide => "Divide",
        BinaryOp::Modulo => "Modulo",
        BinaryOp::Power => "Power",
        BinaryOp::Equal => "Equal",
        BinaryOp::NotEqual => "NotEqual",
        BinaryOp::Less => "Less",
        BinaryOp::LessEq => "LessEq",
        BinaryOp::Greater => "Greater",
        BinaryOp::GreaterEq => "GreaterEq",
        BinaryOp::DotEqual => "DotEqual",
        BinaryOp::DotNotEqual => "DotNotEqual",
        BinaryOp::DotLess => "DotLess",
        BinaryOp::DotLessEq => "DotLessEq",
        BinaryOp::DotGreater => "DotGreater",
        BinaryOp::DotGreaterEq => "DotGreaterEq",
        BinaryOp::And => "And",
        BinaryOp::NaturalAnd => "NaturalAnd",
        BinaryOp::Or => "Or",
        BinaryOp::NaturalOr => "NaturalOr",
        BinaryOp::Via => "Via",
        BinaryOp::Into => "Into",
        BinaryOp::Where => "Where",
        BinaryOp::Coalesce => "Coalesce",
    }
}

fn coq_list(items: Vec<String>) -> String {
    format!("[{}]", items.join("; "))
}

fn coq_commented<T>(c: &Commented<T>, f: &dyn Fn(&T) -> String) -> String {
    format!(
        "(Cm {} {} {})",
        coq_list(c.leading.iter().map(|s| cs(s)).collect()),
        f(&c.node),
        match &c.trailing {
            Some(t) => format!("(Some {})", cs(t)),
            None => "None".to_string(),
        }
    )
}

fn coq_arg(a: &LambdaArg) -> String {
    match a {
        LambdaArg::Required(n) => format!("(AReq {})", cs(n)),
        LambdaArg::Optional(n) => format!("(AOpt {})", cs(n)),
        LambdaArg::Rest(n) => format!("(ARest {})", cs(n)),
    }
}

fn coq_entry(e: &RecordEntry) -> String {
    let k = match &e.key {
        RecordKey::Static(s) => format!("(KStatic {})", cs(s)),
        RecordKey::Dynamic(x) => format!("(KDyn {})", coq_expr(x)),
        RecordKey::Shorthand(s) => format!("(KShort {})", cs(s)),
        RecordKey::Spread(x) => format!("(KSpread {})", coq_expr(x)),
    };
    format!("(REntry {} {})", k, coq_expr(&e.value))
}

pub fn builtin_ctor(name: &str) -> String {
    format!("B_{}", name)
}

pub fn coq_expr(e: &SpannedExpr) -> String {
    match &e.node {
        Expr::Number(x) => format!("(ENum (nb 0x{}))", num_bits(*x)),
        Expr::String(s) => format!("(EStr {})", cs(s)),
        Expr::Bool(b) => format!("(EBool {})", if *b { "true" } else { "false" }),
        Expr::Null => "ENull".into(),
        Expr::Identifier(s) => format!("(EId {})", cs(s)),
        Expr::InputReference(s) => format!("(EInRef {})", cs(s)),
        Expr::BuiltIn(b) => format!("(EBuiltin {})", builtin_ctor(b.name())),
        Expr::List(items) => format!(
            "(EList {})",
            coq_list(items.iter().map(|c| coq_commented(c, &|x| coq_expr(x))).collect())
        ),
        Expr::Record(entries) => format!(
            "(ERec {})",
            coq_list(entries.iter().map(|c| coq_commented(c, &|x| coq_entry(x))).collect())
        ),
        Expr::Lambda { args, body } => format!(
            "(ELam {} {})",
            coq_list(args.iter().map(coq_arg).collect()),
            coq_expr(body)
        ),
        Expr::Conditional { condition, then_expr, else_expr } => format!(
            "(ECond {} {} {})",
            coq_expr(condition),
            coq_expr(then_expr),
            coq_expr(else_expr)
        ),
        Expr::DoBlock { statements, return_expr } => format!(
            "(EDo {} {})",
            coq_list(statements.iter().map(|c| coq_commented(c, &|x| coq_expr(x))).collect()),
            coq_commented(return_expr, &|x| coq_expr(x))
        ),
        Expr::Assignment { ident, value } => format!("(EAssign {} {})", cs(ident), coq_expr(value)),
        Expr::Output { expr } => format!("(EOutput {})", coq_expr(expr)),
        Expr::Call { func, args } => format!(
            "(ECall {} {})",
            coq_expr(func),
            coq_list(args.iter().map(coq_expr).collect())
        ),
        Expr::Access { expr, index } => format!("(EAccess {} {})", coq_expr(expr), coq_expr(index)),
        Expr::DotAccess { expr, field } => format!("(EDot {} {})", coq_expr(expr), cs(field)),
        Expr::BinaryOp { op, left, right } => format!(
            "(EBin {} {} {})",
            binop_name(op),
            coq_expr(left),
            coq_expr(right)
        ),
        Expr::UnaryOp { op, expr } => format!(
            "(EUn {} {})",
            match op {
                UnaryOp::Negate => "Negate",
                UnaryOp::Not => "Not",
                UnaryOp::Invert => "Invert",
            },
            coq_expr(expr)
        ),
        Expr::PostfixOp { op, expr } => match op {
            PostfixOp::Factorial => format!("(EFact {})", coq_expr(expr)),
        },
        Expr::Spread(x) => format!("(ESpread {})", coq_expr(x)),
    }
}
