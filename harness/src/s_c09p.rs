// C09P stream (parser half of C09, coq/PegComments.v): text -> get_pairs -> the statement loop of the two
// format drivers -> pairs_to_expr_with_comments -> a canonical dump of the COMMENTED AST (which node every
// comment text is attached to and in which role), exactly what PegComments.show_program_c prints for
// Peg.v + PegToItems.conv + PegComments.pratt_c run on the same text.
//
//   c09p   (per line) hex(source) -> "OK <stmt> ;; <stmt> ..." | "REJECT" | "GLUEERR" | "BADUTF8"
//       <stmt>  = <start line>:<end line> <kind>[ E<hex eol comment>]
//       <kind>  = c<hex comment> | o<skel> | e<skel>
//       <skel>  = one tag per AST node with its children; a Commented<T> element is
//                 {l<hex>,l<hex>,|<node>|t<hex of the whole trailing field>}
//   c09pc  (per line) hex(source) -> "<hex>,<hex>,..." the texts of the comment / eol_comment PAIRS of the pair
//       tree in tree order (what PegComments.forest_comments computes on the model's tree) | "-"
use crate::show::*;
use blots_core::ast::{Commented, Expr, RecordKey, SpannedExpr};
use blots_core::expressions::pairs_to_expr_with_comments;
use blots_core::parser::{get_pairs, Rule};
use pest::iterators::Pair;

pub fn oneshot(_sub: &str, _rest: &[String]) -> Option<String> {
    None
}

pub fn dispatch(sub: &str, _rest: &[String], line: &str) -> Option<String> {
    match sub {
        "c09p" => Some(c09p(line)),
        "c09pc" => Some(c09pc(line)),
        _ => None,
    }
}

fn lead(l: &[String], out: &mut String) {
    for c in l {
        out.push('l');
        out.push_str(&hex(c.as_bytes()));
        out.push(',');
    }
}

fn trail(t: &Option<String>, out: &mut String) {
    if let Some(c) = t {
        out.push('t');
        out.push_str(&hex(c.as_bytes()));
    }
}

fn cm(c: &Commented<SpannedExpr>, out: &mut String) {
    out.push('{');
    lead(&c.leading, out);
    out.push('|');
    skel(&c.node, out);
    out.push('|');
    trail(&c.trailing, out);
    out.push('}');
}

fn skel(e: &SpannedExpr, out: &mut String) {
    match &e.node {
        Expr::Number(_) => out.push('n'),
        Expr::String(_) => out.push('s'),
        Expr::Bool(_) => out.push('b'),
        Expr::Null => out.push('u'),
        Expr::Identifier(_) => out.push('i'),
        Expr::InputReference(_) => out.push('r'),
        Expr::BuiltIn(_) => out.push('f'),
        Expr::List(items) => {
            out.push_str("L(");
            for c in items {
                cm(c, out);
            }
            out.push(')');
        }
        Expr::Record(entries) => {
            out.push_str("R(");
            for c in entries {
                out.push('{');
                lead(&c.leading, out);
                out.push('|');
                match &c.node.key {
                    RecordKey::Static(_) => {
                        out.push_str("k:");
                        skel(&c.node.value, out);
                    }
                    RecordKey::Dynamic(d) => {
                        out.push('d');
                        skel(d, out);
                        out.push(':');
                        skel(&c.node.value, out);
                    }
                    RecordKey::Shorthand(_) => out.push('h'),
                    RecordKey::Spread(x) => {
                        out.push('.');
                        skel(x, out);
                    }
                }
                out.push('|');
                trail(&c.trailing, out);
                out.push('}');
            }
            out.push(')');
        }
        Expr::Lambda { body, .. } => {
            out.push_str("F(");
            skel(body, out);
            out.push(')');
        }
        Expr::Conditional { condition, then_expr, else_expr } => {
            out.push_str("C(");
            skel(condition, out);
            skel(then_expr, out);
            skel(else_expr, out);
            out.push(')');
        }
        Expr::DoBlock { statements, return_expr } => {
            out.push_str("D(");
            for c in statements {
                cm(c, out);
            }
            out.push(';');
            cm(return_expr, out);
            out.push(')');
        }
        Expr::Assignment { value, .. } => {
            out.push_str("A(");
            skel(value, out);
            out.push(')');
        }
        Expr::Output { expr } => {
            out.push_str("O(");
            skel(expr, out);
            out.push(')');
        }
        Expr::Call { func, args } => {
            out.push_str("K(");
            skel(func, out);
            for a in args {
                out.push(',');
                skel(a, out);
            }
            out.push(')');
        }
        Expr::Access { expr, index } => {
            out.push_str("X(");
            skel(expr, out);
            skel(index, out);
            out.push(')');
        }
        Expr::DotAccess { expr, .. } => {
            out.push_str("T(");
            skel(expr, out);
            out.push(')');
        }
        Expr::BinaryOp { left, right, .. } => {
            out.push_str("B(");
            skel(left, out);
            skel(right, out);
            out.push(')');
        }
        Expr::UnaryOp { expr, .. } => {
            out.push_str("U(");
            skel(expr, out);
            out.push(')');
        }
        Expr::PostfixOp { expr, .. } => {
            out.push_str("!(");
            skel(expr, out);
            out.push(')');
        }
        Expr::Spread(x) => {
            out.push_str("S(");
            skel(x, out);
            out.push(')');
        }
    }
}

/// The statement loop of format_blots (harness/src/s_c0809.rs::format_lib) / of `blots --format`, up to the
/// point where the formatter is called.
fn c09p(line: &str) -> String {
    let src = match String::from_utf8(unhex(line)) {
        Ok(s) => s,
        Err(_) => return "BADUTF8".into(),
    };
    let pairs = match get_pairs(&src) {
        Ok(p) => p,
        Err(_) => return "REJECT".into(),
    };
    let mut stmts: Vec<String> = Vec::new();
    for pair in pairs {
        if pair.as_rule() != Rule::statement {
            continue;
        }
        let sl = pair.as_span().start_pos().line_col().0;
        let el = pair.as_span().end_pos().line_col().0;
        let mut inner = pair.into_inner();
        if let Some(first) = inner.next() {
            let mut s = format!("{}:{} ", sl, el);
            match first.as_rule() {
                Rule::comment => {
                    s.push('c');
                    s.push_str(&hex(first.as_str().as_bytes()));
                }
                Rule::output_declaration => match pairs_to_expr_with_comments(first.into_inner()) {
                    Ok(e) => {
                        s.push('o');
                        skel(&e, &mut s);
                    }
                    Err(_) => return "GLUEERR".into(),
                },
                _ => match pairs_to_expr_with_comments(first.into_inner()) {
                    Ok(e) => {
                        s.push('e');
                        skel(&e, &mut s);
                    }
                    Err(_) => return "GLUEERR".into(),
                },
            }
            if let Some(p) = inner.next() {
                if p.as_rule() == Rule::comment {
                    s.push_str(" E");
                    s.push_str(&hex(p.as_str().as_bytes()));
                }
            }
            stmts.push(s);
        }
    }
    format!("OK {}", stmts.join(" ;; "))
}

fn walk(p: Pair<'_, Rule>, out: &mut Vec<String>) {
    if p.as_rule() == Rule::comment || p.as_rule() == Rule::eol_comment {
        out.push(hex(p.as_str().as_bytes()));
    }
    for k in p.into_inner() {
        walk(k, out);
    }
}

fn c09pc(line: &str) -> String {
    let src = match String::from_utf8(unhex(line)) {
        Ok(s) => s,
        Err(_) => return "BADUTF8".into(),
    };
    match get_pairs(&src) {
        Ok(pairs) => {
            let mut out = Vec::new();
            for p in pairs {
                walk(p, &mut out);
            }
            out.join(",")
        }
        Err(_) => "-".into(),
    }
}
