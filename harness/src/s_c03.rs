// C03 QUIET sessions: like the SESSION stream (one heap + one root environment, the loop CONTINUES after
// a failing statement, exactly like the REPL loop of blots/src/main.rs), but NOTHING is observed between
// the statements: no environment snapshot, no probe calls — only what a user of the REPL sees, the
// printed result of each statement — and one snapshot of the root bindings at the very end.
// (The SESSION stream reads every binding after every statement; a defect that needs "a failed statement,
// then an allocation, then a read" is then met as a panic at the first snapshot; here it is met the way a
// user meets it, as a different value read through the name later on.)
//
//   c03-quiet   line: hex(src) [TAB hex(inputs json)]
//   output: r1|r2|...;ENV:<root bindings sorted, display names shown>
//     r_i = OK:<value> | ERR | ERRDEPTH | OUTERR | PANIC<hex msg>   (a panic is data: the session goes on)
use crate::show::*;
use crate::streams::{classify_err, show_env, Session};
use blots_core::expressions::{evaluate_pairs, validate_portable_value};
use blots_core::parser::{get_pairs, Rule};
use std::panic::{catch_unwind, AssertUnwindSafe};
use std::rc::Rc;

pub fn oneshot(_sub: &str, _rest: &[String]) -> Option<String> {
    None
}

pub fn dispatch(sub: &str, _rest: &[String], line: &str) -> Option<String> {
    match sub {
        "c03-quiet" => Some(quiet_line(line)),
        _ => None,
    }
}

fn text_of(h: &str) -> Option<String> {
    String::from_utf8(unhex(h)).ok()
}

fn panic_text(e: Box<dyn std::any::Any + Send>) -> String {
    let msg = if let Some(s) = e.downcast_ref::<&str>() {
        s.to_string()
    } else if let Some(s) = e.downcast_ref::<String>() {
        s.clone()
    } else {
        "?".to_string()
    };
    format!("PANIC{}", hex(msg.as_bytes()))
}

fn quiet_line(line: &str) -> String {
    let mut parts = line.split('\t');
    let src = match parts.next().and_then(text_of) {
        Some(s) => s,
        None => return "BADUTF8".into(),
    };
    let inputs = parts.next().and_then(text_of);
    let sess = match Session::new(inputs.as_deref()) {
        Ok(s) => s,
        Err(_) => return "BADINPUT".into(),
    };
    let pairs = match get_pairs(&src) {
        Ok(p) => p,
        Err(_) => return "REJECT".into(),
    };
    let mut res: Vec<String> = Vec::new();
    for pair in pairs {
        if pair.as_rule() != Rule::statement {
            continue;
        }
        let inner_pair = match pair.into_inner().next() {
            Some(p) => p,
            None => continue,
        };
        let is_output = match inner_pair.as_rule() {
            Rule::expression => false,
            Rule::output_declaration => true,
            Rule::comment => continue,
            _ => {
                res.push("?".into());
                continue;
            }
        };
        let one = catch_unwind(AssertUnwindSafe(|| {
            let r = evaluate_pairs(
                inner_pair.into_inner(),
                Rc::clone(&sess.heap),
                Rc::clone(&sess.bindings),
                0,
                &src,
            );
            match r {
                Ok(v) => {
                    if is_output && validate_portable_value(&v, &sess.heap.borrow(), &sess.bindings).is_err() {
                        "OUTERR".to_string()
                    } else {
                        format!("OK:{}", show_value(&v, &sess.heap.borrow(), true))
                    }
                }
                Err(e) => classify_err(&e.to_string()).to_string(),
            }
        }));
        res.push(match one {
            Ok(t) => t,
            Err(e) => panic_text(e),
        });
    }
    let env = match catch_unwind(AssertUnwindSafe(|| show_env(&sess, true))) {
        Ok(t) => t,
        Err(e) => panic_text(e),
    };
    format!("{};ENV:{}", res.join("|"), env)
}
