// FORMAT stream (C08 C09): source x width x driver -> formatted text, plus an independent
// comment scanner and the dumps the Coq document model (coq/Formatter.v) is run on.
//
//   fmt            line: hex(src) TAB width|- TAB lib|cli     -> OK <hex text> | REJECT | GLUEERR | EMPTY
//   scan           line: hex(text)                            -> <n>:<hex c1>,<hex c2>,...
//   fmtcase        line: hex(src)                             -> Coq term: statements ## number table | REJECT | GLUEERR
//   stmtpos        line: hex(src)                             -> sl:el,sl:el,... (statement pair spans) | REJECT
//   cpairs         line: hex(src)   first statement must be a bare list / record / do-block:
//                  -> L|R|D <inner pairs> ## <commented items of the AST>   (see cpairs_line)
//   dump-opinfo    (oneshot) precedence::operator_info for every binary operator
//   dump-parens    (oneshot) needs_parens_in_binop for every (parent op, child op, side)
//
// Drivers.  `lib` mirrors blots-wasm/src/lib.rs::format_blots line by line (the wasm crate is a
// cdylib that cannot be linked natively; the loop below is a copy of its statement loop with the
// JsValue/JsError plumbing removed).  `cli` mirrors the --format loop of blots/src/main.rs; the
// checks additionally run the real `blots --format IN OUT` binary and compare it with this mirror.
use crate::show::*;
use blots_core::ast::{BinaryOp, Expr, Spanned, SpannedExpr};
use blots_core::ast_to_source::{expr_to_source, needs_parens_in_binop};
use blots_core::expressions::pairs_to_expr_with_comments;
use blots_core::formatter::{format_expr, join_statements_with_spacing, protect_leading_minus};
use blots_core::parser::{get_pairs, Rule};

pub fn oneshot(sub: &str, _rest: &[String]) -> Option<String> {
    match sub {
        "dump-parens" => Some(dump_parens()),
        "dump-opinfo" => Some(dump_opinfo()),
        _ => None,
    }
}

pub fn dispatch(sub: &str, _rest: &[String], line: &str) -> Option<String> {
    match sub {
        "fmt" => Some(fmt_line(line)),
        "scan" => Some(scan_line(line)),
        "fmtcase" => Some(fmtcase_line(line)),
        "stmtpos" => Some(stmtpos_line(line)),
        "cpairs" => Some(cpairs_line(line)),
        _ => None,
    }
}

fn text_of(h: &str) -> Option<String> {
    String::from_utf8(unhex(h)).ok()
}

// ------------------------------------------------------------------ drivers
/// Mirror of blots-wasm/src/lib.rs::format_blots (as of f304333).
pub fn format_lib(source: &str, max_columns: Option<usize>) -> Result<String, &'static str> {
    let pairs = get_pairs(source).map_err(|_| "REJECT")?;
    let mut formatted_statements = Vec::new();
    for pair in pairs {
        if pair.as_rule() == Rule::statement {
            let start_line = pair.as_span().start_pos().line_col().0;
            let end_line = pair.as_span().end_pos().line_col().0;
            let mut inner_pairs = pair.into_inner();
            if let Some(first_pair) = inner_pairs.next() {
                let formatted = match first_pair.as_rule() {
                    Rule::comment => first_pair.as_str().to_string(),
                    Rule::output_declaration => {
                        let inner_expr =
                            pairs_to_expr_with_comments(first_pair.into_inner()).map_err(|_| "GLUEERR")?;
                        let output_expr = Spanned::dummy(Expr::Output { expr: Box::new(inner_expr) });
                        format_expr(&output_expr, max_columns)
                    }
                    _ => {
                        let expr =
                            pairs_to_expr_with_comments(first_pair.into_inner()).map_err(|_| "GLUEERR")?;
                        format_expr(&expr, max_columns)
                    }
                };
                // A statement after another one must not start with `-` (it would continue it)
                let formatted = protect_leading_minus(formatted, formatted_statements.is_empty());
                let final_formatted = if let Some(eol_comment) = inner_pairs.next() {
                    if eol_comment.as_rule() == Rule::comment {
                        format!("{}  {}", formatted, eol_comment.as_str())
                    } else {
                        formatted
                    }
                } else {
                    formatted
                };
                formatted_statements.push((final_formatted, start_line, end_line));
            }
        }
    }
    if formatted_statements.is_empty() {
        return Err("EMPTY");
    }
    Ok(join_statements_with_spacing(&formatted_statements))
}

/// Mirror of the --format loop in blots/src/main.rs (as of f304333); width is always the default.
/// (Not used by the checks, which run the real binary; kept for quick experiments.)
pub fn format_cli(source: &str) -> Result<String, &'static str> {
    let pairs = get_pairs(source).map_err(|_| "REJECT")?;
    let mut formatted_output = String::new();
    for pair in pairs {
        match pair.as_rule() {
            Rule::statement => {
                let mut inner_pairs = pair.into_inner();
                if let Some(inner_pair) = inner_pairs.next() {
                    let eol_comment = match inner_pairs.next() {
                        Some(p) if p.as_rule() == Rule::comment => format!("  {}", p.as_str()),
                        _ => String::new(),
                    };
                    match inner_pair.as_rule() {
                        Rule::expression => {
                            let expr =
                                pairs_to_expr_with_comments(inner_pair.into_inner()).map_err(|_| "GLUEERR")?;
                            let formatted = protect_leading_minus(format_expr(&expr, None), formatted_output.is_empty());
                            formatted_output.push_str(&formatted);
                            formatted_output.push_str(&eol_comment);
                            formatted_output.push('\n');
                        }
                        Rule::output_declaration => {
                            let inner_expr =
                                pairs_to_expr_with_comments(inner_pair.into_inner()).map_err(|_| "GLUEERR")?;
                            let output_expr = Spanned::dummy(Expr::Output { expr: Box::new(inner_expr) });
                            formatted_output.push_str(&format_expr(&output_expr, None));
                            formatted_output.push_str(&eol_comment);
                            formatted_output.push('\n');
                        }
                        Rule::comment => {
                            formatted_output.push_str(inner_pair.as_str());
                            formatted_output.push_str(&eol_comment);
                            formatted_output.push('\n');
                        }
                        _ => {}
                    }
                }
            }
            _ => {}
        }
    }
    Ok(formatted_output)
}

fn fmt_line(line: &str) -> String {
    let mut parts = line.split('\t');
    let src = match parts.next().and_then(text_of) {
        Some(s) => s,
        None => return "BADUTF8".into(),
    };
    let width = match parts.next() {
        Some("-") | None => None,
        Some(w) => w.parse::<usize>().ok(),
    };
    let driver = parts.next().unwrap_or("lib");
    let r = if driver == "cli" { format_cli(&src) } else { format_lib(&src, width) };
    match r {
        Ok(t) => format!("OK {}", hex(t.as_bytes())),
        Err(e) => e.to_string(),
    }
}

// ------------------------------------------------------------------ independent comment scanner
/// Lexer-level scan, written from the grammar's lexical rules only (string = quote ... same quote,
/// no escapes, may span lines; comment = "//" up to but excluding "\n" or "\r\n").  Does not use
/// the parser.
pub fn scan_comments(text: &str) -> Vec<String> {
    let b = text.as_bytes();
    let mut out = Vec::new();
    let mut i = 0usize;
    while i < b.len() {
        let ch = b[i];
        if ch == b'"' || ch == b'\'' {
            i += 1;
            while i < b.len() && b[i] != ch {
                i += 1;
            }
            i += 1; // closing quote (or past the end when unterminated)
        } else if ch == b'/' && i + 1 < b.len() && b[i + 1] == b'/' {
            let start = i;
            while i < b.len() && b[i] != b'\n' && !(b[i] == b'\r' && i + 1 < b.len() && b[i + 1] == b'\n') {
                i += 1;
            }
            out.push(String::from_utf8_lossy(&b[start..i]).to_string());
        } else {
            i += 1;
        }
    }
    out
}

fn scan_line(line: &str) -> String {
    let src = match text_of(line) {
        Some(s) => s,
        None => return "BADUTF8".into(),
    };
    let cs = scan_comments(&src);
    format!("{}:{}", cs.len(), cs.iter().map(|c| hex(c.as_bytes())).collect::<Vec<_>>().join(","))
}

// ------------------------------------------------------------------ model input
fn collect_numbers(e: &SpannedExpr, out: &mut Vec<(String, String)>) {
    let mut push = |x: f64, e: &SpannedExpr| {
        let k = num_bits(x);
        if !out.iter().any(|(b, _)| *b == k) {
            out.push((k, expr_to_source(e)));
        }
    };
    match &e.node {
        Expr::Number(x) => push(*x, e),
        Expr::List(items) => items.iter().for_each(|c| collect_numbers(&c.node, out)),
        Expr::Record(entries) => {
            for c in entries {
                match &c.node.key {
                    blots_core::ast::RecordKey::Dynamic(k) | blots_core::ast::RecordKey::Spread(k) => {
                        collect_numbers(k, out)
                    }
                    _ => {}
                }
                collect_numbers(&c.node.value, out);
            }
        }
        Expr::Lambda { body, .. } => collect_numbers(body, out),
        Expr::Conditional { condition, then_expr, else_expr } => {
            collect_numbers(condition, out);
            collect_numbers(then_expr, out);
            collect_numbers(else_expr, out);
        }
        Expr::DoBlock { statements, return_expr } => {
            statements.iter().for_each(|c| collect_numbers(&c.node, out));
            collect_numbers(&return_expr.node, out);
        }
        Expr::Assignment { value, .. } => collect_numbers(value, out),
        Expr::Output { expr } => collect_numbers(expr, out),
        Expr::Call { func, args } => {
            collect_numbers(func, out);
            args.iter().for_each(|a| collect_numbers(a, out));
        }
        Expr::Access { expr, index } => {
            collect_numbers(expr, out);
            collect_numbers(index, out);
        }
        Expr::DotAccess { expr, .. } => collect_numbers(expr, out),
        Expr::BinaryOp { left, right, .. } => {
            collect_numbers(left, out);
            collect_numbers(right, out);
        }
        Expr::UnaryOp { expr, .. } => collect_numbers(expr, out),
        Expr::PostfixOp { expr, .. } => collect_numbers(expr, out),
        Expr::Spread(x) => collect_numbers(x, out),
        _ => {}
    }
}

/// The parsed program as a Coq term of type `list stmt` (coq/Formatter.v):
///   St (SExpr e | SOut e | SComment c) (eol : option string) start_line end_line
/// followed by " ## " and the table of the number literals' source text.
fn fmtcase_line(line: &str) -> String {
    let src = match text_of(line) {
        Some(s) => s,
        None => return "BADUTF8".into(),
    };
    let pairs = match get_pairs(&src) {
        Ok(p) => p,
        Err(_) => return "REJECT".into(),
    };
    let mut stmts: Vec<String> = Vec::new();
    let mut nums: Vec<(String, String)> = Vec::new();
    for pair in pairs {
        if pair.as_rule() != Rule::statement {
            continue;
        }
        let sl = pair.as_span().start_pos().line_col().0;
        let el = pair.as_span().end_pos().line_col().0;
        let mut inner = pair.into_inner();
        if let Some(first) = inner.next() {
            let eol = match inner.next() {
                Some(p) if p.as_rule() == Rule::comment => format!("(Some (hx \"{}\"))", hex(p.as_str().as_bytes())),
                _ => "None".to_string(),
            };
            let kind = match first.as_rule() {
                Rule::comment => format!("(SComment (hx \"{}\"))", hex(first.as_str().as_bytes())),
                Rule::output_declaration => match pairs_to_expr_with_comments(first.into_inner()) {
                    Ok(e) => {
                        collect_numbers(&e, &mut nums);
                        format!("(SOut {})", coq_expr(&e))
                    }
                    Err(_) => return "GLUEERR".into(),
                },
                _ => match pairs_to_expr_with_comments(first.into_inner()) {
                    Ok(e) => {
                        collect_numbers(&e, &mut nums);
                        format!("(SExpr {})", coq_expr(&e))
                    }
                    Err(_) => return "GLUEERR".into(),
                },
            };
            stmts.push(format!("(St {} {} {} {})", kind, eol, sl, el));
        }
    }
    let table: Vec<String> =
        nums.iter().map(|(b, t)| format!("(0x{}, hx \"{}\")", b, hex(t.as_bytes()))).collect();
    format!("[{}] ## [{}]", stmts.join("; "), table.join("; "))
}

/// start/end line of every non-empty `statement` pair, as format_blots reads them
fn stmtpos_line(line: &str) -> String {
    let src = match text_of(line) {
        Some(s) => s,
        None => return "BADUTF8".into(),
    };
    let pairs = match get_pairs(&src) {
        Ok(p) => p,
        Err(_) => return "REJECT".into(),
    };
    let mut out: Vec<String> = Vec::new();
    for pair in pairs {
        if pair.as_rule() != Rule::statement {
            continue;
        }
        let sl = pair.as_span().start_pos().line_col().0;
        let el = pair.as_span().end_pos().line_col().0;
        if pair.into_inner().next().is_some() {
            out.push(format!("{}:{}", sl, el));
        }
    }
    format!("POS {}", out.join(","))
}

/// ATTACH stream: the inner pairs of a bare list / record / do-block statement as the grammar
/// yields them, and the comment attachment pairs_to_expr_with_comments computes from them.
///   pairs:  C:<hex comment> | I:<k>:<hex eol|->            (list_item / record_item k)
///           S:<k>:<hex trailing|-> | X:<hex> (do_statement that is a comment) | T (return)
///   items:  <hex lead>.<hex lead>...:<k>:<hex trailing|->  joined by ";"  (do-block: statements, then "|" and
///           the return expression's item)
fn cpairs_line(line: &str) -> String {
    use blots_core::ast::Commented;
    let src = match text_of(line) {
        Some(s) => s,
        None => return "BADUTF8".into(),
    };
    let pairs = match get_pairs(&src) {
        Ok(p) => p,
        Err(_) => return "REJECT".into(),
    };
    let stmt = match pairs.into_iter().find(|p| p.as_rule() == Rule::statement && p.clone().into_inner().next().is_some()) {
        Some(s) => s,
        None => return "EMPTY".into(),
    };
    let first = stmt.into_inner().next().unwrap();
    if first.as_rule() != Rule::expression {
        return "NOTBARE".into();
    }
    let mut inner = first.clone().into_inner();
    let prim = match inner.next() {
        Some(p) => p,
        None => return "NOTBARE".into(),
    };
    if inner.next().is_some() {
        return "NOTBARE".into();
    }
    let ast = match pairs_to_expr_with_comments(first.into_inner()) {
        Ok(e) => e,
        Err(_) => return "GLUEERR".into(),
    };
    let h = |s: &str| hex(s.as_bytes());
    let opt = |o: Option<String>| o.map(|s| hex(s.as_bytes())).unwrap_or_else(|| "-".to_string());
    fn item<T>(k: usize, c: &Commented<T>) -> String {
        format!(
            "{}:{}:{}",
            c.leading.iter().map(|s| hex(s.as_bytes())).collect::<Vec<_>>().join("."),
            k,
            c.trailing.as_ref().map(|s| hex(s.as_bytes())).unwrap_or_else(|| "-".to_string())
        )
    }
    let mut out: Vec<String> = Vec::new();
    let mut k = 0usize;
    match prim.as_rule() {
        Rule::list | Rule::record => {
            let tag = if prim.as_rule() == Rule::list { "L" } else { "R" };
            for p in prim.into_inner() {
                match p.as_rule() {
                    Rule::comment => out.push(format!("C:{}", h(p.as_str()))),
                    Rule::list_item | Rule::record_item => {
                        let eol = p.into_inner().nth(1).map(|e| e.as_str().to_string());
                        out.push(format!("I:{}:{}", k, opt(eol)));
                        k += 1;
                    }
                    _ => out.push("?".into()),
                }
            }
            let items: Vec<String> = match &ast.node {
                Expr::List(items) => items.iter().enumerate().map(|(i, c)| item(i, c)).collect(),
                Expr::Record(entries) => entries.iter().enumerate().map(|(i, c)| item(i, c)).collect(),
                _ => return "NOTBARE".into(),
            };
            format!("{} {} ## {}", tag, out.join(","), items.join(";"))
        }
        Rule::do_block => {
            for p in prim.into_inner() {
                match p.as_rule() {
                    Rule::comment => out.push(format!("C:{}", h(p.as_str()))),
                    Rule::do_statement => {
                        let mut di = p.into_inner();
                        match di.next() {
                            Some(f) if f.as_rule() == Rule::expression => {
                                let tr = di.next().filter(|q| q.as_rule() == Rule::comment).map(|q| q.as_str().to_string());
                                out.push(format!("S:{}:{}", k, opt(tr)));
                                k += 1;
                            }
                            Some(f) => out.push(format!("X:{}", h(f.as_str()))),
                            None => {}
                        }
                    }
                    Rule::return_statement => out.push("T".into()),
                    _ => out.push("?".into()),
                }
            }
            match &ast.node {
                Expr::DoBlock { statements, return_expr } => {
                    let items: Vec<String> = statements.iter().enumerate().map(|(i, c)| item(i, c)).collect();
                    format!("D {} ## {}|{}", out.join(","), items.join(";"), item(statements.len(), return_expr))
                }
                _ => "NOTBARE".into(),
            }
        }
        _ => "NOTBARE".into(),
    }
}

// ------------------------------------------------------------------ needs_parens_in_binop table
const ALL_OPS: [BinaryOp; 26] = [
    BinaryOp::Add,
    BinaryOp::Subtract,
    BinaryOp::Multiply,
    BinaryOp::Divide,
    BinaryOp::Modulo,
    BinaryOp::Power,
    BinaryOp::Equal,
    BinaryOp::NotEqual,
    BinaryOp::Less,
    BinaryOp::LessEq,
    BinaryOp::Greater,
    BinaryOp::GreaterEq,
    BinaryOp::DotEqual,
    BinaryOp::DotNotEqual,
    BinaryOp::DotLess,
    BinaryOp::DotLessEq,
    BinaryOp::DotGreater,
    BinaryOp::DotGreaterEq,
    BinaryOp::And,
    BinaryOp::NaturalAnd,
    BinaryOp::Or,
    BinaryOp::NaturalOr,
    BinaryOp::Via,
    BinaryOp::Into,
    BinaryOp::Where,
    BinaryOp::Coalesce,
];

/// operator_info for every binary operator, in the order of coq/Formatter.v::binop_index:
/// name TAB precedence TAB L|R
fn dump_opinfo() -> String {
    use blots_core::precedence::{operator_info, Assoc};
    let mut s = String::new();
    for p in ALL_OPS.iter() {
        let (prec, assoc) = operator_info(p);
        s.push_str(&format!("{}\t{}\t{}\n", binop_name(p), prec, if assoc == Assoc::Right { "R" } else { "L" }));
    }
    s
}

/// Representative children of every non-binary constructor, in the order of coq/Ast.v::expr
/// (ENum EStr EBool ENull EId EInRef EBuiltin EList ERec ELam ECond EDo EAssign EOutput ECall
///  EAccess EDot | EUn Negate, EUn Not, EUn Invert | EFact ESpread).
fn other_children() -> Vec<SpannedExpr> {
    use blots_core::ast::{Commented, PostfixOp, UnaryOp};
    use blots_core::functions::BuiltInFunction;
    use blots_core::values::LambdaArg;
    let d = |e: Expr| Spanned::dummy(e);
    let a = || Box::new(Spanned::dummy(Expr::Identifier("a".to_string())));
    vec![
        d(Expr::Number(1.0)),
        d(Expr::String("s".to_string())),
        d(Expr::Bool(true)),
        d(Expr::Null),
        d(Expr::Identifier("a".to_string())),
        d(Expr::InputReference("a".to_string())),
        d(Expr::BuiltIn(BuiltInFunction::all()[0])),
        d(Expr::List(vec![])),
        d(Expr::Record(vec![])),
        d(Expr::Lambda { args: vec![LambdaArg::Required("x".to_string())], body: a() }),
        d(Expr::Conditional { condition: a(), then_expr: a(), else_expr: a() }),
        d(Expr::DoBlock { statements: vec![], return_expr: Box::new(Commented::new(*a())) }),
        d(Expr::Assignment { ident: "x".to_string(), value: a() }),
        d(Expr::Output { expr: a() }),
        d(Expr::Call { func: a(), args: vec![] }),
        d(Expr::Access { expr: a(), index: a() }),
        d(Expr::DotAccess { expr: a(), field: "f".to_string() }),
        d(Expr::UnaryOp { op: UnaryOp::Negate, expr: a() }),
        d(Expr::UnaryOp { op: UnaryOp::Not, expr: a() }),
        d(Expr::UnaryOp { op: UnaryOp::Invert, expr: a() }),
        d(Expr::PostfixOp { op: PostfixOp::Factorial, expr: a() }),
        d(Expr::Spread(a())),
    ]
}

/// One line per parent operator: name TAB 26 chars (binary child on the left, by child operator)
/// TAB 26 chars (on the right) TAB 22 chars (other child kinds, left) TAB 22 chars (right).
fn dump_parens() -> String {
    let leaf = || Spanned::dummy(Expr::Identifier("a".to_string()));
    let bit = |b: bool| if b { '1' } else { '0' };
    let mut s = String::new();
    for p in ALL_OPS.iter() {
        let mut l = String::new();
        let mut r = String::new();
        for c in ALL_OPS.iter() {
            let child = Spanned::dummy(Expr::BinaryOp { op: *c, left: Box::new(leaf()), right: Box::new(leaf()) });
            l.push(bit(needs_parens_in_binop(p, &child, true)));
            r.push(bit(needs_parens_in_binop(p, &child, false)));
        }
        let mut ol = String::new();
        let mut or = String::new();
        for c in other_children().iter() {
            ol.push(bit(needs_parens_in_binop(p, c, true)));
            or.push(bit(needs_parens_in_binop(p, c, false)));
        }
        s.push_str(&format!("{}\t{}\t{}\t{}\t{}\n", binop_name(p), l, r, ol, or));
    }
    s
}
