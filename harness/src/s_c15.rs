// C15 — BUILTIN stream: one built-in applied to a serialised argument tuple.
//   input line :  <name> TAB <mode> TAB <args>
//       name   a built-in identifier (min max avg sum prod median percentile any all dot ...)
//       mode   raw      -> BuiltInFunction::call(args, ..)            (no arity check; what bi_<name> models)
//              checked  -> FunctionDef::BuiltIn(b).call(this, args, ..) (arity check + depth check first)
//       args   the argument vector in the canonical value text of show.rs, as a list: L[v1,v2,...]
//              (N<16 hex> T F U S<hex>; L[..] R{<hex>:v,..} B<name>;)
//   output line:  OK:<canonical value> | ERR | ERRDEPTH | BADINPUT      (a panic is printed by main.rs)
use crate::show::{show_value, unhex};
use crate::streams::classify_err;
use blots_core::environment::Environment;
use blots_core::functions::{BuiltInFunction, FunctionDef};
use blots_core::heap::Heap;
use blots_core::values::Value;
use indexmap::IndexMap;
use std::cell::RefCell;
use std::rc::Rc;

pub fn oneshot(_sub: &str, _rest: &[String]) -> Option<String> {
    None
}

pub fn dispatch(sub: &str, _rest: &[String], line: &str) -> Option<String> {
    match sub {
        "c15-builtin" => Some(builtin_line(line)),
        _ => None,
    }
}

struct P<'a> {
    s: &'a [u8],
    i: usize,
}

impl<'a> P<'a> {
    fn peek(&self) -> Option<u8> {
        self.s.get(self.i).copied()
    }
    fn eat(&mut self, c: u8) -> bool {
        if self.peek() == Some(c) {
            self.i += 1;
            true
        } else {
            false
        }
    }
    fn until(&mut self, stop: &[u8]) -> Option<String> {
        let st = self.i;
        while let Some(c) = self.peek() {
            if stop.contains(&c) {
                return Some(String::from_utf8_lossy(&self.s[st..self.i]).to_string());
            }
            self.i += 1;
        }
        None
    }
    fn value(&mut self, heap: &mut Heap) -> Option<Value> {
        let c = self.peek()?;
        self.i += 1;
        match c {
            b'N' => {
                if self.i + 16 > self.s.len() {
                    return None;
                }
                let h = std::str::from_utf8(&self.s[self.i..self.i + 16]).ok()?;
                self.i += 16;
                let bits = u64::from_str_radix(h, 16).ok()?;
                Some(Value::Number(f64::from_bits(bits)))
            }
            b'T' => Some(Value::Bool(true)),
            b'F' => Some(Value::Bool(false)),
            b'U' => Some(Value::Null),
            b'S' => {
                let h = self.until(b";")?;
                self.i += 1;
                let s = String::from_utf8(unhex(&h)).ok()?;
                Some(heap.insert_string(s))
            }
            b'B' => {
                let n = self.until(b";")?;
                self.i += 1;
                Some(Value::BuiltIn(BuiltInFunction::from_ident(&n)?))
            }
            b'L' => {
                if !self.eat(b'[') {
                    return None;
                }
                let mut items = Vec::new();
                if !self.eat(b']') {
                    loop {
                        items.push(self.value(heap)?);
                        if self.eat(b']') {
                            break;
                        }
                        if !self.eat(b',') {
                            return None;
                        }
                    }
                }
                Some(heap.insert_list(items))
            }
            b'R' => {
                if !self.eat(b'{') {
                    return None;
                }
                let mut m: IndexMap<String, Value> = IndexMap::new();
                if !self.eat(b'}') {
                    loop {
                        let k = self.until(b":")?;
                        self.i += 1;
                        let key = String::from_utf8(unhex(&k)).ok()?;
                        let v = self.value(heap)?;
                        m.insert(key, v);
                        if self.eat(b'}') {
                            break;
                        }
                        if !self.eat(b',') {
                            return None;
                        }
                    }
                }
                Some(heap.insert_record(m))
            }
            _ => None,
        }
    }
}

fn builtin_line(line: &str) -> String {
    let mut parts = line.split('\t');
    let name = parts.next().unwrap_or("");
    let mode = parts.next().unwrap_or("");
    let argtext = parts.next().unwrap_or("");
    let b = match BuiltInFunction::from_ident(name) {
        Some(b) => b,
        None => return "BADINPUT".into(),
    };
    let heap = Rc::new(RefCell::new(Heap::new()));
    let args: Vec<Value> = {
        let mut p = P { s: argtext.as_bytes(), i: 0 };
        let v = match p.value(&mut heap.borrow_mut()) {
            Some(v) if p.i == argtext.len() => v,
            _ => return "BADINPUT".into(),
        };
        let h = heap.borrow();
        match v.as_list(&h) {
            Ok(l) => l.clone(),
            Err(_) => return "BADINPUT".into(),
        }
    };
    let bindings = Rc::new(Environment::new());
    let r = match mode {
        "raw" => b.call(args, Rc::clone(&heap), bindings, 0, ""),
        "checked" => FunctionDef::BuiltIn(b).call(Value::BuiltIn(b), args, Rc::clone(&heap), bindings, 0, ""),
        _ => return "BADINPUT".into(),
    };
    match r {
        Ok(v) => format!("OK:{}", show_value(&v, &heap.borrow(), false)),
        Err(e) => classify_err(&e.to_string()).to_string(),
    }
}
