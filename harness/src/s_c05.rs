// EMIT stream (C05): a program whose last statement evaluates to a function value ->
//   the function as a model term (parameters, body AST, captured scope with nested closures),
//   its __blots_function text (to_serializable_value + to_json, as the CLI writes it),
//   the AST the real parser returns for that text,
//   the function reloaded in a FRESH heap/session through JSON text as an input (from_json +
//   to_value) and the AST of ITS body, the text emitted again from the reloaded function,
//   and, for every argument tuple, the result of the original, of the reloaded and of the
//   re-emitted-and-reloaded function.
//
//   emit     line: hex(program) [TAB hex(args source)]...
//   output : fields joined by " | ":
//     VAL <coq store> <coq value> | PORT 0/1 | SRC <hex> | AST1 <coq expr>/REJECT
//     | AST2 <coq expr>/NOFUN | SRC2 <hex>/- | SRC3 <hex>/- | R <orig>/<reloaded>/<re-reloaded>/<third re-emission> ...
//   or  ERRPROG <why>
//
//   lit      line: hex(expression source)  -> value as model term | source text of the value
//            when captured (x => v__) | AST of that text | value of evaluating that text
use crate::show::*;
use crate::streams::{classify_err, Session};
use blots_core::expressions::{evaluate_pairs, pairs_to_expr, validate_portable_value};
use blots_core::heap::{Heap, HeapPointer, HeapValue};
use blots_core::parser::{get_pairs, Rule};
use blots_core::values::{LambdaArg, Value};
use std::rc::Rc;

pub fn oneshot(_sub: &str, _rest: &[String]) -> Option<String> {
    None
}

pub fn dispatch(sub: &str, _rest: &[String], line: &str) -> Option<String> {
    match sub {
        "emit" => Some(emit_line(line)),
        _ => None,
    }
}

fn text_of(h: &str) -> Option<String> {
    String::from_utf8(unhex(h)).ok()
}

fn cs(s: &str) -> String {
    format!("(hx \"{}\")", hex(s.as_bytes()))
}

fn coq_arg(a: &LambdaArg) -> String {
    match a {
        LambdaArg::Required(n) => format!("(AReq {})", cs(n)),
        LambdaArg::Optional(n) => format!("(AOpt {})", cs(n)),
        LambdaArg::Rest(n) => format!("(ARest {})", cs(n)),
    }
}

/// value as a Gallina term; lambda cells are numbered in traversal order and their display
/// names collected in `store`
fn coq_value(v: &Value, heap: &Heap, store: &mut Vec<Option<String>>) -> String {
    match v {
        Value::Number(x) => format!("(VNum (nb 0x{}))", num_bits(*x)),
        Value::Bool(b) => format!("(VBool {})", if *b { "true" } else { "false" }),
        Value::Null => "VNull".into(),
        Value::String(p) => match p.reify(heap).as_string() {
            Ok(s) => format!("(VStr {})", cs(s)),
            Err(_) => "VNull".into(),
        },
        Value::List(p) => match p.reify(heap).as_list() {
            Ok(l) => format!(
                "(VList [{}])",
                l.iter().map(|x| coq_value(x, heap, store)).collect::<Vec<_>>().join("; ")
            ),
            Err(_) => "VNull".into(),
        },
        Value::Record(p) => match p.reify(heap).as_record() {
            Ok(r) => format!(
                "(VRec [{}])",
                r.iter()
                    .map(|(k, x)| format!("({}, {})", cs(k), coq_value(x, heap, store)))
                    .collect::<Vec<_>>()
                    .join("; ")
            ),
            Err(_) => "VNull".into(),
        },
        Value::Lambda(p) => match heap.get(p.index()) {
            Some(HeapValue::Lambda(d)) => {
                let id = store.len();
                store.push(d.name.clone());
                let mut items: Vec<(&String, &Value)> = d.scope.iter().collect();
                items.sort_by(|a, b| a.0.as_bytes().cmp(b.0.as_bytes()));
                let sc: Vec<String> = items
                    .iter()
                    .map(|(k, x)| format!("({}, {})", cs(k), coq_value(x, heap, store)))
                    .collect();
                format!(
                    "(VLam {}%nat [{}] {} [{}])",
                    id,
                    d.args.iter().map(coq_arg).collect::<Vec<_>>().join("; "),
                    coq_expr(&d.body),
                    sc.join("; ")
                )
            }
            _ => "VNull".into(),
        },
        Value::BuiltIn(b) => format!("(VBuiltin {})", builtin_ctor(b.name())),
        Value::Spread(_) => "(VSpread VNull)".into(),
    }
}

fn coq_store(store: &[Option<String>]) -> String {
    format!(
        "[{}]",
        store
            .iter()
            .map(|n| match n {
                Some(s) => format!("Some {}", cs(s)),
                None => "None".into(),
            })
            .collect::<Vec<_>>()
            .join("; ")
    )
}

/// evaluate every statement of `src` in the session; value of the last expression statement
fn run_all(sess: &Session, src: &str) -> Result<Value, String> {
    let pairs = get_pairs(src).map_err(|_| "REJECT".to_string())?;
    let mut last: Option<Value> = None;
    for pair in pairs {
        if pair.as_rule() != Rule::statement {
            continue;
        }
        let inner = match pair.into_inner().next() {
            Some(p) => p,
            None => continue,
        };
        match inner.as_rule() {
            Rule::expression | Rule::output_declaration => {
                let r = evaluate_pairs(inner.into_inner(), Rc::clone(&sess.heap), Rc::clone(&sess.bindings), 0, src);
                match r {
                    Ok(v) => last = Some(v),
                    Err(e) => return Err(classify_err(&e.to_string()).to_string()),
                }
            }
            _ => {}
        }
    }
    last.ok_or_else(|| "EMPTY".to_string())
}

fn eval_expr_text(sess: &Session, src: &str) -> String {
    match run_all(sess, src) {
        Ok(v) => format!("OK:{}", show_value(&v, &sess.heap.borrow(), false)),
        Err(e) => e,
    }
}

/// the __blots_function text of a function value, exactly as the CLI writes it
fn function_source(v: &Value, heap: &Heap) -> Option<String> {
    let ser = v.to_serializable_value(heap).ok()?;
    let js = ser.to_json();
    js.get("__blots_function").and_then(|s| s.as_str()).map(|s| s.to_string())
}

/// parse a __blots_function text the way parse_function_source does; the lambda as a model term
fn parse_emitted(src: &str) -> String {
    let pairs = match get_pairs(src) {
        Ok(p) => p,
        Err(_) => return "REJECT".into(),
    };
    for pair in pairs {
        if pair.as_rule() == Rule::statement {
            if let Some(inner) = pair.into_inner().next() {
                if inner.as_rule() == Rule::expression {
                    return match pairs_to_expr(inner.into_inner()) {
                        Ok(e) => coq_expr(&e),
                        Err(_) => "REJECT".into(),
                    };
                }
            }
        }
    }
    "REJECT".into()
}

/// a fresh session whose only input is the function object, passed through JSON text
fn fresh_with_function(src: &str) -> Option<Session> {
    let mut m = serde_json::Map::new();
    let mut f = serde_json::Map::new();
    f.insert("__blots_function".to_string(), serde_json::Value::String(src.to_string()));
    m.insert("f".to_string(), serde_json::Value::Object(f));
    let text = serde_json::to_string(&serde_json::Value::Object(m)).ok()?;
    Session::new(Some(&text)).ok()
}

fn input_f(sess: &Session) -> Option<Value> {
    let inputs = sess.bindings.get("inputs")?;
    if let Value::Record(p) = inputs {
        let heap = sess.heap.borrow();
        let rec = p.reify(&heap).as_record().ok()?;
        return rec.get("f").copied();
    }
    None
}

fn lambda_ast(v: &Value, heap: &Heap) -> String {
    if let Value::Lambda(p) = v {
        if let Some(HeapValue::Lambda(d)) = heap.get(p.index()) {
            return format!(
                "(ELam [{}] {})",
                d.args.iter().map(coq_arg).collect::<Vec<_>>().join("; "),
                coq_expr(&d.body)
            );
        }
    }
    "NOFUN".into()
}

fn emit_line(line: &str) -> String {
    let mut parts = line.split('\t');
    let prog = match parts.next().and_then(text_of) {
        Some(s) => s,
        None => return "ERRPROG BADUTF8".into(),
    };
    let argsrcs: Vec<String> = parts.filter_map(text_of).collect();
    // optional first line `//#inputs <json object>`: the session's inputs record (default: empty)
    let (inputs_json, prog) = match prog.strip_prefix("//#inputs ") {
        Some(rest) => match rest.split_once('\n') {
            Some((j, p)) => (Some(j.to_string()), p.to_string()),
            None => (Some(rest.to_string()), String::new()),
        },
        None => (None, prog),
    };
    let sess = match Session::new(inputs_json.as_deref()) {
        Ok(s) => s,
        Err(_) => return "ERRPROG SESSION".into(),
    };
    let fv = match run_all(&sess, &prog) {
        Ok(v) => v,
        Err(e) => return format!("ERRPROG {}", e),
    };
    if !fv.is_lambda() {
        return "ERRPROG NOTLAMBDA".into();
    }
    let mut out: Vec<String> = Vec::new();
    let mut store: Vec<Option<String>> = Vec::new();
    let term = coq_value(&fv, &sess.heap.borrow(), &mut store);
    out.push(format!("VAL {} {}", coq_store(&store), term));
    if inputs_json.is_some()
        && let Some(iv) = sess.bindings.get("inputs")
    {
        let mut st0: Vec<Option<String>> = Vec::new();
        out.push(format!("INP {}", coq_value(&iv, &sess.heap.borrow(), &mut st0)));
    }
    let portable = validate_portable_value(&fv, &sess.heap.borrow(), &sess.bindings).is_ok();
    out.push(format!("PORT {}", if portable { 1 } else { 0 }));
    let src1 = match function_source(&fv, &sess.heap.borrow()) {
        Some(s) => s,
        None => {
            out.push("SRC -".into());
            return out.join(" | ");
        }
    };
    out.push(format!("SRC {}", hex(src1.as_bytes())));
    out.push(format!("AST1 {}", parse_emitted(&src1)));
    // reload in a fresh session
    let sess2 = fresh_with_function(&src1);
    let f2 = sess2.as_ref().and_then(input_f);
    let (ast2, src2) = match (&sess2, &f2) {
        (Some(s2), Some(v2)) => (lambda_ast(v2, &s2.heap.borrow()), function_source(v2, &s2.heap.borrow())),
        _ => ("NOFUN".to_string(), None),
    };
    out.push(format!("AST2 {}", ast2));
    out.push(format!("SRC2 {}", src2.as_ref().map(|s| hex(s.as_bytes())).unwrap_or_else(|| "-".into())));
    // third generation: emitted again from the reloaded function, reloaded again
    let sess3 = src2.as_ref().and_then(|s| fresh_with_function(s));
    // fourth generation (re-emission chain of length 3): emitted from the third, reloaded again
    let src3 = sess3.as_ref().and_then(|s3| input_f(s3).and_then(|v3| function_source(&v3, &s3.heap.borrow())));
    let sess4 = src3.as_ref().and_then(|s| fresh_with_function(s));
    out.push(format!("SRC3 {}", src3.as_ref().map(|s| hex(s.as_bytes())).unwrap_or_else(|| "-".into())));
    // the original is called through a fresh root name bound directly (no renaming of the cell)
    sess.bindings.insert("f__".to_string(), fv);
    for a in &argsrcs {
        let r1 = eval_expr_text(&sess, &format!("f__({})", a));
        let r2 = match &sess2 {
            Some(s2) => eval_expr_text(s2, &format!("inputs.f({})", a)),
            None => "NOSESSION".into(),
        };
        let r3 = match &sess3 {
            Some(s3) => eval_expr_text(s3, &format!("inputs.f({})", a)),
            None => "NOSESSION".into(),
        };
        let r4 = match &sess4 {
            Some(s4) => eval_expr_text(s4, &format!("inputs.f({})", a)),
            None => "NOSESSION".into(),
        };
        out.push(format!("R {}/{}/{}/{}", r1, r2, r3, r4));
    }
    out.join(" | ")
}
