// C06 streams: the JSON boundary (SerializableValue::{from_value,to_json,from_json,to_value}).
// Inputs are value / JSON-document trees in the canonical text of coq/Show.v::show_value and
// coq/Json.v::show_json; outputs are the same canonical texts, so that the Gallina model and
// this file print identical lines.
use crate::show::{hex, num_bits, show_args, show_value, unhex};
use blots_core::heap::Heap;
use blots_core::values::{SerializableValue, Value};
use indexmap::IndexMap;

pub fn oneshot(sub: &str, _rest: &[String]) -> Option<String> {
    match sub {
        "c06-features" => Some(features()),
        _ => None,
    }
}

pub fn dispatch(sub: &str, _rest: &[String], line: &str) -> Option<String> {
    match sub {
        "c06-val" => Some(val_line(line)),
        "c06-json" => Some(json_line(line)),
        "c06-fn" => Some(fn_line(line)),
        "c06-body" => Some(body_line(line)),
        "c06-rt" => Some(rt_line(line)),
        "c06-parse" => Some(parse_text_line(line)),
        "c06-print" => Some(print_line(line)),
        "c06-num" => Some(num_line(line)),
        _ => None,
    }
}

/// What the linked serde_json does: iteration order of Map (BTreeMap unless preserve_order),
/// and whether number parsing is correctly rounded on a probe (float_roundtrip).
fn features() -> String {
    let mut m = serde_json::Map::new();
    m.insert("b".to_string(), serde_json::Value::Null);
    m.insert("a".to_string(), serde_json::Value::Null);
    m.insert("B".to_string(), serde_json::Value::Null);
    let order: Vec<String> = m.keys().cloned().collect();
    let kind = if order == ["B", "a", "b"] {
        "sorted"
    } else if order == ["b", "a", "B"] {
        "insertion"
    } else {
        "other"
    };
    // probe tokens on which serde_json's default (non float_roundtrip) algorithm is 1 ulp off
    let probes = ["9007199254740991.0", "9.129787520162203e239", "1.2877086205464669e44"];
    let exact = probes.iter().all(|t| {
        let v: f64 = serde_json::from_str::<serde_json::Value>(t).unwrap().as_f64().unwrap();
        v.to_bits() == t.parse::<f64>().unwrap().to_bits()
    });
    format!("map_order={}\nnumber_parse={}\n", kind, if exact { "exact" } else { "shipped" })
}

// ---------------------------------------------------------------------------
// tree parsers
// ---------------------------------------------------------------------------
struct P<'a> {
    b: &'a [u8],
    i: usize,
}
impl<'a> P<'a> {
    fn peek(&self) -> u8 {
        if self.i < self.b.len() { self.b[self.i] } else { 0 }
    }
    fn next(&mut self) -> u8 {
        let c = self.peek();
        self.i += 1;
        c
    }
    fn take_while_hex(&mut self) -> &'a str {
        let s = self.i;
        while self.i < self.b.len() && self.b[self.i].is_ascii_hexdigit() {
            self.i += 1;
        }
        std::str::from_utf8(&self.b[s..self.i]).unwrap()
    }
    fn hex16(&mut self) -> u64 {
        let s = std::str::from_utf8(&self.b[self.i..self.i + 16]).unwrap();
        self.i += 16;
        u64::from_str_radix(s, 16).unwrap()
    }
    fn string(&mut self) -> String {
        let h = self.take_while_hex();
        String::from_utf8(unhex(h)).expect("generator sends valid UTF-8")
    }
}

fn parse_value(p: &mut P, heap: &mut Heap) -> Value {
    match p.next() {
        b'N' => Value::Number(f64::from_bits(p.hex16())),
        b'T' => Value::Bool(true),
        b'F' => Value::Bool(false),
        b'U' => Value::Null,
        b'S' => {
            let s = p.string();
            assert_eq!(p.next(), b';');
            heap.insert_string(s)
        }
        b'L' => {
            assert_eq!(p.next(), b'[');
            let mut items = Vec::new();
            if p.peek() == b']' {
                p.next();
            } else {
                loop {
                    items.push(parse_value(p, heap));
                    match p.next() {
                        b',' => continue,
                        b']' => break,
                        c => panic!("bad list separator {}", c),
                    }
                }
            }
            heap.insert_list(items)
        }
        b'R' => {
            assert_eq!(p.next(), b'{');
            let mut m: IndexMap<String, Value> = IndexMap::new();
            if p.peek() == b'}' {
                p.next();
            } else {
                loop {
                    let k = p.string();
                    assert_eq!(p.next(), b':');
                    let v = parse_value(p, heap);
                    m.insert(k, v);
                    match p.next() {
                        b',' => continue,
                        b'}' => break,
                        c => panic!("bad record separator {}", c),
                    }
                }
            }
            heap.insert_record(m)
        }
        c => panic!("bad value tag {}", c),
    }
}

/// A JSON document tree -> serde_json::Value, built the way serde_json's own deserializer
/// builds it (visit_seq pushes, visit_map inserts member after member).
fn parse_json(p: &mut P) -> serde_json::Value {
    match p.next() {
        b'z' => serde_json::Value::Null,
        b't' => serde_json::Value::Bool(true),
        b'f' => serde_json::Value::Bool(false),
        b'u' => serde_json::Value::Number(serde_json::Number::from(p.hex16())),
        b'i' => serde_json::Value::Number(serde_json::Number::from(p.hex16() as i64)),
        b'd' => serde_json::Value::Number(
            serde_json::Number::from_f64(f64::from_bits(p.hex16())).expect("finite float"),
        ),
        b's' => {
            let s = p.string();
            assert_eq!(p.next(), b';');
            serde_json::Value::String(s)
        }
        b'a' => {
            assert_eq!(p.next(), b'[');
            let mut items = Vec::new();
            if p.peek() == b']' {
                p.next();
            } else {
                loop {
                    items.push(parse_json(p));
                    match p.next() {
                        b',' => continue,
                        b']' => break,
                        c => panic!("bad array separator {}", c),
                    }
                }
            }
            serde_json::Value::Array(items)
        }
        b'o' => {
            assert_eq!(p.next(), b'{');
            let mut m = serde_json::Map::new();
            if p.peek() == b'}' {
                p.next();
            } else {
                loop {
                    let k = p.string();
                    assert_eq!(p.next(), b':');
                    let v = parse_json(p);
                    m.insert(k, v);
                    match p.next() {
                        b',' => continue,
                        b'}' => break,
                        c => panic!("bad object separator {}", c),
                    }
                }
            }
            serde_json::Value::Object(m)
        }
        c => panic!("bad json tag {}", c),
    }
}

// ---------------------------------------------------------------------------
// printers (twins of coq/Json.v::show_json / show_sv)
// ---------------------------------------------------------------------------
pub fn show_json(j: &serde_json::Value) -> String {
    match j {
        serde_json::Value::Null => "z".into(),
        serde_json::Value::Bool(true) => "t".into(),
        serde_json::Value::Bool(false) => "f".into(),
        serde_json::Value::Number(n) => {
            if let Some(u) = n.as_u64() {
                format!("u{:016x}", u)
            } else if let Some(i) = n.as_i64() {
                format!("i{:016x}", i as u64)
            } else {
                format!("d{}", num_bits(n.as_f64().unwrap()))
            }
        }
        serde_json::Value::String(s) => format!("s{};", hex(s.as_bytes())),
        serde_json::Value::Array(a) => {
            format!("a[{}]", a.iter().map(show_json).collect::<Vec<_>>().join(","))
        }
        serde_json::Value::Object(m) => format!(
            "o{{{}}}",
            m.iter()
                .map(|(k, v)| format!("{}:{}", hex(k.as_bytes()), show_json(v)))
                .collect::<Vec<_>>()
                .join(",")
        ),
    }
}

fn show_sv_map(m: &IndexMap<String, SerializableValue>) -> String {
    m.iter()
        .map(|(k, v)| format!("{}:{}", hex(k.as_bytes()), show_sv(v)))
        .collect::<Vec<_>>()
        .join(",")
}

pub fn show_sv(s: &SerializableValue) -> String {
    match s {
        SerializableValue::Number(x) => format!("N{}", num_bits(*x)),
        SerializableValue::Bool(true) => "T".into(),
        SerializableValue::Bool(false) => "F".into(),
        SerializableValue::Null => "U".into(),
        SerializableValue::String(s) => format!("S{};", hex(s.as_bytes())),
        SerializableValue::List(l) => {
            format!("L[{}]", l.iter().map(show_sv).collect::<Vec<_>>().join(","))
        }
        SerializableValue::Record(m) => format!("R{{{}}}", show_sv_map(m)),
        SerializableValue::Lambda(d) => format!(
            "FN({}){}:{}:{}",
            show_args(&d.args),
            d.name.as_ref().map(|n| hex(n.as_bytes())).unwrap_or_else(|| "-".into()),
            hex(d.body.as_bytes()),
            match &d.scope {
                None => "-".to_string(),
                Some(m) => format!("{{{}}}", show_sv_map(m)),
            }
        ),
        SerializableValue::BuiltIn(n) => format!("B{};", hex(n.as_bytes())),
    }
}

fn show_res_value(r: &anyhow::Result<Value>, heap: &Heap) -> String {
    match r {
        Ok(v) => format!("OK:{}", show_value(v, heap, false)),
        Err(_) => "ERR".into(),
    }
}

// ---------------------------------------------------------------------------
// streams
// ---------------------------------------------------------------------------
/// c06-val: value v -> from_value | to_json | from_json | to_value | equals(v2, v)
fn val_line(line: &str) -> String {
    let mut heap = Heap::new();
    let mut p = P { b: line.as_bytes(), i: 0 };
    let v = parse_value(&mut p, &mut heap);
    let s = match SerializableValue::from_value(&v, &heap) {
        Ok(s) => s,
        Err(_) => return "ERR".into(),
    };
    let j = s.to_json();
    let s2 = SerializableValue::from_json(&j);
    let v2 = s2.to_value(&mut heap);
    let eq = match &v2 {
        Ok(v2) => match v2.equals(&v, &heap) {
            Ok(true) => "T",
            Ok(false) => "F",
            Err(_) => "E",
        },
        Err(_) => "-",
    };
    format!(
        "OK:{}|{}|{}|{}|{}",
        show_sv(&s),
        show_json(&j),
        show_sv(&s2),
        show_res_value(&v2, &heap),
        eq
    )
}

/// c06-json: document d -> built Value | from_json | to_value | from_value | to_json
fn json_line(line: &str) -> String {
    let mut heap = Heap::new();
    let mut p = P { b: line.as_bytes(), i: 0 };
    let j = parse_json(&mut p);
    let s = SerializableValue::from_json(&j);
    let v = s.to_value(&mut heap);
    let tail = match &v {
        Ok(v) => match SerializableValue::from_value(v, &heap) {
            Ok(s2) => format!("OK:{}|{}", show_sv(&s2), show_json(&s2.to_json())),
            Err(_) => "ERR".into(),
        },
        Err(_) => "-".into(),
    };
    format!("{}|{}|{}|{}", show_json(&j), show_sv(&s), show_res_value(&v, &heap), tail)
}

/// c06-fn: hex(string s) -> how from_json reads {"__blots_function": s}:
///   B (built-in) | L <args> <hex body> (lambda) | N (regular record)
fn fn_line(line: &str) -> String {
    let s = match String::from_utf8(unhex(line)) {
        Ok(s) => s,
        Err(_) => return "BADUTF8".into(),
    };
    let mut m = serde_json::Map::new();
    m.insert("__blots_function".to_string(), serde_json::Value::String(s));
    match SerializableValue::from_json(&serde_json::Value::Object(m)) {
        SerializableValue::BuiltIn(_) => "B".into(),
        SerializableValue::Lambda(d) => format!("L {} {}", show_args(&d.args), hex(d.body.as_bytes())),
        SerializableValue::Record(_) => "N".into(),
        _ => "?".into(),
    }
}

/// c06-body: hex(body text) -> does to_value's Lambda arm parse it?  OK | ERR  (a panic in
/// `.next().unwrap()` is reported by main.rs as PANIC)
fn body_line(line: &str) -> String {
    let s = match String::from_utf8(unhex(line)) {
        Ok(s) => s,
        Err(_) => return "BADUTF8".into(),
    };
    let mut heap = Heap::new();
    let sv = SerializableValue::Lambda(blots_core::values::SerializableLambdaDef {
        name: None,
        args: vec![],
        body: s,
        scope: None,
    });
    match sv.to_value(&mut heap) {
        Ok(_) => "OK".into(),
        Err(_) => "ERR".into(),
    }
}

/// c06-rt (search, in process, THROUGH TEXT exactly as the CLI does it): value v ->
/// outputs {"x": to_json(from_value v)} -> serde_json::to_string -> serde_json::from_str ->
/// parse_json_inputs -> inputs.x ; prints the text, the value read back, and v2.equals(v).
fn rt_line(line: &str) -> String {
    let mut heap = Heap::new();
    let mut p = P { b: line.as_bytes(), i: 0 };
    let v = parse_value(&mut p, &mut heap);
    let s = match SerializableValue::from_value(&v, &heap) {
        Ok(s) => s,
        Err(_) => return "ERR".into(),
    };
    let mut outputs: IndexMap<String, serde_json::Value> = IndexMap::new();
    outputs.insert("x".to_string(), s.to_json());
    let text = match serde_json::to_string(&outputs) {
        Ok(t) => t,
        Err(_) => return "SERERR".into(),
    };
    let back: serde_json::Value = match serde_json::from_str(&text) {
        Ok(b) => b,
        Err(_) => return format!("REPARSEERR|{}", hex(text.as_bytes())),
    };
    let mut inputs: IndexMap<String, Value> = IndexMap::new();
    if let serde_json::Value::Object(obj) = back {
        for (k, jv) in obj.iter() {
            let ser = SerializableValue::from_json(jv);
            if let Ok(val) = ser.to_value(&mut heap) {
                inputs.insert(k.clone(), val);
            }
        }
    }
    match inputs.get("x") {
        Some(v2) => {
            let eq = match v2.equals(&v, &heap) {
                Ok(true) => "T",
                Ok(false) => "F",
                Err(_) => "E",
            };
            format!("OK:{}|{}|{}", show_value(v2, &heap, false), eq, hex(text.as_bytes()))
        }
        None => format!("MISSING|{}", hex(text.as_bytes())),
    }
}

/// c06-parse: hex(JSON text) -> serde_json::from_str -> show_json | ERR
fn parse_text_line(line: &str) -> String {
    let s = match String::from_utf8(unhex(line)) {
        Ok(s) => s,
        Err(_) => return "BADUTF8".into(),
    };
    match serde_json::from_str::<serde_json::Value>(&s) {
        Ok(v) => format!("OK:{}", show_json(&v)),
        Err(_) => "ERR".into(),
    }
}

/// c06-print: document tree -> serde_json::to_string(Value) as hex
fn print_line(line: &str) -> String {
    let mut p = P { b: line.as_bytes(), i: 0 };
    let j = parse_json(&mut p);
    match serde_json::to_string(&j) {
        Ok(t) => hex(t.as_bytes()),
        Err(_) => "SERERR".into(),
    }
}

/// c06-num: 16 hex digits of a finite double -> serde_json's text for it (hex) and the bits
/// serde_json reads back from that text
fn num_line(line: &str) -> String {
    let bits = u64::from_str_radix(line.trim(), 16).unwrap();
    let x = f64::from_bits(bits);
    let n = match serde_json::Number::from_f64(x) {
        Some(n) => n,
        None => return "NONFINITE".into(),
    };
    let text = serde_json::to_string(&serde_json::Value::Number(n)).unwrap();
    let back: serde_json::Value = match serde_json::from_str(&text) {
        Ok(b) => b,
        Err(_) => return format!("{} ERR", hex(text.as_bytes())),
    };
    format!("{} {}", hex(text.as_bytes()), show_json(&back))
}
