// C16 streams: numbers through every textual path of the real implementation.
//   c16-num      16 hex digits (f64 bits)  -> every path's text and what the implementation reads back
//   c16-lit      hex(source text)          -> REJECT | LITERR | ERR | <bits> | OTHER   (real parser + evaluator)
//   c16-tonum    hex(string)               -> <bits> | ERR          (to_number built-in through a program)
//   c16-json     hex(JSON number text)     -> <bits> | ERR          (serde_json::from_str + from_json)
//   c16-parsef64 hex(text)                 -> <bits> | ERR          (Rust str::parse::<f64>, library contract test)
//   c16-jsonlist hex(JSON array of numbers)-> bits,bits,...          (same path, many numbers per call)
//   c16-astlit   hex(source of one expression: container literal of number literals) -> value of the source, of
//                expr_to_source(AST) and of format_expr(AST, w) at several widths (numbers inside containers
//                through source emission / the formatter)
//   c16-capt     bits,.. hex(setup) hex(probes) -> numbers inside CAPTURED CONTAINERS through function-source
//                emission (JSON function output, re-emission of the reloaded function, to_string(f)) and back
use crate::show::{hex, num_bits, unhex};
use crate::streams::{run_program, Session};
use blots_core::ast::{Expr, Spanned};
use blots_core::ast_to_source::expr_to_source;
use blots_core::expressions::{evaluate_pairs, pairs_to_expr};
use blots_core::formatter::format_expr;
use blots_core::parser::{get_pairs, Rule};
use blots_core::values::{SerializableValue, Value};
use std::rc::Rc;

pub fn oneshot(_sub: &str, _rest: &[String]) -> Option<String> {
    None
}

pub fn dispatch(sub: &str, _rest: &[String], line: &str) -> Option<String> {
    match sub {
        "c16-num" => Some(num_line(line)),
        "c16-lit" => Some(lit_line(line)),
        "c16-tonum" => Some(tonum_line(line)),
        "c16-json" => Some(json_line(line)),
        "c16-jsonlist" => Some(jsonlist_line(line)),
        "c16-parsef64" => Some(parsef64_line(line)),
        "c16-capt" => Some(capt_line(line)),
        "c16-astlit" => Some(astlit_line(line)),
        _ => None,
    }
}

fn text_of(h: &str) -> Option<String> {
    String::from_utf8(unhex(h)).ok()
}

fn value_bits(v: &Value) -> String {
    match v {
        Value::Number(x) => num_bits(*x),
        _ => "OTHER".into(),
    }
}

/// Parse `src` with the real grammar, convert with pairs_to_expr, evaluate with evaluate_pairs.
fn read_source(src: &str) -> String {
    let pairs = match get_pairs(src) {
        Ok(p) => p,
        Err(_) => return "REJECT".into(),
    };
    let mut last = "EMPTY".to_string();
    let sess = match Session::new(None) {
        Ok(s) => s,
        Err(_) => return "BADSESSION".into(),
    };
    for pair in pairs {
        if pair.as_rule() != Rule::statement {
            continue;
        }
        let inner = match pair.into_inner().next() {
            Some(p) => p,
            None => continue,
        };
        if inner.as_rule() != Rule::expression {
            return "OTHER".into();
        }
        if pairs_to_expr(inner.clone().into_inner()).is_err() {
            return "LITERR".into();
        }
        match evaluate_pairs(inner.into_inner(), Rc::clone(&sess.heap), Rc::clone(&sess.bindings), 0, src) {
            Ok(v) => last = value_bits(&v),
            Err(_) => return "ERR".into(),
        }
    }
    last
}

fn last_ok(res: &[String]) -> String {
    match res.last() {
        Some(r) if r.starts_with("OK:N") => r[4..].to_string(),
        Some(r) if r.starts_with("OK:") => "OTHER".into(),
        Some(r) => r.clone(),
        None => "EMPTY".into(),
    }
}

fn num_line(line: &str) -> String {
    let bits = match u64::from_str_radix(line.trim(), 16) {
        Ok(b) => b,
        Err(_) => return "BADINPUT".into(),
    };
    let x = f64::from_bits(bits);
    let mut out: Vec<String> = Vec::new();

    // to_string / to_number through the real built-ins
    {
        let mut sess = Session::new(None).unwrap();
        sess.bindings.insert("x".to_string(), Value::Number(x));
        let r = run_program(&mut sess, "s = to_string(x)\nto_number(s)", false);
        let text = match r.first() {
            Some(s) if s.starts_with("OK:S") => s[4..s.len() - 1].to_string(),
            _ => "".to_string(),
        };
        out.push(format!("D={}", text));
        out.push(format!("DN={}", if r.len() == 2 { last_ok(&r) } else { "ERR".into() }));
    }
    // source emission of a Number node, then the real parser + evaluator
    {
        let e = Spanned::dummy(Expr::Number(x));
        let t = expr_to_source(&e);
        out.push(format!("S={}", hex(t.as_bytes())));
        out.push(format!("SR={}", read_source(&t)));
        // formatter at several widths
        let ws: [Option<usize>; 4] = [None, Some(0), Some(1), Some(80)];
        let fs: Vec<String> = ws.iter().map(|w| format_expr(&e, *w)).collect();
        let same = fs.iter().all(|f| *f == fs[0]);
        out.push(format!("F={}", hex(fs[0].as_bytes())));
        out.push(format!("FW={}", if same { "same" } else { "differ" }));
        out.push(format!("FR={}", read_source(&fs[0])));
    }
    // function-source emission with x captured, reload through JSON, call
    {
        let mut sess = Session::new(None).unwrap();
        sess.bindings.insert("x".to_string(), Value::Number(x));
        let r = run_program(&mut sess, "f = y => x", false);
        let mut text = String::new();
        let mut back = "ERR".to_string();
        if r.len() == 1 && r[0].starts_with("OK:FN") {
            if let Some(fv) = sess.bindings.get("f") {
                if let Ok(ser) = fv.to_serializable_value(&sess.heap.borrow()) {
                    let js = ser.to_json();
                    if let Some(src) = js.get("__blots_function").and_then(|s| s.as_str()) {
                        text = src.strip_prefix("(y) => ").unwrap_or("?").to_string();
                        let doc = serde_json::json!({ "g": { "__blots_function": src } }).to_string();
                        if let Ok(mut s2) = Session::new(Some(&doc)) {
                            let r2 = run_program(&mut s2, "inputs.g(0)", false);
                            back = last_ok(&r2);
                        }
                    }
                }
            }
        }
        out.push(format!("E={}", hex(text.as_bytes())));
        out.push(format!("ER={}", back));
    }
    // JSON output text and JSON input
    {
        let js = SerializableValue::Number(x).to_json();
        let t = serde_json::to_string(&js).unwrap_or_default();
        out.push(format!("J={}", hex(t.as_bytes())));
        out.push(format!("JR={}", json_read(&t)));
    }
    // library: `{:.0}` (only meaningful for integral values; the repo calls it on those only)
    out.push(format!("Z={}", hex(format!("{:.0}", x).as_bytes())));
    out.join(" ")
}

fn json_read(t: &str) -> String {
    match serde_json::from_str::<serde_json::Value>(t) {
        Ok(v) => match SerializableValue::from_json(&v) {
            SerializableValue::Number(n) => num_bits(n),
            _ => "OTHER".into(),
        },
        Err(_) => "ERR".into(),
    }
}

fn lit_line(line: &str) -> String {
    match text_of(line) {
        Some(s) => read_source(&s),
        None => "BADUTF8".into(),
    }
}

fn tonum_line(line: &str) -> String {
    let s = match text_of(line) {
        Some(s) => s,
        None => return "BADUTF8".into(),
    };
    let mut sess = Session::new(None).unwrap();
    let sv = sess.heap.borrow_mut().insert_string(s);
    sess.bindings.insert("s".to_string(), sv);
    let r = run_program(&mut sess, "to_number(s)", false);
    last_ok(&r)
}

fn json_line(line: &str) -> String {
    match text_of(line) {
        Some(s) => json_read(&s),
        None => "BADUTF8".into(),
    }
}

fn jsonlist_line(line: &str) -> String {
    let s = match text_of(line) {
        Some(s) => s,
        None => return "BADUTF8".into(),
    };
    match serde_json::from_str::<serde_json::Value>(&s) {
        Ok(v) => match SerializableValue::from_json(&v) {
            SerializableValue::List(items) => items
                .iter()
                .map(|i| match i {
                    SerializableValue::Number(n) => num_bits(*n),
                    _ => "OTHER".into(),
                })
                .collect::<Vec<_>>()
                .join(","),
            _ => "OTHER".into(),
        },
        Err(_) => "ERR".into(),
    }
}

fn parsef64_line(line: &str) -> String {
    match text_of(line) {
        Some(s) => match s.parse::<f64>() {
            Ok(x) => num_bits(x),
            Err(_) => "ERR".into(),
        },
        None => "BADUTF8".into(),
    }
}

/// Results of a probe program (one expression per line, each expected to yield a number): the bits of every
/// probe, comma separated; a probe that fails or yields something else is shown by its outcome class.
fn capt_probe(sess: &mut Session, probes: &[&str]) -> String {
    probes
        .iter()
        .map(|p| {
            let r = run_program(sess, p, false);
            match r.last() {
                Some(x) if r.len() == 1 && x.starts_with("OK:N") => x[4..].to_string(),
                Some(x) if x.starts_with("OK:") => "OTHER".to_string(),
                Some(x) => x.replace([' ', ','], "_"),
                None => "EMPTY".to_string(),
            }
        })
        .collect::<Vec<_>>()
        .join(",")
}

/// Emitted `__blots_function` source of the binding `f` of a session.
fn capt_emit(sess: &Session) -> Option<String> {
    let fv = sess.bindings.get("f")?;
    let ser = fv.to_serializable_value(&sess.heap.borrow()).ok()?;
    let js = ser.to_json();
    js.get("__blots_function").and_then(|s| s.as_str()).map(|s| s.to_string())
}

/// A fresh session whose `f` is the function loaded from an emitted source (JSON function input).
fn capt_reload(src: &str) -> Option<Session> {
    let doc = serde_json::json!({ "f": { "__blots_function": src } }).to_string();
    let mut s = Session::new(Some(&doc)).ok()?;
    let r = run_program(&mut s, "f = inputs.f", false);
    if r.len() == 1 && r[0].starts_with("OK:FN") {
        Some(s)
    } else {
        None
    }
}

/// `bits,bits,... hex(setup program) hex(probe lines)`: the numbers are bound bit-exactly as n0, n1, ...; the
/// setup program builds containers from them and ends by binding the function `f` that captured them; every
/// probe is an expression over `f` that yields one number.
///   O  = probes on the original function
///   E  = emitted source (hex), R = probes on the function reloaded from E (JSON function input)
///   E2 = "same" | hex(source emitted again from the reloaded function), R2 = probes on its reload
///   T  = to_string(f) (hex), TR = probes on `f = <that text>` read by the parser in a fresh session
fn capt_line(line: &str) -> String {
    let parts: Vec<&str> = line.split(' ').collect();
    if parts.len() != 3 {
        return "BADINPUT".into();
    }
    let mut sess = match Session::new(None) {
        Ok(s) => s,
        Err(_) => return "BADSESSION".into(),
    };
    for (i, b) in parts[0].split(',').filter(|b| !b.is_empty()).enumerate() {
        match u64::from_str_radix(b, 16) {
            Ok(bits) => {
                sess.bindings.insert(format!("n{}", i), Value::Number(f64::from_bits(bits)));
            }
            Err(_) => return "BADINPUT".into(),
        }
    }
    let (setup, probes_text) = match (text_of(parts[1]), text_of(parts[2])) {
        (Some(a), Some(b)) => (a, b),
        _ => return "BADUTF8".into(),
    };
    let probes: Vec<&str> = probes_text.split('\n').filter(|p| !p.is_empty()).collect();
    // a setup of the form `<pre>\n#!inputs\n<post>`: after <pre> the session's `inputs` record is replaced by the
    // value bound to `inp` (numbers reach it bit-exactly, not through JSON text), so that <post> can define a
    // function that captured `inputs` (the `#field` / `inputs.field` emission sites)
    let setup = match setup.split_once("#!inputs\n") {
        Some((pre, post)) => {
            let _ = run_program(&mut sess, pre, false);
            match sess.bindings.get("inp") {
                Some(v) => {
                    sess.bindings.insert("inputs".to_string(), v.clone());
                }
                None => return "SETUP=NOINP".into(),
            }
            post.to_string()
        }
        None => setup,
    };
    let rs = run_program(&mut sess, &setup, false);
    if !rs.last().map(|r| r.starts_with("OK:FN")).unwrap_or(false) {
        return format!("SETUP={}", rs.last().cloned().unwrap_or_default().replace(' ', "_"));
    }
    let mut out: Vec<String> = Vec::new();
    out.push(format!("O={}", capt_probe(&mut sess, &probes)));
    match capt_emit(&sess) {
        Some(src) => {
            out.push(format!("E={}", hex(src.as_bytes())));
            match capt_reload(&src) {
                Some(mut s2) => {
                    out.push(format!("R={}", capt_probe(&mut s2, &probes)));
                    match capt_emit(&s2) {
                        Some(src2) => {
                            if src2 == src {
                                out.push("E2=same".into());
                            } else {
                                out.push(format!("E2={}", hex(src2.as_bytes())));
                            }
                            match capt_reload(&src2) {
                                Some(mut s3) => out.push(format!("R2={}", capt_probe(&mut s3, &probes))),
                                None => out.push("R2=NORELOAD".into()),
                            }
                        }
                        None => out.push("E2=NOEMIT R2=NOEMIT".into()),
                    }
                }
                None => out.push("R=NORELOAD E2=- R2=-".into()),
            }
        }
        None => out.push("E=NOEMIT R=- E2=- R2=-".into()),
    }
    let rt = run_program(&mut sess, "to_string(f)", false);
    match rt.last() {
        Some(s) if rt.len() == 1 && s.starts_with("OK:S") && s.ends_with(';') => {
            let h = &s[4..s.len() - 1];
            out.push(format!("T={}", h));
            match (text_of(h), Session::new(None)) {
                (Some(t), Ok(mut s4)) => {
                    let r4 = run_program(&mut s4, &format!("f = {}", t), false);
                    if r4.len() == 1 && r4[0].starts_with("OK:FN") {
                        out.push(format!("TR={}", capt_probe(&mut s4, &probes)));
                    } else {
                        out.push("TR=NOPARSE".into());
                    }
                }
                _ => out.push("TR=BAD".into()),
            }
        }
        _ => out.push("T=- TR=NOTEXT".into()),
    }
    out.join(" ")
}

/// Value (show_value text) of a one-expression source, or an outcome class.
fn astlit_eval(src: &str) -> String {
    match Session::new(None) {
        Ok(mut s) => {
            let r = run_program(&mut s, src, false);
            match r.last() {
                Some(x) if r.len() == 1 && x.starts_with("OK:") => x[3..].to_string(),
                Some(x) => x.replace(' ', "_"),
                None => "EMPTY".into(),
            }
        }
        Err(_) => "BADSESSION".into(),
    }
}

fn astlit_line(line: &str) -> String {
    let src = match text_of(line.trim()) {
        Some(s) => s,
        None => return "BADUTF8".into(),
    };
    let pairs = match get_pairs(&src) {
        Ok(p) => p,
        Err(_) => return "REJECT".into(),
    };
    let mut expr = None;
    for pair in pairs {
        if pair.as_rule() != Rule::statement {
            continue;
        }
        if let Some(inner) = pair.into_inner().next() {
            if inner.as_rule() == Rule::expression {
                expr = pairs_to_expr(inner.into_inner()).ok();
            }
        }
        break;
    }
    let e = match expr {
        Some(e) => e,
        None => return "NOEXPR".into(),
    };
    let mut out = vec![format!("V={}", astlit_eval(&src))];
    let t = expr_to_source(&e);
    out.push(format!("ST={}", hex(t.as_bytes())));
    out.push(format!("S={}", astlit_eval(&t)));
    let ws: [Option<usize>; 5] = [None, Some(0), Some(1), Some(20), Some(80)];
    for (i, w) in ws.iter().enumerate() {
        let ft = format_expr(&e, *w);
        if i == 3 {
            out.push(format!("FT={}", hex(ft.as_bytes())));
        }
        out.push(format!("F{}={}", i, astlit_eval(&ft)));
    }
    out.join(" ")
}
