// C16 streams: numbers through every textual path of the real implementation.
//   c16-num      16 hex digits (f64 bits)  -> every path's text and what the implementation reads back
//   c16-lit      hex(source text)          -> REJECT | LITERR | ERR | <bits> | OTHER   (real parser + evaluator)
//   c16-tonum    hex(string)               -> <bits> | ERR          (to_number built-in through a program)
//   c16-json     hex(JSON number text)     -> <bits> | ERR          (serde_json::from_str + from_json)
//   c16-parsef64 hex(text)                 -> <bits> | ERR          (Rust str::parse::<f64>, library contract test)
//   c16-jsonlist hex(JSON array of numbers)-> bits,bits,...          (same path, many numbers per call)
use crate::show::{hex, num_bits, unhex};
use crate::streams::{run_program, Session};
use blots_core::ast::{Expr, Spanned};
use blots_core::ast_to_source::expr_to_source;
use blots_core::expressions::{evaluate_pairs, pairs_to_expr};
use blots_core::formatter::format_expr;
use blots_core::parser::{get_pairs, Rule};
use blots_core::values::{SerializableValue, Value};
use std::rc::Rc;

pub fn oneshot(_sub: &str, _rest: &[String]) -> Option<String> {
    None
}

pub fn dispatch(sub: &str, _rest: &[String], line: &str) -> Option<String> {
    match sub {
        "c16-num" => Some(num_line(line)),
        "c16-lit" => Some(lit_line(line)),
        "c16-tonum" => Some(tonum_line(line)),
        "c16-json" => Some(json_line(line)),
        "c16-jsonlist" => Some(jsonlist_line(line)),
        "c16-parsef64" => Some(parsef64_line(line)),
        _ => None,
    }
}

fn text_of(h: &str) -> Option<String> {
    String::from_utf8(unhex(h)).ok()
}

fn value_bits(v: &Value) -> String {
    match v {
        Value::Number(x) => num_bits(*x),
        _ => "OTHER".into(),
    }
}

/// Parse `src` with the real grammar, convert with pairs_to_expr, evaluate with evaluate_pairs.
fn read_source(src: &str) -> String {
    let pairs = match get_pairs(src) {
        Ok(p) => p,
        Err(_) => return "REJECT".into(),
    };
    let mut last = "EMPTY".to_string();
    let sess = match Session::new(None) {
        Ok(s) => s,
        Err(_) => return "BADSESSION".into(),
    };
    for pair in pairs {
        if pair.as_rule() != Rule::statement {
            continue;
        }
        let inner = match pair.into_inner().next() {
            Some(p) => p,
            None => continue,
        };
        if inner.as_rule() != Rule::expression {
            return "OTHER".into();
        }
        if pairs_to_expr(inner.clone().into_inner()).is_err() {
            return "LITERR".into();
        }
        match evaluate_pairs(inner.into_inner(), Rc::clone(&sess.heap), Rc::clone(&sess.bindings), 0, src) {
            Ok(v) => last = value_bits(&v),
            Err(_) => return "ERR".into(),
        }
    }
    last
}

fn last_ok(res: &[String]) -> String {
    match res.last() {
        Some(r) if r.starts_with("OK:N") => r[4..].to_string(),
        Some(r) if r.starts_with("OK:") => "OTHER".into(),
        Some(r) => r.clone(),
        None => "EMPTY".into(),
    }
}

fn num_line(line: &str) -> String {
    let bits = match u64::from_str_radix(line.trim(), 16) {
        Ok(b) => b,
        Err(_) => return "BADINPUT".into(),
    };
    let x = f64::from_bits(bits);
    let mut out: Vec<String> = Vec::new();

    // to_string / to_number through the real built-ins
    {
        let mut sess = Session::new(None).unwrap();
        sess.bindings.insert("x".to_string(), Value::Number(x));
        let r = run_program(&mut sess, "s = to_string(x)\nto_number(s)", false);
        let text = match r.first() {
            Some(s) if s.starts_with("OK:S") => s[4..s.len() - 1].to_string(),
            _ => "".to_string(),
        };
        out.push(format!("D={}", text));
        out.push(format!("DN={}", if r.len() == 2 { last_ok(&r) } else { "ERR".into() }));
    }
    // source emission of a Number node, then the real parser + evaluator
    {
        let e = Spanned::dummy(Expr::Number(x));
        let t = expr_to_source(&e);
        out.push(format!("S={}", hex(t.as_bytes())));
        out.push(format!("SR={}", read_source(&t)));
        // formatter at several widths
        let ws: [Option<usize>; 4] = [None, Some(0), Some(1), Some(80)];
        let fs: Vec<String> = ws.iter().map(|w| format_expr(&e, *w)).collect();
        let same = fs.iter().all(|f| *f == fs[0]);
        out.push(format!("F={}", hex(fs[0].as_bytes())));
        out.push(format!("FW={}", if same { "same" } else { "differ" }));
        out.push(format!("FR={}", read_source(&fs[0])));
    }
    // function-source emission with x captured, reload through JSON, call
    {
        let mut sess = Session::new(None).unwrap();
        sess.bindings.insert("x".to_string(), Value::Number(x));
        let r = run_program(&mut sess, "f = y => x", false);
        let mut text = String::new();
        let mut back = "ERR".to_string();
        if r.len() == 1 && r[0].starts_with("OK:FN") {
            if let Some(fv) = sess.bindings.get("f") {
                if let Ok(ser) = fv.to_serializable_value(&sess.heap.borrow()) {
                    let js = ser.to_json();
                    if let Some(src) = js.get("__blots_function").and_then(|s| s.as_str()) {
                        text = src.strip_prefix("(y) => ").unwrap_or("?").to_string();
                        let doc = serde_json::json!({ "g": { "__blots_function": src } }).to_string();
                        if let Ok(mut s2) = Session::new(Some(&doc)) {
                            let r2 = run_program(&mut s2, "inputs.g(0)", false);
                            back = last_ok(&r2);
                        }
                    }
                }
            }
        }
        out.push(format!("E={}", hex(text.as_bytes())));
        out.push(format!("ER={}", back));
    }
    // JSON output text and JSON input
    {
        let js = SerializableValue::Number(x).to_json();
        let t = serde_json::to_string(&js).unwrap_or_default();
        out.push(format!("J={}", hex(t.as_bytes())));
        out.push(format!("JR={}", json_read(&t)));
    }
    // library: `{:.0}` (only meaningful for integral values; the repo calls it on those only)
    out.push(format!("Z={}", hex(format!("{:.0}", x).as_bytes())));
    out.join(" ")
}

fn json_read(t: &str) -> String {
    match serde_json::from_str::<serde_json::Value>(t) {
        Ok(v) => match SerializableValue::from_json(&v) {
            SerializableValue::Number(n) => num_bits(n),
            _ => "OTHER".into(),
        },
        Err(_) => "ERR".into(),
    }
}

fn lit_line(line: &str) -> String {
    match text_of(line) {
        Some(s) => read_source(&s),
        None => "BADUTF8".into(),
    }
}

fn tonum_line(line: &str) -> String {
    let s = match text_of(line) {
        Some(s) => s,
        None => return "BADUTF8".into(),
    };
    let mut sess = Session::new(None).unwrap();
    let sv = sess.heap.borrow_mut().insert_string(s);
    sess.bindings.insert("s".to_string(), sv);
    let r = run_program(&mut sess, "to_number(s)", false);
    last_ok(&r)
}

fn json_line(line: &str) -> String {
    match text_of(line) {
        Some(s) => json_read(&s),
        None => "BADUTF8".into(),
    }
}

fn jsonlist_line(line: &str) -> String {
    let s = match text_of(line) {
        Some(s) => s,
        None => return "BADUTF8".into(),
    };
    match serde_json::from_str::<serde_json::Value>(&s) {
        Ok(v) => match SerializableValue::from_json(&v) {
            SerializableValue::List(items) => items
                .iter()
                .map(|i| match i {
                    SerializableValue::Number(n) => num_bits(*n),
                    _ => "OTHER".into(),
                })
                .collect::<Vec<_>>()
                .join(","),
            _ => "OTHER".into(),
        },
        Err(_) => "ERR".into(),
    }
}

fn parsef64_line(line: &str) -> String {
    match text_of(line) {
        Some(s) => match s.parse::<f64>() {
            Ok(x) => num_bits(x),
            Err(_) => "ERR".into(),
        },
        None => "BADUTF8".into(),
    }
}
