// C14 streams.
//
// c14-builtin [--checked]
//   input : hex(name) TAB hex(arg source) TAB hex(arg source) ...
//           every argument is a Blots expression evaluated by the real evaluator in one shared
//           session (so lambdas, nested data and non-finite numbers can be written naturally);
//           an argument text that starts with "..." is evaluated without the dots and wrapped
//           in Value::Spread (spread values cannot be written as a top-level expression).
//   output: OK:<canonical value> | ERR | ERRDEPTH | BADARG <i> | NOBUILTIN   (PANIC by main.rs)
//   default: BuiltInFunction::call(args, ..) directly — the arm itself, no arity check
//   --checked: FunctionDef::BuiltIn(b).call(Value::Null, args, ..) — arity check + depth check
use crate::show::*;
use crate::streams::{classify_err, Session};
use blots_core::expressions::evaluate_pairs;
use blots_core::functions::{BuiltInFunction, FunctionDef};
use blots_core::heap::IterablePointer;
use blots_core::parser::{get_pairs, Rule};
use blots_core::values::Value;
use std::rc::Rc;

pub fn oneshot(_sub: &str, _rest: &[String]) -> Option<String> {
    None
}

pub fn dispatch(sub: &str, rest: &[String], line: &str) -> Option<String> {
    match sub {
        "c14-builtin" => Some(builtin_line(line, rest.iter().any(|a| a == "--checked"))),
        _ => None,
    }
}

fn eval_expr_text(sess: &Session, src: &str) -> Option<Value> {
    let pairs = get_pairs(src).ok()?;
    for pair in pairs {
        if pair.as_rule() != Rule::statement {
            continue;
        }
        let inner = pair.into_inner().next()?;
        if inner.as_rule() != Rule::expression {
            return None;
        }
        return evaluate_pairs(inner.into_inner(), Rc::clone(&sess.heap), Rc::clone(&sess.bindings), 0, src).ok();
    }
    None
}

fn builtin_line(line: &str, checked: bool) -> String {
    let mut parts = line.split('\t');
    let name = match parts.next().map(unhex).and_then(|b| String::from_utf8(b).ok()) {
        Some(n) => n,
        None => return "NOBUILTIN".into(),
    };
    let b = match BuiltInFunction::from_ident(&name) {
        Some(b) => b,
        None => return "NOBUILTIN".into(),
    };
    let sess = match Session::new(None) {
        Ok(s) => s,
        Err(_) => return "BADINPUT".into(),
    };
    let mut args: Vec<Value> = Vec::new();
    for (i, p) in parts.enumerate() {
        let src = match String::from_utf8(unhex(p)) {
            Ok(s) => s,
            Err(_) => return format!("BADARG {}", i),
        };
        let (spread, text) = match src.strip_prefix("...") {
            Some(t) => (true, t.to_string()),
            None => (false, src.clone()),
        };
        let v = match eval_expr_text(&sess, &text) {
            Some(v) => v,
            None => return format!("BADARG {}", i),
        };
        let v = if spread {
            match v {
                Value::List(p) => Value::Spread(IterablePointer::List(p)),
                Value::String(p) => Value::Spread(IterablePointer::String(p)),
                Value::Record(p) => Value::Spread(IterablePointer::Record(p)),
                _ => return format!("BADARG {}", i),
            }
        } else {
            v
        };
        args.push(v);
    }
    let r = if checked {
        FunctionDef::BuiltIn(b).call(Value::Null, args, Rc::clone(&sess.heap), Rc::clone(&sess.bindings), 0, "")
    } else {
        b.call(args, Rc::clone(&sess.heap), Rc::clone(&sess.bindings), 0, "")
    };
    match r {
        Ok(v) => format!("OK:{}", show_value(&v, &sess.heap.borrow(), false)),
        Err(e) => classify_err(&e.to_string()).to_string(),
    }
}
