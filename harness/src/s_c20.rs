// C20 streams: the display form of numbers.
//   c20-display : "<16 hex bits>"           -> hex(format_display_number(x))
//   c20-format  : "<16 hex bits>"           -> hex(text of the built-in  format("{}", x))  | ERR
//   c20-fmtlist : "<16 hex bits>"           -> hex(text of format("{} {}", [x], {k: x}))   | ERR
//   c20-log10   : "<16 hex bits>"           -> bits of f64::log10(x)       (oracle table for the model)
//   c20-powi    : "<16 hex bits> <i32>"     -> bits of f64::powi(x, k)     (oracle validation)
//   c20-fmtprec : "<16 hex bits> <usize>"   -> hex(format!("{:.prec$}", x))(oracle validation)
//   c20-fmtexp  : "<16 hex bits>"           -> hex(format!("{:.14e}", x))  (oracle validation)
//   c20-parse   : "<hex text>"              -> bits of text.parse::<f64>() | NONE
//   c20-parsei32: "<hex text>"              -> decimal of text.parse::<i32>() | NONE
use crate::show::{hex, num_bits, unhex};
use blots_core::environment::Environment;
use blots_core::functions::BuiltInFunction;
use blots_core::heap::Heap;
use blots_core::values::{Value, format_display_number};
use indexmap::IndexMap;
use std::cell::RefCell;
use std::rc::Rc;

pub fn oneshot(_sub: &str, _rest: &[String]) -> Option<String> {
    None
}

fn bits(s: &str) -> Option<f64> {
    u64::from_str_radix(s.trim(), 16).ok().map(f64::from_bits)
}

fn call_format(fmt: &str, args: Vec<Value>, heap: Rc<RefCell<Heap>>) -> String {
    let f = heap.borrow_mut().insert_string(fmt.to_string());
    let mut all = vec![f];
    all.extend(args);
    let env = Rc::new(Environment::new());
    match BuiltInFunction::Format.call(all, Rc::clone(&heap), env, 0, "") {
        Ok(Value::String(p)) => {
            use blots_core::heap::HeapPointer;
            match p.reify(&heap.borrow()).as_string() {
                Ok(s) => hex(s.as_bytes()),
                Err(_) => "ERR".into(),
            }
        }
        _ => "ERR".into(),
    }
}

pub fn dispatch(sub: &str, _rest: &[String], line: &str) -> Option<String> {
    match sub {
        "c20-display" => Some(match bits(line) {
            Some(x) => hex(format_display_number(x).as_bytes()),
            None => "BADINPUT".into(),
        }),
        "c20-format" => Some(match bits(line) {
            Some(x) => {
                let heap = Rc::new(RefCell::new(Heap::new()));
                call_format("{}", vec![Value::Number(x)], heap)
            }
            None => "BADINPUT".into(),
        }),
        "c20-fmtlist" => Some(match bits(line) {
            Some(x) => {
                let heap = Rc::new(RefCell::new(Heap::new()));
                let l = heap.borrow_mut().insert_list(vec![Value::Number(x)]);
                let mut m: IndexMap<String, Value> = IndexMap::new();
                m.insert("k".to_string(), Value::Number(x));
                let r = heap.borrow_mut().insert_record(m);
                call_format("{} {}", vec![l, r], heap)
            }
            None => "BADINPUT".into(),
        }),
        "c20-log10" => Some(match bits(line) {
            Some(x) => num_bits(x.log10()),
            None => "BADINPUT".into(),
        }),
        "c20-powi" => {
            let mut it = line.split_whitespace();
            let x = it.next().and_then(bits);
            let k = it.next().and_then(|s| s.parse::<i32>().ok());
            Some(match (x, k) {
                (Some(x), Some(k)) => num_bits(std::hint::black_box(x).powi(std::hint::black_box(k))),
                _ => "BADINPUT".into(),
            })
        }
        "c20-fmtprec" => {
            let mut it = line.split_whitespace();
            let x = it.next().and_then(bits);
            let k = it.next().and_then(|s| s.parse::<usize>().ok());
            Some(match (x, k) {
                (Some(x), Some(k)) => hex(format!("{:.prec$}", x, prec = k).as_bytes()),
                _ => "BADINPUT".into(),
            })
        }
        "c20-fmtexp" => Some(match bits(line) {
            Some(x) => hex(format!("{:.14e}", x).as_bytes()),
            None => "BADINPUT".into(),
        }),
        "c20-parse" => Some(match String::from_utf8(unhex(line.trim())) {
            Ok(s) => match s.parse::<f64>() {
                Ok(v) => num_bits(v),
                Err(_) => "NONE".into(),
            },
            Err(_) => "BADUTF8".into(),
        }),
        "c20-parsei32" => Some(match String::from_utf8(unhex(line.trim())) {
            Ok(s) => match s.parse::<i32>() {
                Ok(v) => format!("{}", v),
                Err(_) => "NONE".into(),
            },
            Err(_) => "BADUTF8".into(),
        }),
        _ => None,
    }
}
