// C01 crash-search stream: every stage a user can invoke, each under its own catch_unwind, on
// a thread whose stack is sized like the CLI's interpreter thread.
//
//   c01   line:  KIND TAB hex(a) [TAB hex(b) [TAB hex(c)]]
//     P  a = source text, b = inputs JSON text (optional)      full pipeline
//     E  a = source text, b = inputs JSON text (optional)      parse + evaluate + render + serialise
//     U  a = from-unit, b = to-unit, c = 16 hex digits (f64)   units::convert
//   output: "<summary>;EV:<event>|<event>..."  (EV part absent when there is no event)
//     summary  comma separated key=value counters (parse=ok|reject, stmts, ok, err, depth, ...)
//     event    PANIC/<stage>/<hex(message @ file:line)>   a panic caught in that stage
//              SPAN/<stage>/<start>-<end>/<len>/<why>      an error location outside its text
//
// Crash journal: when C01_JOURNAL names a file, "B <n>" is appended (unbuffered) before a case
// runs and "E <n> <result>" after it, so a case that kills the process (abort, stack overflow,
// allocation failure, timeout kill) is identified exactly.
use crate::show::*;
use blots_core::ast::{Expr, RecordKey, Spanned, SpannedExpr};
use blots_core::ast_to_source::expr_to_source;
use blots_core::environment::Environment;
use blots_core::error::RuntimeError;
use blots_core::expressions::{evaluate_pairs, pairs_to_expr, pairs_to_expr_with_comments, validate_portable_value};
use blots_core::formatter::{format_expr, join_statements_with_spacing};
use blots_core::heap::Heap;
use blots_core::parser::{get_pairs, Rule};
use blots_core::values::{SerializableValue, Value};
use indexmap::IndexMap;
use std::cell::RefCell;
use std::io::Write;
use std::panic::{catch_unwind, AssertUnwindSafe};
use std::rc::Rc;
use std::sync::{Mutex, Once};

pub fn oneshot(_sub: &str, _rest: &[String]) -> Option<String> {
    None
}

pub fn dispatch(sub: &str, _rest: &[String], line: &str) -> Option<String> {
    match sub {
        "c01" => Some(run_case(line)),
        _ => None,
    }
}

// ---------------------------------------------------------------- panic capture
thread_local! {
    static LAST_PANIC: RefCell<Option<String>> = const { RefCell::new(None) };
}
static HOOK: Once = Once::new();

fn install_hook() {
    HOOK.call_once(|| {
        std::panic::set_hook(Box::new(|info| {
            let msg = if let Some(s) = info.payload().downcast_ref::<&str>() {
                s.to_string()
            } else if let Some(s) = info.payload().downcast_ref::<String>() {
                s.clone()
            } else {
                "?".to_string()
            };
            let loc = info
                .location()
                .map(|l| format!("{}:{}", l.file(), l.line()))
                .unwrap_or_else(|| "?".into());
            LAST_PANIC.with(|c| *c.borrow_mut() = Some(format!("{} @ {}", msg, loc)));
        }));
    });
}

struct Ctx {
    events: Vec<String>,
}

impl Ctx {
    /// run one stage; a panic becomes an event and None
    fn guard<T>(&mut self, stage: &str, f: impl FnOnce() -> T) -> Option<T> {
        journal(&format!("S {}\n", stage));
        LAST_PANIC.with(|c| *c.borrow_mut() = None);
        match catch_unwind(AssertUnwindSafe(f)) {
            Ok(v) => Some(v),
            Err(_) => {
                let m = LAST_PANIC.with(|c| c.borrow_mut().take()).unwrap_or_else(|| "?".into());
                self.events.push(format!("PANIC/{}/{}", stage, hex(m.as_bytes())));
                None
            }
        }
    }
    fn span_event(&mut self, stage: &str, start: usize, end: usize, len: usize, why: &str) {
        self.events.push(format!("SPAN/{}/{}-{}/{}/{}", stage, start, end, len, why));
    }
}

// ---------------------------------------------------------------- journal
static JOURNAL: Mutex<Option<std::fs::File>> = Mutex::new(None);
static JOURNAL_INIT: Once = Once::new();
static COUNTER: Mutex<u64> = Mutex::new(0);

fn journal(text: &str) {
    JOURNAL_INIT.call_once(|| {
        if let Ok(p) = std::env::var("C01_JOURNAL") {
            if let Ok(f) = std::fs::OpenOptions::new().create(true).append(true).open(p) {
                *JOURNAL.lock().unwrap() = Some(f);
            }
        }
    });
    if let Ok(mut g) = JOURNAL.lock() {
        if let Some(f) = g.as_mut() {
            let _ = f.write_all(text.as_bytes());
        }
    }
}

fn run_case(line: &str) -> String {
    install_hook();
    let n = {
        let mut c = COUNTER.lock().unwrap();
        *c += 1;
        *c
    };
    journal(&format!("B {}\n", n));
    let stack_mb: usize = std::env::var("C01_STACK_MB").ok().and_then(|s| s.parse().ok()).unwrap_or(1024);
    let owned = line.to_string();
    let handle = std::thread::Builder::new()
        .name("c01".into())
        .stack_size(stack_mb << 20)
        .spawn(move || case_body(&owned));
    let out = match handle {
        Ok(h) => match h.join() {
            Ok(s) => s,
            Err(_) => "escaped;EV:PANIC/escaped/".to_string(),
        },
        Err(_) => "nothread".to_string(),
    };
    journal(&format!("E {} {}\n", n, out));
    out
}

fn text_of(h: &str) -> Option<String> {
    String::from_utf8(unhex(h)).ok()
}

fn case_body(line: &str) -> String {
    let parts: Vec<&str> = line.split('\t').collect();
    if parts.is_empty() {
        return "badline".into();
    }
    let mut ctx = Ctx { events: Vec::new() };
    let summary = match parts[0] {
        // "PB" / "EB": the same with a bare Environment (no `inputs` binding), as a library user or a
        // test of blots-core creates it; every shipped driver binds `inputs` first
        "P" | "E" | "PB" | "EB" => {
            let src = match parts.get(1).and_then(|h| text_of(h)) {
                Some(s) => s,
                None => return "badutf8".into(),
            };
            let inputs = parts.get(2).and_then(|h| text_of(h));
            pipeline(&mut ctx, &src, inputs.as_deref(), parts[0].starts_with('P'), parts[0].ends_with('B'))
        }
        "U" => {
            let from = parts.get(1).and_then(|h| text_of(h)).unwrap_or_default();
            let to = parts.get(2).and_then(|h| text_of(h)).unwrap_or_default();
            let bits = parts.get(3).and_then(|h| u64::from_str_radix(h, 16).ok()).unwrap_or(0);
            let x = f64::from_bits(bits);
            match ctx.guard("convert", || blots_core::units::convert(x, &from, &to)) {
                Some(Ok(v)) => {
                    let _ = ctx.guard("convert_display", || blots_core::values::format_display_number(v));
                    "convert=ok".to_string()
                }
                Some(Err(e)) => {
                    let _ = ctx.guard("convert_err_display", || e.to_string());
                    "convert=err".to_string()
                }
                None => "convert=panic".to_string(),
            }
        }
        // "S": a SESSION of several source texts evaluated one after the other on this thread against one heap
        // and one environment (REPL, wasm host, any embedding that reads programs in a loop); a = JSON array of
        // the texts, b = inputs JSON text (optional)
        "S" => {
            let doc = match parts.get(1).and_then(|h| text_of(h)) {
                Some(s) => s,
                None => return "badutf8".into(),
            };
            let texts: Vec<String> = match serde_json::from_str::<Vec<String>>(&doc) {
                Ok(t) => t,
                Err(_) => return "badsession".into(),
            };
            let inputs = parts.get(2).and_then(|h| text_of(h));
            session_case(&mut ctx, &texts, inputs.as_deref())
        }
        _ => "badkind".into(),
    };
    if ctx.events.is_empty() {
        summary
    } else {
        format!("{};EV:{}", summary, ctx.events.join("|"))
    }
}

// ---------------------------------------------------------------- AST nesting depth
fn depth(e: &SpannedExpr) -> usize {
    1 + match &e.node {
        Expr::Number(_) | Expr::String(_) | Expr::Bool(_) | Expr::Null | Expr::Identifier(_)
        | Expr::InputReference(_) | Expr::BuiltIn(_) => 0,
        Expr::List(items) => items.iter().map(|c| depth(&c.node)).max().unwrap_or(0),
        Expr::Record(entries) => entries
            .iter()
            .map(|c| {
                let k = match &c.node.key {
                    RecordKey::Dynamic(x) | RecordKey::Spread(x) => depth(x),
                    _ => 0,
                };
                k.max(depth(&c.node.value))
            })
            .max()
            .unwrap_or(0),
        Expr::Lambda { body, .. } => depth(body),
        Expr::Conditional { condition, then_expr, else_expr } => {
            depth(condition).max(depth(then_expr)).max(depth(else_expr))
        }
        Expr::DoBlock { statements, return_expr } => statements
            .iter()
            .map(|c| depth(&c.node))
            .max()
            .unwrap_or(0)
            .max(depth(&return_expr.node)),
        Expr::Assignment { value, .. } => depth(value),
        Expr::Output { expr } => depth(expr),
        Expr::Call { func, args } => args.iter().map(depth).max().unwrap_or(0).max(depth(func)),
        Expr::Access { expr, index } => depth(expr).max(depth(index)),
        Expr::DotAccess { expr, .. } => depth(expr),
        Expr::BinaryOp { left, right, .. } => depth(left).max(depth(right)),
        Expr::UnaryOp { expr, .. } => depth(expr),
        Expr::PostfixOp { expr, .. } => depth(expr),
        Expr::Spread(x) => depth(x),
    }
}

// ---------------------------------------------------------------- span checks
fn check_runtime_error_span(ctx: &mut Ctx, stage: &str, e: &RuntimeError) {
    if let (Some(span), Some(source)) = (&e.span, &e.source) {
        let len = source.len();
        let (a, b) = (span.start_byte, span.end_byte);
        if a > b {
            ctx.span_event(stage, a, b, len, "start>end");
        } else if b > len {
            ctx.span_event(stage, a, b, len, if len == 0 { "empty-source" } else { "end>len" });
        } else if !source.is_char_boundary(a) || !source.is_char_boundary(b) {
            ctx.span_event(stage, a, b, len, "not-char-boundary");
        }
    }
}

fn check_pest_error(ctx: &mut Ctx, src: &str, e: &pest::error::Error<Rule>) {
    let len = src.len();
    let (a, b) = match e.location {
        pest::error::InputLocation::Pos(p) => (p, p),
        pest::error::InputLocation::Span((a, b)) => (a, b),
    };
    if a > b {
        ctx.span_event("parse", a, b, len, "start>end");
    } else if b > len {
        ctx.span_event("parse", a, b, len, "end>len");
    } else if !src.is_char_boundary(a) || !src.is_char_boundary(b) {
        ctx.span_event("parse", a, b, len, "not-char-boundary");
    }
}

// ---------------------------------------------------------------- rendering / serialising a value
fn render_value(ctx: &mut Ctx, stage: &str, v: &Value, heap: &Rc<RefCell<Heap>>) {
    let _ = ctx.guard(&format!("{}_stringify_internal", stage), || v.stringify_internal(&heap.borrow()).len());
    let _ = ctx.guard(&format!("{}_stringify_external", stage), || v.stringify_external(&heap.borrow()).len());
    let _ = ctx.guard(&format!("{}_stringify_display", stage), || v.stringify_for_display(&heap.borrow()).len());
}

/// to_serializable_value + to_json + serde_json text; when `reload`, the text is read back
/// (from_json + to_value) the way a later run would take it as an input
fn serialise_value(ctx: &mut Ctx, stage: &str, v: &Value, heap: &Rc<RefCell<Heap>>, reload: bool) -> Option<SerializableValue> {
    let ser = ctx.guard(&format!("{}_to_serializable", stage), || v.to_serializable_value(&heap.borrow()));
    let ser = match ser {
        Some(Ok(s)) => s,
        _ => return None,
    };
    let json = ctx.guard(&format!("{}_to_json", stage), || ser.to_json());
    if let Some(j) = json {
        let text = ctx.guard(&format!("{}_json_text", stage), || serde_json::to_string(&j));
        if reload {
            if let Some(Ok(t)) = text {
                let back = ctx.guard(&format!("{}_reload_parse", stage), || serde_json::from_str::<serde_json::Value>(&t));
                if let Some(Ok(bj)) = back {
                    let s2 = ctx.guard(&format!("{}_reload_from_json", stage), || SerializableValue::from_json(&bj));
                    if let Some(s2) = s2 {
                        let _ = ctx.guard(&format!("{}_reload_to_value", stage), || s2.to_value(&mut heap.borrow_mut()).is_ok());
                    }
                }
            }
        }
    }
    Some(ser)
}

// ---------------------------------------------------------------- the pipeline
const WIDTHS: [Option<usize>; 7] = [None, Some(1), Some(8), Some(20), Some(40), Some(80), Some(200)];

fn pipeline(ctx: &mut Ctx, src: &str, inputs_json: Option<&str>, full: bool, bare: bool) -> String {
    let heap = Rc::new(RefCell::new(Heap::new()));
    let bindings = Rc::new(Environment::new());
    let mut summary: Vec<String> = Vec::new();

    // ---- inputs: what blots/src/main.rs::parse_json_inputs does
    let mut inputs_map: IndexMap<String, Value> = IndexMap::new();
    if let Some(js) = inputs_json {
        match ctx.guard("inputs_json_parse", || serde_json::from_str::<serde_json::Value>(js)) {
            Some(Ok(v)) => {
                let items: Vec<(String, serde_json::Value)> = match v {
                    serde_json::Value::Object(obj) => obj.into_iter().collect(),
                    other => vec![("value_1".to_string(), other)],
                };
                let mut loaded = 0;
                for (k, jv) in items.iter() {
                    let ser = ctx.guard("inputs_from_json", || SerializableValue::from_json(jv));
                    if let Some(ser) = ser {
                        let val = ctx.guard("inputs_to_value", || ser.to_value(&mut heap.borrow_mut()));
                        if let Some(Ok(val)) = val {
                            loaded += 1;
                            render_value(ctx, "inputs", &val, &heap);
                            let _ = serialise_value(ctx, "inputs", &val, &heap, false);
                            inputs_map.insert(k.clone(), val);
                        }
                    }
                }
                summary.push(format!("inputs={}/{}", loaded, items.len()));
            }
            Some(Err(_)) => summary.push("inputs=badjson".into()),
            None => summary.push("inputs=panic".into()),
        }
    }
    if !bare {
        let rec = heap.borrow_mut().insert_record(inputs_map);
        bindings.insert("inputs".to_string(), rec);
    }

    // ---- parse
    let pairs = match ctx.guard("parse", || get_pairs(src)) {
        Some(Ok(p)) => p,
        Some(Err(e)) => {
            check_pest_error(ctx, src, &e);
            let _ = ctx.guard("parse_err_display", || format!("Parse error: {}", e).len());
            summary.push("parse=reject".into());
            return summary.join(",");
        }
        None => {
            summary.push("parse=panic".into());
            return summary.join(",");
        }
    };
    summary.push("parse=ok".into());

    let mut stmts = 0usize;
    let mut ok = 0usize;
    let mut err = 0usize;
    let mut outerr = 0usize;
    let mut maxdepth = 0usize;
    let mut died = false;
    let mut formatted_statements: Vec<(String, usize, usize)> = Vec::new();
    let mut outputs: IndexMap<String, SerializableValue> = IndexMap::new();

    for pair in pairs {
        if pair.as_rule() != Rule::statement {
            continue;
        }
        let start_line = pair.as_span().start_pos().line_col().0;
        let end_line = pair.as_span().end_pos().line_col().0;
        let mut inner = pair.into_inner();
        let first = match inner.next() {
            Some(p) => p,
            None => continue,
        };
        let eol_comment = inner.next();
        let rule = first.as_rule();
        if rule == Rule::comment {
            formatted_statements.push((first.as_str().to_string(), start_line, end_line));
            continue;
        }
        if rule != Rule::expression && rule != Rule::output_declaration {
            ctx.events.push(format!("PANIC/main_unreachable/{}", hex(format!("unexpected rule: {:?}", rule).as_bytes())));
            continue;
        }
        stmts += 1;

        // ---- AST (both comment modes)
        let ast = ctx.guard("pairs_to_expr", || pairs_to_expr(first.clone().into_inner()));
        let astc = ctx.guard("pairs_to_expr_with_comments", || pairs_to_expr_with_comments(first.clone().into_inner()));
        if let Some(Ok(e)) = &ast {
            let d = ctx.guard("depth", || depth(e)).unwrap_or(0);
            maxdepth = maxdepth.max(d);
        }

        // ---- print / format
        if full {
            if let Some(Ok(e)) = &ast {
                if let Some(text) = ctx.guard("expr_to_source", || expr_to_source(e)) {
                    // the printed text is itself an input of the parser (function reload path)
                    let _ = ctx.guard("reparse_printed", || match get_pairs(&text) {
                        Ok(mut p) => p.next().map(|s| pairs_to_expr(s.into_inner()).is_ok()),
                        Err(_) => None,
                    });
                }
            }
            if let Some(Ok(e)) = &astc {
                let target: SpannedExpr = if rule == Rule::output_declaration {
                    Spanned::dummy(Expr::Output { expr: Box::new(e.clone()) })
                } else {
                    e.clone()
                };
                let mut at80: Option<String> = None;
                for w in WIDTHS.iter() {
                    let stage = match w {
                        None => "format_expr_none".to_string(),
                        Some(n) => format!("format_expr_{}", n),
                    };
                    if let Some(t) = ctx.guard(&stage, || format_expr(&target, *w)) {
                        if *w == Some(8) || *w == Some(80) {
                            let _ = ctx.guard("reparse_formatted", || get_pairs(&t).is_ok());
                        }
                        if *w == Some(80) {
                            at80 = Some(t);
                        }
                    }
                }
                if let Some(t) = at80 {
                    let fin = match &eol_comment {
                        Some(c) if c.as_rule() == Rule::comment => format!("{}  {}", t, c.as_str()),
                        _ => t,
                    };
                    formatted_statements.push((fin, start_line, end_line));
                }
            }
        }

        // ---- evaluate (the loop of blots/src/main.rs::evaluate_source)
        if died {
            continue;
        }
        let r = ctx.guard("evaluate", || {
            evaluate_pairs(first.clone().into_inner(), Rc::clone(&heap), Rc::clone(&bindings), 0, src)
        });
        let r = match r {
            Some(r) => r,
            None => {
                died = true;
                continue;
            }
        };
        if rule == Rule::output_declaration {
            for p in first.clone().into_inner() {
                match p.as_rule() {
                    Rule::identifier => {
                        let ident = p.as_str();
                        if let Some(value) = bindings.get(ident) {
                            let v = ctx.guard("validate_portable_value", || {
                                validate_portable_value(&value, &heap.borrow(), &bindings).is_err()
                            });
                            match v {
                                Some(true) => outerr += 1,
                                Some(false) => {
                                    if let Some(ser) = serialise_value(ctx, "output", &value, &heap, full) {
                                        outputs.insert(ident.to_string(), ser);
                                    }
                                }
                                None => {}
                            }
                        }
                        break;
                    }
                    Rule::assignment => {
                        if let Some(ip) = p.into_inner().next() {
                            let ident = ip.as_str();
                            if let Ok(value) = &r {
                                let v = ctx.guard("validate_portable_value", || {
                                    validate_portable_value(value, &heap.borrow(), &bindings).is_err()
                                });
                                match v {
                                    Some(true) => outerr += 1,
                                    Some(false) => {
                                        if let Some(ser) = serialise_value(ctx, "output", value, &heap, full) {
                                            outputs.insert(ident.to_string(), ser);
                                        }
                                    }
                                    None => {}
                                }
                            }
                        }
                        break;
                    }
                    _ => {}
                }
            }
        }
        match r {
            Ok(v) => {
                ok += 1;
                render_value(ctx, "value", &v, &heap);
                // every value can be asked for as JSON (REPL / wasm `evaluate` serialise results)
                let _ = serialise_value(ctx, "value", &v, &heap, false);
            }
            Err(e) => {
                err += 1;
                check_runtime_error_span(ctx, "evaluate", &e);
                let _ = ctx.guard("runtime_error_display", || format!("[evaluation error] {}", e).len());
                // the CLI exits here; a session (REPL, wasm) goes on: keep going
            }
        }
    }
    if full {
        let _ = ctx.guard("join_statements_with_spacing", || join_statements_with_spacing(&formatted_statements).len());
    }
    // write_outputs
    let _ = ctx.guard("write_outputs", || {
        let json_outputs: IndexMap<String, serde_json::Value> =
            outputs.iter().map(|(k, v)| (k.clone(), v.to_json())).collect();
        serde_json::to_string(&json_outputs).map(|s| s.len()).unwrap_or(0)
    });
    summary.push(format!("stmts={}", stmts));
    summary.push(format!("ok={}", ok));
    summary.push(format!("err={}", err));
    if outerr > 0 {
        summary.push(format!("outerr={}", outerr));
    }
    if !outputs.is_empty() {
        summary.push(format!("outputs={}", outputs.len()));
    }
    summary.push(format!("depth={}", maxdepth));
    if died {
        summary.push("died=1".into());
    }
    summary.join(",")
}

// ---------------------------------------------------------------- "S": sessions of several source texts
// Several DIFFERENT source texts are evaluated one after the other on ONE thread against one heap and one
// environment, the way the REPL (`accumulated_input` is cleared and refilled), the wasm bindings (a new string per
// call) and any embedding that reads programs in a loop do.  The same session is run under four placements of the
// text in memory:
//   session_reused     one buffer with enough capacity, `clear()` + `push_str()` per text (same address every time)
//   session_fresh      a fresh String per text, dropped after use (the allocator may hand the block out again)
//   session_separate   every text in its own String, all alive (no two texts ever share an address)  = reference
//   session_joined     all texts joined by a line feed, evaluated as one program
// Oracles, per reported error: the location lies inside the attached text on character boundaries
// (check_runtime_error_span); the attached text is the text being evaluated or an earlier text of the session
// (`foreign-source`; only without JSON inputs, whose functions carry their own text); message, location, attached
// text and rendered report are the same under reused / fresh / separate placement (`differs-from-separate-buffers`);
// and when the joined text has the same statements, every value, message and the text UNDER the location is the
// same as in the session (`differs-from-one-program`).
#[derive(Clone, PartialEq)]
struct SRec {
    kind: u8, // 0 value, 1 reported error, 2 parse reject, 3 panic
    val: String,
    located: bool,
    a: usize,
    b: usize,
    src: Option<String>,
    shown: String,
}

impl SRec {
    fn plain(kind: u8, val: String) -> SRec {
        SRec { kind, val, located: false, a: 0, b: 0, src: None, shown: String::new() }
    }
    fn snippet(&self) -> Option<&str> {
        match (&self.src, self.located) {
            (Some(s), true) if self.a <= self.b && self.b <= s.len() && s.is_char_boundary(self.a) && s.is_char_boundary(self.b) => {
                Some(&s[self.a..self.b])
            }
            _ => None,
        }
    }
}

fn session_text(ctx: &mut Ctx, stage: &str, text: &str, heap: &Rc<RefCell<Heap>>, env: &Rc<Environment>, values: bool) -> Vec<SRec> {
    let mut out: Vec<SRec> = Vec::new();
    let pairs = match ctx.guard(&format!("{}_parse", stage), || get_pairs(text)) {
        Some(Ok(p)) => p,
        Some(Err(e)) => {
            check_pest_error(ctx, text, &e);
            let (a, b) = match e.location {
                pest::error::InputLocation::Pos(p) => (p, p),
                pest::error::InputLocation::Span((a, b)) => (a, b),
            };
            let shown = ctx.guard(&format!("{}_parse_err_display", stage), || format!("{}", e)).unwrap_or_default();
            out.push(SRec { kind: 2, val: String::new(), located: true, a, b, src: None, shown });
            return out;
        }
        None => {
            out.push(SRec::plain(3, "parse".into()));
            return out;
        }
    };
    for pair in pairs {
        if pair.as_rule() != Rule::statement {
            continue;
        }
        let first = match pair.into_inner().next() {
            Some(p) => p,
            None => continue,
        };
        let rule = first.as_rule();
        if rule != Rule::expression && rule != Rule::output_declaration {
            continue;
        }
        let r = ctx.guard(stage, || evaluate_pairs(first.clone().into_inner(), Rc::clone(heap), Rc::clone(env), 0, text));
        match r {
            None => {
                out.push(SRec::plain(3, "evaluate".into()));
                return out; // like the pipeline: nothing is evaluated after a panic
            }
            Some(Ok(v)) => {
                let s = if values {
                    ctx.guard(&format!("{}_stringify", stage), || v.stringify_internal(&heap.borrow())).unwrap_or_default()
                } else {
                    String::new()
                };
                out.push(SRec::plain(0, s));
            }
            Some(Err(e)) => {
                check_runtime_error_span(ctx, stage, &e);
                let shown = ctx.guard(&format!("{}_error_display", stage), || format!("{}", e)).unwrap_or_default();
                check_report_shows_location(ctx, stage, &e, &shown);
                let (located, a, b) = match &e.span {
                    Some(s) => (true, s.start_byte, s.end_byte),
                    None => (false, 0, 0),
                };
                out.push(SRec { kind: 1, val: e.message.clone(), located, a, b, src: e.source.as_ref().map(|s| s.to_string()), shown });
            }
        }
    }
    out
}

fn session_run(ctx: &mut Ctx, stage: &str, texts: &[String], joined: &str, inputs_json: Option<&str>, placement: usize, values: bool) -> Vec<Vec<SRec>> {
    let heap = Rc::new(RefCell::new(Heap::new()));
    let env = Rc::new(Environment::new());
    let mut inputs_map: IndexMap<String, Value> = IndexMap::new();
    if let Some(js) = inputs_json {
        if let Ok(v) = serde_json::from_str::<serde_json::Value>(js) {
            let items: Vec<(String, serde_json::Value)> = match v {
                serde_json::Value::Object(obj) => obj.into_iter().collect(),
                other => vec![("value_1".to_string(), other)],
            };
            for (k, jv) in items.iter() {
                if let Some(ser) = ctx.guard("inputs_from_json", || SerializableValue::from_json(jv)) {
                    if let Some(Ok(val)) = ctx.guard("inputs_to_value", || ser.to_value(&mut heap.borrow_mut())) {
                        inputs_map.insert(k.clone(), val);
                    }
                }
            }
        }
    }
    let rec = heap.borrow_mut().insert_record(inputs_map);
    env.insert("inputs".to_string(), rec);

    let mut out: Vec<Vec<SRec>> = Vec::new();
    let dead = |o: &Vec<Vec<SRec>>| o.last().and_then(|v| v.last()).map(|r| r.kind == 3).unwrap_or(false);
    match placement {
        0 => {
            let cap = texts.iter().map(|t| t.len()).max().unwrap_or(0) + 64;
            let mut buffer = String::with_capacity(cap);
            for t in texts {
                buffer.clear();
                buffer.push_str(t);
                out.push(session_text(ctx, stage, &buffer, &heap, &env, values));
                if dead(&out) {
                    break;
                }
            }
        }
        1 => {
            for t in texts {
                let fresh = String::from(t.as_str());
                out.push(session_text(ctx, stage, &fresh, &heap, &env, values));
                drop(fresh);
                if dead(&out) {
                    break;
                }
            }
        }
        2 => {
            for t in texts {
                out.push(session_text(ctx, stage, t, &heap, &env, values));
                if dead(&out) {
                    break;
                }
            }
        }
        _ => out.push(session_text(ctx, stage, joined, &heap, &env, values)),
    }
    out
}

fn session_case(ctx: &mut Ctx, texts: &[String], inputs_json: Option<&str>) -> String {
    const NAMES: [&str; 4] = ["session_reused", "session_fresh", "session_separate", "session_joined"];
    let values = !texts.iter().any(|t| t.contains("time_now"));
    let joined = texts.join("\n");
    let mut runs: Vec<Vec<Vec<SRec>>> = Vec::new();
    for p in 0..4 {
        runs.push(session_run(ctx, NAMES[p], texts, &joined, inputs_json, p, values));
    }
    let event = |ctx: &mut Ctx, stage: &str, r: Option<&SRec>, why: &str, i: usize, k: usize| {
        let (a, b, len) = match r {
            Some(r) => (r.a, r.b, r.src.as_ref().map(|s| s.len()).unwrap_or(0)),
            None => (0, 0, 0),
        };
        ctx.events.push(format!("SPAN/{}/{}-{}/{}/{}/text{}.stmt{}", stage, a, b, len, why, i, k));
    };

    // ---- the attached text is one of the texts it can refer to
    if inputs_json.is_none() {
        for p in 0..4 {
            'placement: for (i, recs) in runs[p].iter().enumerate() {
                for (k, r) in recs.iter().enumerate() {
                    if let (1, Some(s)) = (r.kind, &r.src) {
                        let fine = if p == 3 { *s == joined } else { texts[..=i.min(texts.len() - 1)].iter().any(|t| t == s) };
                        if !fine {
                            event(ctx, NAMES[p], Some(r), "foreign-source", i, k);
                            break 'placement;
                        }
                    }
                }
            }
        }
    }
    // ---- placement invariance
    for p in 0..2 {
        if runs[p] == runs[2] {
            continue;
        }
        let mut found = false;
        for i in 0..runs[p].len().max(runs[2].len()) {
            let (x, y) = (runs[p].get(i), runs[2].get(i));
            let n = x.map(|v| v.len()).unwrap_or(0).max(y.map(|v| v.len()).unwrap_or(0));
            for k in 0..n {
                let (rx, ry) = (x.and_then(|v| v.get(k)), y.and_then(|v| v.get(k)));
                if rx != ry {
                    event(ctx, NAMES[p], rx.or(ry), "differs-from-separate-buffers", i, k);
                    found = true;
                    break;
                }
            }
            if found {
                break;
            }
        }
    }
    // ---- one program = the session, when the joined text has the same statements
    let flat: Vec<&SRec> = runs[2].iter().flat_map(|v| v.iter()).collect();
    let rejects = flat.iter().filter(|r| r.kind == 2).count();
    let one = &runs[3][0];
    let joined_cmp = if rejects == 0 && flat.len() == one.len() && !one.iter().any(|r| r.kind == 2) {
        for (k, (x, y)) in flat.iter().zip(one.iter()).enumerate() {
            if x.kind != y.kind || x.val != y.val || x.located != y.located || x.snippet() != y.snippet() {
                event(ctx, NAMES[3], Some(y), "differs-from-one-program", 0, k);
                break;
            }
        }
        "cmp"
    } else {
        "skip"
    };

    // ---- what the session reached (reference placement)
    let first_len = texts.first().map(|t| t.len()).unwrap_or(0);
    let (mut ok, mut err, mut located, mut earlier, mut beyond_first, mut within_first, mut panics) = (0, 0, 0, 0, 0, 0, 0);
    for (i, recs) in runs[2].iter().enumerate() {
        for r in recs {
            match r.kind {
                0 => ok += 1,
                1 => {
                    err += 1;
                    if r.located {
                        located += 1;
                        if i > 0 {
                            if r.b > first_len {
                                beyond_first += 1;
                            } else {
                                within_first += 1;
                            }
                        }
                        if let Some(s) = &r.src {
                            if i < texts.len() && *s != texts[i] {
                                earlier += 1;
                            }
                        }
                    }
                }
                3 => panics += 1,
                _ => {}
            }
        }
    }
    format!(
        "parse={},texts={},stmts={},ok={},err={},located={},later_beyond_first={},later_within_first={},earlier_text={},panics={},joined={}",
        if rejects == 0 { "ok" } else { "reject" },
        texts.len(),
        flat.len() - rejects,
        ok,
        err,
        located,
        beyond_first,
        within_first,
        earlier,
        panics,
        joined_cmp
    )
}

/// colour escape sequences (`ESC [ ... letter`) removed
fn strip_ansi(text: &str) -> String {
    let mut out = String::new();
    let mut chars = text.chars();
    while let Some(c) = chars.next() {
        if c == '\u{1b}' {
            for d in chars.by_ref() {
                if d.is_ascii_alphabetic() {
                    break;
                }
            }
        } else {
            out.push(c);
        }
    }
    out
}

/// The rendered report of an error with a (valid, non-empty) location shows the source line the location starts in.
/// A report that silently loses its snippet, or shows another line, refers to a place outside / elsewhere in the text.
/// why = report-omits-located-line            the attached text is ASCII up to the end of the location
///       report-omits-located-line-nonascii   there are multi-byte characters at or before the location
fn check_report_shows_location(ctx: &mut Ctx, stage: &str, e: &RuntimeError, shown: &str) {
    const BREAKS: [char; 7] = ['\n', '\r', '\u{b}', '\u{c}', '\u{85}', '\u{2028}', '\u{2029}'];
    let (span, source) = match (&e.span, &e.source) {
        (Some(sp), Some(so)) => (sp, so),
        _ => return,
    };
    let (a, b) = (span.start_byte, span.end_byte);
    if !(a < b && b <= source.len() && source.is_char_boundary(a) && source.is_char_boundary(b)) || shown.is_empty() {
        return;
    }
    let start = source[..a].char_indices().rev().find(|(_, c)| BREAKS.contains(c)).map(|(i, c)| i + c.len_utf8()).unwrap_or(0);
    let end = source[a..].find(|c: char| BREAKS.contains(&c)).map(|i| a + i).unwrap_or(source.len());
    let line = &source[start..end];
    let want = line.trim_end();
    if line.contains('\t') || want.trim().is_empty() {
        return;
    }
    if !strip_ansi(shown).contains(want) {
        let why = if source[..b].is_ascii() { "report-omits-located-line" } else { "report-omits-located-line-nonascii" };
        ctx.span_event(stage, a, b, source.len(), why);
    }
}
