// C01 crash-search stream: every stage a user can invoke, each under its own catch_unwind, on
// a thread whose stack is sized like the CLI's interpreter thread.
//
//   c01   line:  KIND TAB hex(a) [TAB hex(b) [TAB hex(c)]]
//     P  a = source text, b = inputs JSON text (optional)      full pipeline
//     E  a = source text, b = inputs JSON text (optional)      parse + evaluate + render + serialise
//     U  a = from-unit, b = to-unit, c = 16 hex digits (f64)   units::convert
//   output: "<summary>;EV:<event>|<event>..."  (EV part absent when there is no event)
//     summary  comma separated key=value counters (parse=ok|reject, stmts, ok, err, depth, ...)
//     event    PANIC/<stage>/<hex(message @ file:line)>   a panic caught in that stage
//              SPAN/<stage>/<start>-<end>/<len>/<why>      an error location outside its text
//
// Crash journal: when C01_JOURNAL names a file, "B <n>" is appended (unbuffered) before a case
// runs and "E <n> <result>" after it, so a case that kills the process (abort, stack overflow,
// allocation failure, timeout kill) is identified exactly.
use crate::show::*;
use blots_core::ast::{Expr, RecordKey, Spanned, SpannedExpr};
use blots_core::ast_to_source::expr_to_source;
use blots_core::environment::Environment;
use blots_core::error::RuntimeError;
use blots_core::expressions::{evaluate_pairs, pairs_to_expr, pairs_to_expr_with_comments, validate_portable_value};
use blots_core::formatter::{format_expr, join_statements_with_spacing};
use blots_core::heap::Heap;
use blots_core::parser::{get_pairs, Rule};
use blots_core::values::{SerializableValue, Value};
use indexmap::IndexMap;
use std::cell::RefCell;
use std::io::Write;
use std::panic::{catch_unwind, AssertUnwindSafe};
use std::rc::Rc;
use std::sync::{Mutex, Once};

pub fn oneshot(_sub: &str, _rest: &[String]) -> Option<String> {
    None
}

pub fn dispatch(sub: &str, _rest: &[String], line: &str) -> Option<String> {
    match sub {
        "c01" => Some(run_case(line)),
        _ => None,
    }
}

// ---------------------------------------------------------------- panic capture
thread_local! {
    static LAST_PANIC: RefCell<Option<String>> = const { RefCell::new(None) };
}
static HOOK: Once = Once::new();

fn install_hook() {
    HOOK.call_once(|| {
        std::panic::set_hook(Box::new(|info| {
            let msg = if let Some(s) = info.payload().downcast_ref::<&str>() {
                s.to_string()
            } else if let Some(s) = info.payload().downcast_ref::<String>() {
                s.clone()
            } else {
                "?".to_string()
            };
            let loc = info
                .location()
                .map(|l| format!("{}:{}", l.file(), l.line()))
                .unwrap_or_else(|| "?".into());
            LAST_PANIC.with(|c| *c.borrow_mut() = Some(format!("{} @ {}", msg, loc)));
        }));
    });
}

struct Ctx {
    events: Vec<String>,
}

impl Ctx {
    /// run one stage; a panic becomes an event and None
    fn guard<T>(&mut self, stage: &str, f: impl FnOnce() -> T) -> Option<T> {
        journal(&format!("S {}\n", stage));
        LAST_PANIC.with(|c| *c.borrow_mut() = None);
        match catch_unwind(AssertUnwindSafe(f)) {
            Ok(v) => Some(v),
            Err(_) => {
                let m = LAST_PANIC.with(|c| c.borrow_mut().take()).unwrap_or_else(|| "?".into());
                self.events.push(format!("PANIC/{}/{}", stage, hex(m.as_bytes())));
                None
            }
        }
    }
    fn span_event(&mut self, stage: &str, start: usize, end: usize, len: usize, why: &str) {
        self.events.push(format!("SPAN/{}/{}-{}/{}/{}", stage, start, end, len, why));
    }
}

// ---------------------------------------------------------------- journal
static JOURNAL: Mutex<Option<std::fs::File>> = Mutex::new(None);
static JOURNAL_INIT: Once = Once::new();
static COUNTER: Mutex<u64> = Mutex::new(0);

fn journal(text: &str) {
    JOURNAL_INIT.call_once(|| {
        if let Ok(p) = std::env::var("C01_JOURNAL") {
            if let Ok(f) = std::fs::OpenOptions::new().create(true).append(true).open(p) {
                *JOURNAL.lock().unwrap() = Some(f);
            }
        }
    });
    if let Ok(mut g) = JOURNAL.lock() {
        if let Some(f) = g.as_mut() {
            let _ = f.write_all(text.as_bytes());
        }
    }
}

fn run_case(line: &str) -> String {
    install_hook();
    let n = {
        let mut c = COUNTER.lock().unwrap();
        *c += 1;
        *c
    };
    journal(&format!("B {}\n", n));
    let stack_mb: usize = std::env::var("C01_STACK_MB").ok().and_then(|s| s.parse().ok()).unwrap_or(1024);
    let owned = line.to_string();
    let handle = std::thread::Builder::new()
        .name("c01".into())
        .stack_size(stack_mb << 20)
        .spawn(move || case_body(&owned));
    let out = match handle {
        Ok(h) => match h.join() {
            Ok(s) => s,
            Err(_) => "escaped;EV:PANIC/escaped/".to_string(),
        },
        Err(_) => "nothread".to_string(),
    };
    journal(&format!("E {} {}\n", n, out));
    out
}

fn text_of(h: &str) -> Option<String> {
    String::from_utf8(unhex(h)).ok()
}

fn case_body(line: &str) -> String {
    let parts: Vec<&str> = line.split('\t').collect();
    if parts.is_empty() {
        return "badline".into();
    }
    let mut ctx = Ctx { events: Vec::new() };
    let summary = match parts[0] {
        // "PB" / "EB": the same with a bare Environment (no `inputs` binding), as a library user or a
        // test of blots-core creates it; every shipped driver binds `inputs` first
        "P" | "E" | "PB" | "EB" => {
            let src = match parts.get(1).and_then(|h| text_of(h)) {
                Some(s) => s,
                None => return "badutf8".into(),
            };
            let inputs = parts.get(2).and_then(|h| text_of(h));
            pipeline(&mut ctx, &src, inputs.as_deref(), parts[0].starts_with('P'), parts[0].ends_with('B'))
        }
        "U" => {
            let from = parts.get(1).and_then(|h| text_of(h)).unwrap_or_default();
            let to = parts.get(2).and_then(|h| text_of(h)).unwrap_or_default();
            let bits = parts.get(3).and_then(|h| u64::from_str_radix(h, 16).ok()).unwrap_or(0);
            let x = f64::from_bits(bits);
            match ctx.guard("convert", || blots_core::units::convert(x, &from, &to)) {
                Some(Ok(v)) => {
                    let _ = ctx.guard("convert_display", || blots_core::values::format_display_number(v));
                    "convert=ok".to_string()
                }
                Some(Err(e)) => {
                    let _ = ctx.guard("convert_err_display", || e.to_string());
                    "convert=err".to_string()
                }
                None => "convert=panic".to_string(),
            }
        }
        _ => "badkind".into(),
    };
    if ctx.events.is_empty() {
        summary
    } else {
        format!("{};EV:{}", summary, ctx.events.join("|"))
    }
}

// ---------------------------------------------------------------- AST nesting depth
fn depth(e: &SpannedExpr) -> usize {
    1 + match &e.node {
        Expr::Number(_) | Expr::String(_) | Expr::Bool(_) | Expr::Null | Expr::Identifier(_)
        | Expr::InputReference(_) | Expr::BuiltIn(_) => 0,
        Expr::List(items) => items.iter().map(|c| depth(&c.node)).max().unwrap_or(0),
        Expr::Record(entries) => entries
            .iter()
            .map(|c| {
                let k = match &c.node.key {
                    RecordKey::Dynamic(x) | RecordKey::Spread(x) => depth(x),
                    _ => 0,
                };
                k.max(depth(&c.node.value))
            })
            .max()
            .unwrap_or(0),
        Expr::Lambda { body, .. } => depth(body),
        Expr::Conditional { condition, then_expr, else_expr } => {
            depth(condition).max(depth(then_expr)).max(depth(else_expr))
        }
        Expr::DoBlock { statements, return_expr } => statements
            .iter()
            .map(|c| depth(&c.node))
            .max()
            .unwrap_or(0)
            .max(depth(&return_expr.node)),
        Expr::Assignment { value, .. } => depth(value),
        Expr::Output { expr } => depth(expr),
        Expr::Call { func, args } => args.iter().map(depth).max().unwrap_or(0).max(depth(func)),
        Expr::Access { expr, index } => depth(expr).max(depth(index)),
        Expr::DotAccess { expr, .. } => depth(expr),
        Expr::BinaryOp { left, right, .. } => depth(left).max(depth(right)),
        Expr::UnaryOp { expr, .. } => depth(expr),
        Expr::PostfixOp { expr, .. } => depth(expr),
        Expr::Spread(x) => depth(x),
    }
}

// ---------------------------------------------------------------- span checks
fn check_runtime_error_span(ctx: &mut Ctx, stage: &str, e: &RuntimeError) {
    if let (Some(span), Some(source)) = (&e.span, &e.source) {
        let len = source.len();
        let (a, b) = (span.start_byte, span.end_byte);
        if a > b {
            ctx.span_event(stage, a, b, len, "start>end");
        } else if b > len {
            ctx.span_event(stage, a, b, len, if len == 0 { "empty-source" } else { "end>len" });
        } else if !source.is_char_boundary(a) || !source.is_char_boundary(b) {
            ctx.span_event(stage, a, b, len, "not-char-boundary");
        }
    }
}

fn check_pest_error(ctx: &mut Ctx, src: &str, e: &pest::error::Error<Rule>) {
    let len = src.len();
    let (a, b) = match e.location {
        pest::error::InputLocation::Pos(p) => (p, p),
        pest::error::InputLocation::Span((a, b)) => (a, b),
    };
    if a > b {
        ctx.span_event("parse", a, b, len, "start>end");
    } else if b > len {
        ctx.span_event("parse", a, b, len, "end>len");
    } else if !src.is_char_boundary(a) || !src.is_char_boundary(b) {
        ctx.span_event("parse", a, b, len, "not-char-boundary");
    }
}

// ---------------------------------------------------------------- rendering / serialising a value
fn render_value(ctx: &mut Ctx, stage: &str, v: &Value, heap: &Rc<RefCell<Heap>>) {
    let _ = ctx.guard(&format!("{}_stringify_internal", stage), || v.stringify_internal(&heap.borrow()).len());
    let _ = ctx.guard(&format!("{}_stringify_external", stage), || v.stringify_external(&heap.borrow()).len());
    let _ = ctx.guard(&format!("{}_stringify_display", stage), || v.stringify_for_display(&heap.borrow()).len());
}

/// to_serializable_value + to_json + serde_json text; when `reload`, the text is read back
/// (from_json + to_value) the way a later run would take it as an input
fn serialise_value(ctx: &mut Ctx, stage: &str, v: &Value, heap: &Rc<RefCell<Heap>>, reload: bool) -> Option<SerializableValue> {
    let ser = ctx.guard(&format!("{}_to_serializable", stage), || v.to_serializable_value(&heap.borrow()));
    let ser = match ser {
        Some(Ok(s)) => s,
        _ => return None,
    };
    let json = ctx.guard(&format!("{}_to_json", stage), || ser.to_json());
    if let Some(j) = json {
        let text = ctx.guard(&format!("{}_json_text", stage), || serde_json::to_string(&j));
        if reload {
            if let Some(Ok(t)) = text {
                let back = ctx.guard(&format!("{}_reload_parse", stage), || serde_json::from_str::<serde_json::Value>(&t));
                if let Some(Ok(bj)) = back {
                    let s2 = ctx.guard(&format!("{}_reload_from_json", stage), || SerializableValue::from_json(&bj));
                    if let Some(s2) = s2 {
                        let _ = ctx.guard(&format!("{}_reload_to_value", stage), || s2.to_value(&mut heap.borrow_mut()).is_ok());
                    }
                }
            }
        }
    }
    Some(ser)
}

// ---------------------------------------------------------------- the pipeline
const WIDTHS: [Option<usize>; 7] = [None, Some(1), Some(8), Some(20), Some(40), Some(80), Some(200)];

fn pipeline(ctx: &mut Ctx, src: &str, inputs_json: Option<&str>, full: bool, bare: bool) -> String {
    let heap = Rc::new(RefCell::new(Heap::new()));
    let bindings = Rc::new(Environment::new());
    let mut summary: Vec<String> = Vec::new();

    // ---- inputs: what blots/src/main.rs::parse_json_inputs does
    let mut inputs_map: IndexMap<String, Value> = IndexMap::new();
    if let Some(js) = inputs_json {
        match ctx.guard("inputs_json_parse", || serde_json::from_str::<serde_json::Value>(js)) {
            Some(Ok(v)) => {
                let items: Vec<(String, serde_json::Value)> = match v {
                    serde_json::Value::Object(obj) => obj.into_iter().collect(),
                    other => vec![("value_1".to_string(), other)],
                };
                let mut loaded = 0;
                for (k, jv) in items.iter() {
                    let ser = ctx.guard("inputs_from_json", || SerializableValue::from_json(jv));
                    if let Some(ser) = ser {
                        let val = ctx.guard("inputs_to_value", || ser.to_value(&mut heap.borrow_mut()));
                        if let Some(Ok(val)) = val {
                            loaded += 1;
                            render_value(ctx, "inputs", &val, &heap);
                            let _ = serialise_value(ctx, "inputs", &val, &heap, false);
                            inputs_map.insert(k.clone(), val);
                        }
                    }
                }
                summary.push(format!("inputs={}/{}", loaded, items.len()));
            }
            Some(Err(_)) => summary.push("inputs=badjson".into()),
            None => summary.push("inputs=panic".into()),
        }
    }
    if !bare {
        let rec = heap.borrow_mut().insert_record(inputs_map);
        bindings.insert("inputs".to_string(), rec);
    }

    // ---- parse
    let pairs = match ctx.guard("parse", || get_pairs(src)) {
        Some(Ok(p)) => p,
        Some(Err(e)) => {
            check_pest_error(ctx, src, &e);
            let _ = ctx.guard("parse_err_display", || format!("Parse error: {}", e).len());
            summary.push("parse=reject".into());
            return summary.join(",");
        }
        None => {
            summary.push("parse=panic".into());
            return summary.join(",");
        }
    };
    summary.push("parse=ok".into());

    let mut stmts = 0usize;
    let mut ok = 0usize;
    let mut err = 0usize;
    let mut outerr = 0usize;
    let mut maxdepth = 0usize;
    let mut died = false;
    let mut formatted_statements: Vec<(String, usize, usize)> = Vec::new();
    let mut outputs: IndexMap<String, SerializableValue> = IndexMap::new();

    for pair in pairs {
        if pair.as_rule() != Rule::statement {
            continue;
        }
        let start_line = pair.as_span().start_pos().line_col().0;
        let end_line = pair.as_span().end_pos().line_col().0;
        let mut inner = pair.into_inner();
        let first = match inner.next() {
            Some(p) => p,
            None => continue,
        };
        let eol_comment = inner.next();
        let rule = first.as_rule();
        if rule == Rule::comment {
            formatted_statements.push((first.as_str().to_string(), start_line, end_line));
            continue;
        }
        if rule != Rule::expression && rule != Rule::output_declaration {
            ctx.events.push(format!("PANIC/main_unreachable/{}", hex(format!("unexpected rule: {:?}", rule).as_bytes())));
            continue;
        }
        stmts += 1;

        // ---- AST (both comment modes)
        let ast = ctx.guard("pairs_to_expr", || pairs_to_expr(first.clone().into_inner()));
        let astc = ctx.guard("pairs_to_expr_with_comments", || pairs_to_expr_with_comments(first.clone().into_inner()));
        if let Some(Ok(e)) = &ast {
            let d = ctx.guard("depth", || depth(e)).unwrap_or(0);
            maxdepth = maxdepth.max(d);
        }

        // ---- print / format
        if full {
            if let Some(Ok(e)) = &ast {
                if let Some(text) = ctx.guard("expr_to_source", || expr_to_source(e)) {
                    // the printed text is itself an input of the parser (function reload path)
                    let _ = ctx.guard("reparse_printed", || match get_pairs(&text) {
                        Ok(mut p) => p.next().map(|s| pairs_to_expr(s.into_inner()).is_ok()),
                        Err(_) => None,
                    });
                }
            }
            if let Some(Ok(e)) = &astc {
                let target: SpannedExpr = if rule == Rule::output_declaration {
                    Spanned::dummy(Expr::Output { expr: Box::new(e.clone()) })
                } else {
                    e.clone()
                };
                let mut at80: Option<String> = None;
                for w in WIDTHS.iter() {
                    let stage = match w {
                        None => "format_expr_none".to_string(),
                        Some(n) => format!("format_expr_{}", n),
                    };
                    if let Some(t) = ctx.guard(&stage, || format_expr(&target, *w)) {
                        if *w == Some(8) || *w == Some(80) {
                            let _ = ctx.guard("reparse_formatted", || get_pairs(&t).is_ok());
                        }
                        if *w == Some(80) {
                            at80 = Some(t);
                        }
                    }
                }
                if let Some(t) = at80 {
                    let fin = match &eol_comment {
                        Some(c) if c.as_rule() == Rule::comment => format!("{}  {}", t, c.as_str()),
                        _ => t,
                    };
                    formatted_statements.push((fin, start_line, end_line));
                }
            }
        }

        // ---- evaluate (the loop of blots/src/main.rs::evaluate_source)
        if died {
            continue;
        }
        let r = ctx.guard("evaluate", || {
            evaluate_pairs(first.clone().into_inner(), Rc::clone(&heap), Rc::clone(&bindings), 0, src)
        });
        let r = match r {
            Some(r) => r,
            None => {
                died = true;
                continue;
            }
        };
        if rule == Rule::output_declaration {
            for p in first.clone().into_inner() {
                match p.as_rule() {
                    Rule::identifier => {
                        let ident = p.as_str();
                        if let Some(value) = bindings.get(ident) {
                            let v = ctx.guard("validate_portable_value", || {
                                validate_portable_value(&value, &heap.borrow(), &bindings).is_err()
                            });
                            match v {
                                Some(true) => outerr += 1,
                                Some(false) => {
                                    if let Some(ser) = serialise_value(ctx, "output", &value, &heap, full) {
                                        outputs.insert(ident.to_string(), ser);
                                    }
                                }
                                None => {}
                            }
                        }
                        break;
                    }
                    Rule::assignment => {
                        if let Some(ip) = p.into_inner().next() {
                            let ident = ip.as_str();
                            if let Ok(value) = &r {
                                let v = ctx.guard("validate_portable_value", || {
                                    validate_portable_value(value, &heap.borrow(), &bindings).is_err()
                                });
                                match v {
                                    Some(true) => outerr += 1,
                                    Some(false) => {
                                        if let Some(ser) = serialise_value(ctx, "output", value, &heap, full) {
                                            outputs.insert(ident.to_string(), ser);
                                        }
                                    }
                                    None => {}
                                }
                            }
                        }
                        break;
                    }
                    _ => {}
                }
            }
        }
        match r {
            Ok(v) => {
                ok += 1;
                render_value(ctx, "value", &v, &heap);
                // every value can be asked for as JSON (REPL / wasm `evaluate` serialise results)
                let _ = serialise_value(ctx, "value", &v, &heap, false);
            }
            Err(e) => {
                err += 1;
                check_runtime_error_span(ctx, "evaluate", &e);
                let _ = ctx.guard("runtime_error_display", || format!("[evaluation error] {}", e).len());
                // the CLI exits here; a session (REPL, wasm) goes on: keep going
            }
        }
    }
    if full {
        let _ = ctx.guard("join_statements_with_spacing", || join_statements_with_spacing(&formatted_statements).len());
    }
    // write_outputs
    let _ = ctx.guard("write_outputs", || {
        let json_outputs: IndexMap<String, serde_json::Value> =
            outputs.iter().map(|(k, v)| (k.clone(), v.to_json())).collect();
        serde_json::to_string(&json_outputs).map(|s| s.len()).unwrap_or(0)
    });
    summary.push(format!("stmts={}", stmts));
    summary.push(format!("ok={}", ok));
    summary.push(format!("err={}", err));
    if outerr > 0 {
        summary.push(format!("outerr={}", outerr));
    }
    if !outputs.is_empty() {
        summary.push(format!("outputs={}", outputs.len()));
    }
    summary.push(format!("depth={}", maxdepth));
    if died {
        summary.push("died=1".into());
    }
    summary.join(",")
}
