// C17 streams: the unit table dumped from the built crate, and units::convert / the
// `convert` built-in / resolve_unit / str::to_lowercase run on supplied inputs.
use crate::show::{hex, num_bits, unhex};
use blots_core::environment::Environment;
use blots_core::functions::BuiltInFunction;
use blots_core::heap::Heap;
use blots_core::units::{self, ConversionType, Unit};
use blots_core::values::Value;
use std::cell::RefCell;
use std::collections::BTreeSet;
use std::rc::Rc;

pub fn oneshot(sub: &str, _rest: &[String]) -> Option<String> {
    match sub {
        "dump-units" => Some(dump_units()),
        _ => None,
    }
}

pub fn dispatch(sub: &str, rest: &[String], line: &str) -> Option<String> {
    match sub {
        "units" => Some(units_line(line, rest.iter().any(|a| a == "--builtin"))),
        "units-resolve" => Some(resolve_line(line)),
        "units-lower" => Some(lower_line(line)),
        "units-builtin" => Some(builtin_line(line)),
        _ => None,
    }
}

/// Probe points for the temperature function pointers (the functions are private to
/// units.rs; the dump identifies each by its values and Coq re-validates them pointwise).
const PROBES: [f64; 12] = [
    0.0, 1.0, -40.0, 32.0, 100.0, 273.15, 255.37222222222223, 373.15, -273.15, -459.67, 1e-12, 123456.789,
];

fn hexlist<'a>(it: impl Iterator<Item = &'a str>) -> String {
    it.map(|s| hex(s.as_bytes())).collect::<Vec<_>>().join(",")
}

/// U <idx> <category Debug> <hex category name()> <kind> <coef bits> <coef Display> <ids> <lowered ids> <to probes> <from probes>
/// C <hex char> <hex lower> <hex upper>     for every non-ASCII char occurring in an identifier, its
///                                          lower/upper images, and their images in turn
/// P <probe bits,...>
fn dump_units() -> String {
    let mut s = String::new();
    s.push_str(&format!(
        "P\t{}\n",
        PROBES.iter().map(|x| num_bits(*x)).collect::<Vec<_>>().join(",")
    ));
    let mut chars: BTreeSet<char> = BTreeSet::new();
    for (i, u) in units::get_all_units().iter().enumerate() {
        let lowered: Vec<String> = u.identifiers.iter().map(|x| x.to_lowercase()).collect();
        for id in u.identifiers.iter() {
            for ch in id.chars() {
                if !ch.is_ascii() {
                    chars.insert(ch);
                }
            }
        }
        let (kind, bits, disp, tp, fp) = match &u.conversion {
            ConversionType::Linear { coefficient } => (
                "linear",
                num_bits(*coefficient),
                format!("{}", coefficient),
                String::new(),
                String::new(),
            ),
            ConversionType::Reciprocal { coefficient } => (
                "reciprocal",
                num_bits(*coefficient),
                format!("{}", coefficient),
                String::new(),
                String::new(),
            ),
            ConversionType::Temperature { to_kelvin, from_kelvin } => (
                "temperature",
                "-".to_string(),
                "-".to_string(),
                PROBES.iter().map(|x| num_bits(to_kelvin(*x))).collect::<Vec<_>>().join(","),
                PROBES.iter().map(|x| num_bits(from_kelvin(*x))).collect::<Vec<_>>().join(","),
            ),
        };
        s.push_str(&format!(
            "U\t{}\t{:?}\t{}\t{}\t{}\t{}\t{}\t{}\t{}\t{}\n",
            i,
            u.category,
            hex(u.category.name().as_bytes()),
            kind,
            bits,
            disp,
            hexlist(u.identifiers.iter().copied()),
            hexlist(lowered.iter().map(|x| x.as_str())),
            tp,
            fp
        ));
    }
    // close the character set under to_lowercase / to_uppercase (two rounds are enough for
    // the simple mappings; multi-char expansions are recorded as strings)
    for _ in 0..3 {
        let mut more: BTreeSet<char> = BTreeSet::new();
        for ch in chars.iter() {
            for c2 in ch.to_lowercase().chain(ch.to_uppercase()) {
                if !c2.is_ascii() {
                    more.insert(c2);
                }
            }
        }
        chars.extend(more);
    }
    for ch in chars.iter() {
        let st = ch.to_string();
        s.push_str(&format!(
            "C\t{}\t{}\t{}\n",
            hex(st.as_bytes()),
            hex(st.to_lowercase().as_bytes()),
            hex(st.to_uppercase().as_bytes())
        ));
    }
    s
}

fn err_class(msg: &str) -> &'static str {
    if msg.starts_with("Unknown unit") {
        "ERR:unknown"
    } else if msg.starts_with("Ambiguous unit") {
        if msg.contains("try a more specific name") {
            "ERR:ambig-exact"
        } else {
            "ERR:ambig-case"
        }
    } else if msg.starts_with("Cannot convert") {
        "ERR:category"
    } else {
        "ERR:other"
    }
}

fn parse_bits(s: &str) -> Option<f64> {
    u64::from_str_radix(s, 16).ok().map(f64::from_bits)
}

fn show_conv(r: anyhow::Result<f64>) -> String {
    match r {
        Ok(x) => format!("OK:{}", num_bits(x)),
        Err(e) => err_class(&e.to_string()).to_string(),
    }
}

fn call_builtin(args: Vec<Value>, heap: Rc<RefCell<Heap>>) -> String {
    let bindings = Rc::new(Environment::new());
    match BuiltInFunction::Convert.call(args, heap.clone(), bindings, 0, "") {
        Ok(Value::Number(x)) => format!("OK:{}", num_bits(x)),
        Ok(_) => "OK:?nonnumber".to_string(),
        Err(e) => {
            let c = err_class(&e.message);
            if c == "ERR:other" { "ERR:type".to_string() } else { c.to_string() }
        }
    }
}

/// UNITS: hex(from) TAB hex(to) TAB bits,bits,...  ->  one result per magnitude joined by ','.
/// Each result is what units::convert returns; with --builtin the `convert` built-in is called
/// too and must give the same answer (otherwise the result is `DIFF(direct|builtin)`).
fn units_line(line: &str, builtin: bool) -> String {
    let parts: Vec<&str> = line.split('\t').collect();
    if parts.len() != 3 {
        return "BADLINE".into();
    }
    let from = match String::from_utf8(unhex(parts[0])) {
        Ok(s) => s,
        Err(_) => return "BADUTF8".into(),
    };
    let to = match String::from_utf8(unhex(parts[1])) {
        Ok(s) => s,
        Err(_) => return "BADUTF8".into(),
    };
    let mut outs = Vec::new();
    for b in parts[2].split(',') {
        let v = match parse_bits(b) {
            Some(v) => v,
            None => return "BADBITS".into(),
        };
        let direct = show_conv(units::convert(v, &from, &to));
        if builtin {
            let heap = Rc::new(RefCell::new(Heap::new()));
            let f = heap.borrow_mut().insert_string(from.clone());
            let t = heap.borrow_mut().insert_string(to.clone());
            let via = call_builtin(vec![Value::Number(v), f, t], heap);
            if via != direct {
                outs.push(format!("DIFF({}|{})", direct, via));
                continue;
            }
        }
        outs.push(direct);
    }
    outs.join(",")
}

fn unit_index(u: &Unit) -> String {
    // position of the resolved unit in get_all_units(), found by identifier-list identity
    let all = units::get_all_units();
    let hits: Vec<usize> = all
        .iter()
        .enumerate()
        .filter(|(_, x)| x.identifiers == u.identifiers && x.category == u.category)
        .map(|(i, _)| i)
        .collect();
    if hits.len() == 1 { format!("OK:{}", hits[0]) } else { format!("OK:?{}", hits.len()) }
}

/// hex(identifier) -> OK:<index in get_all_units()> | ERR:<class> ; then `|` find_unit agrees (1/0)
fn resolve_line(line: &str) -> String {
    let id = match String::from_utf8(unhex(line.trim())) {
        Ok(s) => s,
        Err(_) => return "BADUTF8".into(),
    };
    let r = units::resolve_unit(&id);
    let f = units::find_unit(&id);
    let agree = r.is_ok() == f.is_some();
    let s = match r {
        Ok(u) => unit_index(&u),
        Err(e) => err_class(&e.to_string()).to_string(),
    };
    format!("{}|{}", s, if agree { 1 } else { 0 })
}

fn lower_line(line: &str) -> String {
    match String::from_utf8(unhex(line.trim())) {
        Ok(s) => hex(s.to_lowercase().as_bytes()),
        Err(_) => "BADUTF8".into(),
    }
}

/// units-builtin: three argument descriptors separated by TAB, each `N<bits>` | `S<hex>` | `B0|B1` | `U`
fn builtin_line(line: &str) -> String {
    let heap = Rc::new(RefCell::new(Heap::new()));
    let mut args = Vec::new();
    for p in line.split('\t') {
        let v = if let Some(b) = p.strip_prefix('N') {
            match parse_bits(b) {
                Some(x) => Value::Number(x),
                None => return "BADBITS".into(),
            }
        } else if let Some(h) = p.strip_prefix('S') {
            match String::from_utf8(unhex(h)) {
                Ok(s) => heap.borrow_mut().insert_string(s),
                Err(_) => return "BADUTF8".into(),
            }
        } else if p == "B1" {
            Value::Bool(true)
        } else if p == "B0" {
            Value::Bool(false)
        } else if p == "U" {
            Value::Null
        } else {
            return "BADLINE".into();
        };
        args.push(v);
    }
    if args.len() != 3 {
        return "BADLINE".into();
    }
    call_builtin(args, heap)
}
