// Stream modules src/s_*.rs are registered automatically by build.rs.
include!(concat!(env!("OUT_DIR"), "/mods.rs"));
pub fn oneshot(sub: &str, rest: &[String]) -> Option<String> {
    auto_oneshot(sub, rest)
}
pub fn dispatch(sub: &str, rest: &[String], line: &str) -> Option<String> {
    auto_dispatch(sub, rest, line)
}
