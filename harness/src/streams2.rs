// Further streams (added per property).
pub fn oneshot(_sub: &str, _rest: &[String]) -> Option<String> {
    None
}
pub fn dispatch(_sub: &str, _rest: &[String], _line: &str) -> Option<String> {
    None
}
