"""Generators for property C07 (the formatter preserves program meaning).

Sources are written FULLY parenthesised (every non-atomic operand in parentheses): the parser drops
parentheses (expressions.rs: Rule::expression => recursive call), so the parsed tree is exactly the
intended one, for every parent/child combination, and the printer has to re-derive the parentheses.

  exhaustive(depth)   every context (parent kind with one hole, all 26 binary operators on both
                      sides, prefix, postfix, call, index, field, conditional, lambda, assignment,
                      do-block, list, record, spread) nested `depth-1` times around every depth-1 child
  random_tree(rng)    random deeper trees over the same kinds, literals incl. quotes / backslashes
  random_program(rng) several statements with comments, blank lines, outputs
"""

BINOPS = ["+", "-", "*", "/", "%", "^", "==", "!=", "<", "<=", ">", ">=",
          ".==", ".!=", ".<", ".<=", ".>", ".>=", "&&", "and", "||", "or", "via", "into", "where", "??"]

ATOMS = ["a", "1", '"s"', "true", "null", "#i", "max"]


def P(s, atomic=False):
    return s if atomic else "(" + s + ")"


# ---- contexts: (name, function hole_source -> source); the hole arrives already parenthesised
def contexts():
    cs = []
    for op in BINOPS:
        cs.append(("binL:" + op, lambda h, op=op: "%s %s b" % (h, op)))
        cs.append(("binR:" + op, lambda h, op=op: "a %s %s" % (op, h)))
    cs += [
        ("neg", lambda h: "-" + h),
        ("not", lambda h: "!" + h),
        ("notw", lambda h: "not " + h),
        ("fact", lambda h: h + "!"),
        ("callF", lambda h: h + "(b)"),
        ("callF0", lambda h: h + "()"),
        ("callA", lambda h: "f(" + h + ")"),
        ("callA2", lambda h: "f(a, " + h + ")"),
        ("accB", lambda h: h + "[0]"),
        ("accI", lambda h: "a[" + h + "]"),
        ("dot", lambda h: h + ".k"),
        ("condC", lambda h: "if " + h + " then b else c"),
        ("condT", lambda h: "if a then " + h + " else c"),
        ("condE", lambda h: "if a then b else " + h),
        ("lam", lambda h: "x => " + h),
        ("lam2", lambda h: "(x, y?, ...r) => " + h),
        ("assign", lambda h: "v = " + h),
        ("doS1", lambda h: "do {\n  " + h + "\n  return r\n}"),
        ("doS2", lambda h: "do {\n  a\n  " + h + "\n  return r\n}"),
        ("doR", lambda h: "do {\n  return " + h + "\n}"),
        ("listI", lambda h: "[a, " + h + "]"),
        ("recV", lambda h: "{k: " + h + "}"),
        ("recD", lambda h: "{[" + h + "]: 1}"),
        ("sprL", lambda h: "[..." + h + "]"),
        ("sprC", lambda h: "f(..." + h + ")"),
        ("sprR", lambda h: "{..." + h + "}"),
    ]
    return cs


def children():
    ks = [("bin:" + op, "a %s b" % op, False) for op in BINOPS]
    ks += [
        ("neg", "-a", False), ("not", "!a", False), ("fact", "a!", False),
        ("call", "f(a)", False), ("call0", "f()", False), ("acc", "a[0]", False), ("dot", "a.k", False),
        ("cond", "if a then b else c", False), ("lam", "x => a", False), ("lam2", "(x, y) => a", False),
        ("assign", "v = a", False),
        ("do", "do {\n  return a\n}", False), ("do2", "do {\n  v = 1\n  return v\n}", False),
        ("list", "[a, b]", False), ("list0", "[]", False), ("rec", "{k: a}", False), ("rec0", "{}", False),
        ("recq", '{"k 2": a, if2: b, "if": c, x}', False),
        ("id", "a", True), ("num", "1", True), ("str", '"s"', True), ("strq", "'q\"q'", True),
        ("strb", '"b\\\\s"', True), ("bool", "true", True), ("null", "null", True), ("inref", "#i", True),
        ("builtin", "max", True), ("dec", "2.5", True),
    ]
    return ks


def exhaustive(depth):
    """-> list of (label, source)"""
    cs = contexts()
    out = []
    level = [(k, s if atomic else P(s)) for k, s, atomic in children()]    # (label, hole-ready source)
    raw = [(k, s) for k, s, atomic in children()]
    if depth == 1:
        return raw
    cur = level
    for d in range(depth - 1):
        nxt = []
        last = (d == depth - 2)
        for cn, cf in cs:
            for lab, hs in cur:
                s = cf(hs)
                if last:
                    out.append((cn + "/" + lab, s))
                else:
                    nxt.append((cn + "/" + lab, P(s)))
        cur = nxt
    return out


# ---- random deeper trees
IDENTS = ["a", "b", "c", "x", "y", "f", "g", "total", "item_1", "_t", "iffy", "android", "nota", "trueish2",
          "via_x", "do_it", "returned"]
NUMS = ["0", "1", "2", "42", "1000000", "0.5", "2.5", "3.14159", "1e3", "1_000", "0x1F", "0b101", "12.75", "100.0"]
STRS = ['"s"', '""', '"hello world"', "'single'", "'say \"hi\"'", '"it\'s"', '"back\\\\slash"', '"a // b"',
        '"héllo"', '"tab\there"', "'x\\\\y'", '"{brace}"', '"(paren)"']
KEYS = ["k", "name", "_x", "if2", '"two words"', '"if"', '"a-b"', "'q\"k'", '"1st"', "via", "k9",
        # keys that are identifiers for Unicode-aware predicates but not for the (ASCII) grammar
        '"café"', '"x²"', '"naïve_key"', '"日本"', '"é"', '"k_ñ9"']


class TreeGen:
    def __init__(self, rng):
        self.r = rng
        self.stats = {}

    def note(self, k):
        self.stats[k] = self.stats.get(k, 0) + 1

    def atom(self):
        r = self.r
        k = r.below(10)
        if k < 4:
            self.note("ident")
            return r.choice(IDENTS)
        if k < 6:
            self.note("number")
            return r.choice(NUMS)
        if k == 6:
            self.note("string")
            return r.choice(STRS)
        if k == 7:
            self.note("bool/null")
            return r.choice(["true", "false", "null"])
        if k == 8:
            self.note("inref")
            return "#" + r.choice(IDENTS[:6])
        self.note("builtin")
        return r.choice(["max", "len", "map", "sum", "abs"])

    def hole(self, d):
        """an operand: atom, or a parenthesised deeper tree"""
        if d <= 0 or self.r.chance(1, 4):
            return self.atom()
        return "(" + self.tree(d - 1) + ")"

    def tree(self, d):
        r = self.r
        if d <= 0:
            return self.atom()
        k = r.below(30)
        if k < 10:
            op = r.choice(BINOPS)
            self.note("binary " + op)
            return "%s %s %s" % (self.hole(d), op, self.hole(d))
        if k < 13:
            u = r.choice(["-", "!", "not "])
            self.note("prefix")
            return u + self.hole(d)
        if k == 13:
            self.note("factorial")
            return self.hole(d) + "!"
        if k < 16:
            self.note("call")
            n = r.below(3)
            args = []
            for _ in range(n):
                if r.chance(1, 8):
                    self.note("spread")
                    args.append("..." + self.hole(d))
                else:
                    args.append(self.hole(d))
            return "%s(%s)" % (self.hole(d), ", ".join(args))
        if k == 16:
            self.note("index")
            return "%s[%s]" % (self.hole(d), self.hole(d))
        if k == 17:
            self.note("field")
            return "%s.%s" % (self.hole(d), r.choice(["k", "name", "via", "x1"]))
        if k < 20:
            self.note("conditional")
            return "if %s then %s else %s" % (self.hole(d), self.hole(d), self.hole(d))
        if k < 23:
            self.note("lambda")
            args = r.choice(["x", "x", "(x)", "(x, y)", "(x, y?)", "(...rest)", "(a, ...rest)", "()"])
            return "%s => %s" % (args, self.hole(d))
        if k == 23:
            self.note("assignment")
            return "%s = %s" % (r.choice(IDENTS), self.hole(d))
        if k == 24:
            self.note("do-block")
            n = r.below(3)
            lines = []
            for _ in range(n):
                lines.append("  " + self.hole(d))
            return "do {\n" + "".join(l + r.choice(["\n", "\n", ";", "\n\n"]) for l in lines) + \
                   "  return " + self.hole(d) + "\n}"
        if k < 27:
            self.note("list")
            n = r.below(4)
            items = []
            for _ in range(n):
                if r.chance(1, 8):
                    self.note("spread")
                    items.append("..." + self.hole(d))
                else:
                    items.append(self.hole(d))
            return "[" + ", ".join(items) + "]"
        if k < 29:
            self.note("record")
            n = r.below(4)
            items = []
            for _ in range(n):
                j = r.below(6)
                if j < 3:
                    items.append("%s: %s" % (r.choice(KEYS), self.hole(d)))
                elif j == 3:
                    items.append("[%s]: %s" % (self.hole(d), self.hole(d)))
                elif j == 4:
                    items.append(r.choice(IDENTS))
                else:
                    self.note("spread")
                    items.append("..." + self.hole(d))
            return "{" + ", ".join(items) + "}"
        return self.atom()


COMMENTS = ["// note", "//", "// x = (1", "// \"quoted\"", "//tight", "// ünï"]


def commented_collection(rng, tg, d):
    """a list / record / do-block with comments at the positions the grammar admits"""
    r = rng
    k = r.below(3)
    if k == 0:
        lines = ["["]
        for _ in range(1 + r.below(3)):
            if r.chance(1, 2):
                lines.append("  " + r.choice(COMMENTS))
            lines.append("  " + tg.hole(d) + "," + ("  " + r.choice(COMMENTS) if r.chance(1, 2) else ""))
        if r.chance(1, 3):
            lines.append("  " + r.choice(COMMENTS))
        lines.append("]")
        return "\n".join(lines)
    if k == 1:
        lines = ["{"]
        for _ in range(1 + r.below(3)):
            if r.chance(1, 2):
                lines.append("  " + r.choice(COMMENTS))
            lines.append("  %s: %s," % (r.choice(KEYS), tg.hole(d)) + ("  " + r.choice(COMMENTS) if r.chance(1, 2) else ""))
        lines.append("}")
        return "\n".join(lines)
    lines = ["do {"]
    for _ in range(r.below(3)):
        if r.chance(1, 2):
            lines.append("  " + r.choice(COMMENTS))
        # a trailing comment directly after the statement (the only form the grammar admits today)
        lines.append("  " + tg.hole(d) + (r.choice(COMMENTS) if r.chance(1, 3) else ""))
    if r.chance(1, 2):
        lines.append("  " + r.choice(COMMENTS))
    lines.append("  return " + tg.hole(d))
    lines.append("}")
    return "\n".join(lines)


def random_program(rng, tg, d):
    r = rng
    n = 1 + r.below(4)
    out = []
    for _ in range(n):
        k = r.below(10)
        if k == 0:
            out.append(r.choice(COMMENTS))
        elif k == 1:
            out.append("output %s = %s" % (r.choice(IDENTS), tg.hole(d)))
        elif k == 2:
            out.append("output " + r.choice(IDENTS))
        elif k == 3:
            out.append("%s = %s" % (r.choice(IDENTS), commented_collection(r, tg, d)))
        elif k == 4:
            out.append("%s = %s" % (r.choice(IDENTS), tg.tree(d)))
        else:
            out.append(tg.tree(d))
        if r.chance(1, 3) and not out[-1].startswith("//"):
            out[-1] += "  " + r.choice(COMMENTS)
        out.append("\n" * (1 + r.below(4)))
    return "".join(out).rstrip("\n") + ("\n" if r.chance(1, 2) else "")


# ---- statement sequences: what PRECEDES a statement decides whether its first token is read as the
# continuation of an earlier statement.  grammar.pest: NEWLINE = inline_comment? ~ plain_newline and infix_usage
# admits (WHITESPACE | NEWLINE)* before an operator, so blank lines AND comment-only lines do not end an
# expression; an `output x = e` ends in an expression too, `output x` does not.  The family enumerates
# (earlier statement kind) x (what stands between: line break / blank lines / comment lines / end-of-line comment /
# CRLF) x (statement by the first token of its formatted text), at the top level and inside a do-block.
# Every statement is written so that it stands alone in the SOURCE (a leading `-` in parentheses).
SEQ_PREAMBLE = "a = 5\nb = 2\nc = true\nf = x => x * 2\ntotal = 0\n"

# (label, source, first token class of the formatted text)
SEQ_STARTERS = [
    ("neg-num", "(-3)", "-"), ("neg-id", "(-a)", "-"), ("neg-add", "(-a) + b", "-"), ("neg-mul", "(-a) * 2", "-"),
    ("neg-group", "(-(a + b))", "-"), ("neg-call", "(-f(a))", "-"), ("neg-neg", "(-(-a))", "-"),
    ("neg-cmp", "(-a) == b", "-"), ("neg-pow", "(-a) ^ 2", "-"), ("neg-via", "(-a) into f", "-"),
    ("neg-list", "(-[a, b])", "-"), ("neg-cond", "(-a) + (if a > b then a else b)", "-"),
    ("neg-dec", "(-2.5) / b", "-"),
    ("neg-long", "(-a) + total_of_everything_so_far(a, b) + another_rather_long_name(b, a) + yet_another_long_name(a)", "-"),
    ("bang", "(!c)", "!"), ("not", "(not c)", "not"),
    ("group", "(a + b) * 2", "("), ("lambda-call", "(x => x + 1)(a)", "("),
    ("list", "[a, b]", "["), ("record", "{k: a}", "{"), ("string", '"s"', "quote"), ("number", "3", "digit"),
    ("ident", "a", "name"), ("call", "f(a)", "name"), ("assign-neg", "t = (-a)", "name"),
    ("cond", "if a > b then a else b", "if"), ("do", "do {\n  return a\n}", "do"),
]

# (label, source, kind): the statement standing before; kind: expression / output declaration
SEQ_PREVS = [
    ("assign", "sub = 10", "E"), ("ident", "a", "E"), ("call", "f(a)", "E"), ("list", "[a, b]", "E"),
    ("number", "7", "E"), ("string", '"s"', "E"), ("lambda", "g = x => x + 1", "E"),
    ("cond", "if a > b then a else b", "E"), ("do", "do {\n  return a\n}", "E"), ("neg", "(-b)", "E"),
    ("out-assign", "output t = 10", "O"), ("out-name", "output a", "O"),
]

# (label, text between the earlier statement and the statement under test)
SEQ_SEPS = [
    ("newline", "\n"), ("blank", "\n\n"), ("blank3", "\n\n\n\n"),
    ("comment", "\n// note\n"), ("comment2", "\n// one\n// two\n"), ("blank+comment", "\n\n// note\n"),
    ("comment+blank", "\n// note\n\n"), ("blank+comment+blank", "\n\n// note\n\n"),
    ("eol", "  // eol\n"), ("eol+comment", "  // eol\n// note\n"),
    ("indented-comment", "\n    // note\n  "), ("crlf-comment", "\r\n// note\r\n"), ("empty-comment", "\n//\n"),
]

# what stands before a statement that has NO expression before it
SEQ_HEADS = [("first", ""), ("comment-head", "// header\n"), ("comment2-head", "// one\n// two\n\n"),
             ("blank-head", "\n\n"), ("out-name-head", "output a\n"), ("out-name+comment-head", "output a\n// note\n"),
             ("out-assign-head", "output t = 1\n"), ("out-assign+comment-head", "output t = 1\n// note\n"),
             ("out-assign2-head", "output t = 1\noutput u = [t]\n\n")]

# what follows the statement under test
SEQ_TAILS = [("none", ""), ("stmt", "\nz = 1"), ("comment+neg", "\n// end\n(-b)"), ("output", "\noutput total")]


def _indent(text, pad):
    return "\n".join((pad + l if l.strip() else l) for l in text.split("\n"))


def seq_program(container, before, sep, starter, tail):
    """the source of one case.  container 'top': statements of the program; 'do': statements of a do-block
    (no output declarations there: the caller does not pass them)"""
    body = before + sep + starter + tail
    if container == "top":
        return body
    # a do-block statement ends at a line break or `;`; comments and blank lines may stand between statements
    return "r = do {\n" + _indent(body.replace("\r\n", "\n"), "  ") + "\n  return total\n}"


def statement_sequences(rng, full):
    """-> list of (source, tags) with tags = {container, prev, sep, starter, first_token, tail}.
    full: the whole product; otherwise every pair (sep, starter), (prev, starter), (head, starter) at least once in
    each container (the third coordinate and the tail drawn from rng)."""
    out = []

    def add(container, pl, ptxt, sl, stxt, st, tl=None):
        lab, src, tok = st
        tlab, ttxt = tl if tl is not None else SEQ_TAILS[rng.below(len(SEQ_TAILS))]
        if container == "do" and "output" in ttxt:
            tlab, ttxt = SEQ_TAILS[1]
        pre = SEQ_PREAMBLE if container == "top" and pl not in [h for h, _ in SEQ_HEADS] else ""
        s = seq_program(container, ptxt, stxt, src, ttxt)
        if container == "do" and pl not in [h for h, _ in SEQ_HEADS]:
            s = SEQ_PREAMBLE + s
        out.append((pre + s, {"container": container, "prev": pl, "sep": sl, "starter": lab, "first_token": tok,
                              "tail": tlab}))

    for container in ("top", "do"):
        prevs = [p for p in SEQ_PREVS if container == "top" or p[2] == "E"]
        heads = [hd for hd in SEQ_HEADS if container == "top" or "out" not in hd[0]]
        for st in SEQ_STARTERS:
            if full:
                for pl, ptxt, _ in prevs:
                    for sl, stxt in SEQ_SEPS:
                        for tl in SEQ_TAILS:
                            add(container, pl, ptxt, sl, stxt, st, tl)
            else:
                for sl, stxt in SEQ_SEPS:
                    pl, ptxt, _ = prevs[rng.below(len(prevs))]
                    add(container, pl, ptxt, sl, stxt, st)
                for pl, ptxt, _ in prevs:
                    sl, stxt = SEQ_SEPS[rng.below(len(SEQ_SEPS))]
                    add(container, pl, ptxt, sl, stxt, st)
            for hl, htxt in heads:
                add(container, hl, htxt, "-", "", st)
    return out
