"""C10 — parsing: fixed precedence table, layout-insensitive, all plain names usable.
See notes/C10.md and DESIGN.md section 6 (C10)."""
import json
import os
import re
import sys

import common as c
import c10_gen as g

sys.path.insert(0, os.path.join(c.VERIF, "translate"))
import prec_table  # noqa: E402

PID = "C10"
MANIFEST = {
    "text": "Coq theorems over a transcription of pest's Pratt parser and pairs_to_expr_inner on token streams: the "
            "Pratt table built from the rows regenerated from precedence.rs refines the hand-written specification "
            "table (all 34 operator rules); every tree is recovered from every rendering that carries at least the "
            "parentheses the specification table requires (minimal, fully parenthesised, any redundant layers; "
            "unbounded induction); word/symbol spellings parse alike; model tied to the code by an exhaustive PARSE "
            "correspondence (all operator pairs, triples, affix combinations, random deep trees) and layout / "
            "identifier / spelling searches on the real parser",
    "note": "trusted: Coq kernel + vm_compute; translate/prec_table.py (reads precedence.rs, expressions.rs map_infix/"
            "map_prefix arms, pest PREC_STEP; cross-checked against operator_info of the built crate); hand "
            "transcription of pest 2.8.3 pratt_parser.rs and of pairs_to_expr_inner (validated by the PARSE "
            "correspondence); the character level (pest PEG: whitespace, newlines, comments, identifiers) is decided "
            "by correspondence and search on the real parser, not by proof; no axioms",
    "design_ref": "DESIGN.md section 6 C10; notes/C10.md",
}
REQ = ["Blots.Num", "Blots.gen.Builtins", "Blots.Ast", "Blots.Outcome", "Blots.PrattTypes", "Blots.gen.PrecTable",
       "Blots.Pratt", "Blots.PrattRender"]


def regen_prec(h):
    try:
        txt, info = prec_table.generate(c.REPO, c.harness_oneshot(h, "dump-prec"))
    except prec_table.TranslateError as e:
        raise c.BrokenTie("translate/prec_table.py cannot read the precedence table of the working tree", str(e))
    except (OSError, IOError) as e:
        raise c.BrokenTie("translate/prec_table.py: source file missing", str(e))
    c.write_if_changed(os.path.join(c.GEN, "PrecTable.v"), txt)
    return info


def spelling_arms_shared():
    """expressions.rs: every match arm that names BinaryOp::And also names NaturalAnd (same for Or),
    and UnaryOp::Not shares its arm with Invert.  Returns list of complaints."""
    src = prec_table.strip_comments(open(os.path.join(c.REPO, "blots-core", "src", "expressions.rs")).read())
    # only evaluator arms: cut at pairs_to_expr_inner
    cut = src.find("fn pairs_to_expr_inner")
    ev = src[:cut] if cut > 0 else src
    bad = []
    for a, b in (("And", "NaturalAnd"), ("Or", "NaturalOr")):
        for m in re.finditer(r"([^;{}]*?)=>", ev):
            pat = m.group(1)
            has_a = re.search(r"BinaryOp::%s\b" % a, pat) is not None
            has_b = re.search(r"BinaryOp::%s\b" % b, pat) is not None
            if has_a != has_b:
                bad.append("arm `%s =>` treats %s and %s differently" % (" ".join(pat.split())[-80:], a, b))
    return bad


# --------------------------------------------------------------------------- item streams (Coq literals)
def it_id(x):
    return 'IIdent "%s"' % x


def it_op(rule):
    return "IOp %s" % rule


PREFIXES = [None, "R_negation", "R_invert", "R_natural_not"]
POSTFIXES = [None, "IOp R_factorial", 'ICall [[IIdent "u"]]', 'IAccess [IExpr false [IIdent "i"]]', 'IDot "fld"']


def flat_cases(tier, rng):
    cases = []     # (kind, coq items literal)
    ops = g.BINOPS
    for o1 in ops:
        for o2 in ops:
            cases.append(("pair", "[%s; %s; %s; %s; %s]" % (it_id("a"), it_op(g.BIN_RULE[o1]), it_id("b"),
                                                            it_op(g.BIN_RULE[o2]), it_id("c"))))
    triples = [(o1, o2, o3) for o1 in ops for o2 in ops for o3 in ops]
    for o1, o2, o3 in triples:
        cases.append(("triple", "[%s; %s; %s; %s; %s; %s; %s]" % (
            it_id("a"), it_op(g.BIN_RULE[o1]), it_id("b"), it_op(g.BIN_RULE[o2]), it_id("c"),
            it_op(g.BIN_RULE[o3]), it_id("d"))))
    for o in ops:
        for p1 in PREFIXES:
            for q1 in POSTFIXES:
                for p2 in PREFIXES:
                    for q2 in POSTFIXES:
                        its = []
                        if p1:
                            its.append(it_op(p1))
                        its.append(it_id("a"))
                        if q1:
                            its.append(q1)
                        its.append(it_op(g.BIN_RULE[o]))
                        if p2:
                            its.append(it_op(p2))
                        its.append(it_id("b"))
                        if q2:
                            its.append(q2)
                        cases.append(("affix", "[" + "; ".join(its) + "]"))
    # prefix / postfix stacks on one operand, and between two binary operators
    for p1 in PREFIXES[1:]:
        for p2 in PREFIXES:
            for q1 in POSTFIXES[1:]:
                for q2 in POSTFIXES:
                    its = [it_op(p1)] + ([it_op(p2)] if p2 else []) + [it_id("a"), q1] + ([q2] if q2 else [])
                    cases.append(("stack", "[" + "; ".join(its) + "]"))
                    for o in ("Add", "Power", "Coalesce", "NaturalAnd", "Less"):
                        cases.append(("stack", "[" + "; ".join(
                            [it_id("z"), it_op(g.BIN_RULE[o])] + its + [it_op(g.BIN_RULE[o]), it_id("w")]) + "]"))
    return cases


def coq_case(items_expr):
    return '(let its := %s in hex_of_string (items_text its) ++ "|" ++ show_tres (pratt_impl its))' % items_expr


def run_stream(h, res, name, cases, expect=None):
    """cases: list of (kind, coq items expr).  Runs the model (text + AST), then the real parser on
    the model's text, diffs.  expect: optional list of expected result strings (round trip)."""
    try:
        outs = c.coq_eval_batch(REQ, "", [coq_case(e) for _, e in cases], "c10" + re.sub(r"[^A-Za-z0-9]", "_", name))
    except c.BrokenTie as e:
        res.tie_broken(e.what, e.detail)
        return None
    texts, models = [], []
    for o in outs:
        if o is None or "|" not in o:
            texts.append(None)
            models.append(None)
        else:
            hx, m = o.split("|", 1)
            texts.append(bytes.fromhex(hx).decode("utf-8"))
            models.append(m)
    missing = [i for i, t in enumerate(texts) if t is None]
    if missing:
        res.tie_broken("model evaluation returned nothing for %d %s cases" % (len(missing), name),
                       cases[missing[0]][1][:400])
    idx = [i for i, t in enumerate(texts) if t is not None]
    impl = c.harness_lines_resilient(h, "parse10", [c.hexs(texts[i]) for i in idx])
    impls = [None] * len(cases)
    for i, o in zip(idx, impl):
        impls[i] = o
    mism = [i for i in idx if impls[i] != models[i]]
    fuel = sum(1 for i in idx if models[i] == "OUTOFFUEL")
    st = {"cases": len(cases), "evaluated": len(idx), "mismatches": len(mism), "model_out_of_fuel": fuel,
          "kinds": {}, "impl_rejects": sum(1 for i in idx if impls[i] == "REJECT"),
          "impl_panics": sum(1 for i in idx if (impls[i] or "").startswith(("PANIC", "ABORT")))}
    for k, _ in cases:
        st["kinds"][k] = st["kinds"].get(k, 0) + 1
    res.streams[name] = st
    if fuel:
        res.tie_broken("model ran out of fuel on %d %s cases" % (fuel, name))
    if mism:
        i = mism[0]
        res.tie_broken("correspondence C10/%s: model and implementation disagree on %d of %d inputs"
                       % (name, len(mism), len(idx)),
                       "first: text=%r model=%s impl=%s" % (texts[i], models[i], impls[i]))
    return texts, models, impls


# --------------------------------------------------------------------------- known findings
KNOWN_IDENT = "C10-bool-null-prefix"
KNOWN_BANG = "C10-bang-equals"


def ident_in_known_class(name):
    """mirrors known/C10.json class of C10-bool-null-prefix: a name that extends true/false/null"""
    return re.match(r"^(true|false|null)[A-Za-z0-9_]+$", name) is not None


def text_in_bang_class(text):
    """mirrors known/C10.json class of C10-bang-equals: `!=` written directly after an operand"""
    return re.search(r"(?<![\s.])!=", text) is not None and not text.startswith("!=")


# --------------------------------------------------------------------------- tree streams
def tree_stream(h, res, rng, n, depth, builtin_names):
    tg = g.TreeGen(rng)
    cases, meta = [], []
    while len(cases) < n:
        t = tg.tree(1 + rng.below(depth))
        par, wn = g.random_oracles(rng, t)
        cases.append(("tree", g.coq_render(t, par, 0, wn)))
        meta.append((t, par, wn))
    r = run_stream(h, res, "PARSE-tree", cases)
    if not r:
        return tg, meta, 0
    texts, models, impls = r
    twin_bad = rt_model_bad = rt_impl_bad = 0
    first = None
    for (t, par, wn), tx, m, im in zip(meta, texts, models, impls):
        if tx is None:
            continue
        mine = g.Renderer(par, 0, wn).render(t)
        exp = "E " + g.show(t)
        if mine != tx:
            twin_bad += 1
            first = first or ("renderer twin", mine, tx)
        if m != exp:
            rt_model_bad += 1
            first = first or ("model round trip", tx, m)
        if im != exp and im == m:
            rt_impl_bad += 1
    st = res.streams["PARSE-tree"]
    st.update({"renderer_twin_mismatches": twin_bad, "model_roundtrip_failures": rt_model_bad,
               "node_histogram": dict(sorted(tg.hist.items())),
               "text_bytes_max": max(len(x) for x in texts if x is not None)})
    if twin_bad:
        res.tie_broken("checks/c10_gen.py renderer and PrattRender.items_text disagree on %d trees" % twin_bad,
                       "python=%r coq=%r" % (first[1], first[2]))
    if rt_model_bad:
        res.tie_broken("the model does not recover %d rendered trees (contradicts C10_pratt_roundtrip_all: "
                       "generator produced a tree outside wf?)" % rt_model_bad, repr(first))
    return tg, meta, len(cases) - st["mismatches"]


def search_stream(h, res, rng, meta, layouts_per_tree):
    """Implementation only: the minimally parenthesised text, the fully parenthesised text, random
    redundant parentheses and random layout must all give the same AST."""
    lines, info = [], []
    for t, _, _ in meta:
        need = g.text_level_parens(t)
        base = g.Renderer(need, 0, set()).render(t)
        full = g.Renderer(need, 1, set()).render(t)
        variants = [("full", full)]
        par, wn = g.random_oracles(rng, t, 1, 3)
        rr = g.Renderer(par, 0, wn)
        variants.append(("parens+not", rr.render(t)))
        for _ in range(layouts_per_tree):
            variants.append(("layout", g.fill(g.Renderer(need, 0, set()).parts(t), rng, 1, 2)))
        variants.append(("layout+parens", g.fill(rr.parts(t), rng, 1, 2)))
        variants.append(("statement-layout", rng.choice(["// lead\n", "\n\n", "  ", "\n// a\n// b\n", ""]) + base
                         + rng.choice([" // trail", "\n", "  ", "\n\n// end", "\n// end\n", " //"])))
        for kind, v in variants:
            if v != base:
                lines.append(c.hexs(base) + "\t" + c.hexs(v))
                info.append((kind, base, v, t))
    outs = c.harness_lines_resilient(h, "parse10eq", lines)
    hist, known_bang, viol = {}, 0, 0
    for (kind, base, v, t), o in zip(info, outs):
        hist.setdefault(kind, {}).setdefault(o, 0)
        hist[kind][o] += 1
        if o == "SAME":
            continue
        if o == "REJECT-B" and text_in_bang_class(v) and not text_in_bang_class(base) and bang_open(res):
            known_bang += 1
            continue
        viol += 1
        if viol <= 3:
            res.violation("layout / parenthesis variant of an expression parses differently (%s: %s)" % (kind, o),
                          {"kind": "impl-law", "law": "AST(base) == AST(variant)", "base": base, "variant": v,
                           "observed": o, "expected": "SAME", "variant_kind": kind,
                           "rerun": "./check C10 --replay <this file>"})
    res.streams["SEARCH-variants"] = {"pairs": len(lines), "outcomes": hist, "known_bang_equals": known_bang,
                                      "violations": viol}
    return len(lines)


_open_cache = {}


def bang_open(res):
    if "bang" not in _open_cache:
        _open_cache["bang"] = any(e.get("id") == KNOWN_BANG for e in c.open_known(PID))
    return _open_cache["bang"]


def ident_open():
    if "ident" not in _open_cache:
        _open_cache["ident"] = any(e.get("id") == KNOWN_IDENT for e in c.open_known(PID))
    return _open_cache["ident"]


def ident_names(rng, tier, builtin_names):
    names = []
    for w in g.RESERVED:
        for ch in ("x", "Q", "7", "_"):
            names.append(w + ch)
            if not ch.isdigit():
                names.append(ch + w)
        names.append(w + w)
        names.append(w.upper())
        names.append(w.capitalize())
        names.append(w + "_" + w)
    names += ["trueish", "null_count", "android", "iffy", "falsey", "nothing", "donut", "orange", "returned",
              "outputs", "elsewhere", "thence", "nullable", "truth", "fals", "nul", "i", "t", "_", "__", "_1",
              "a1b2", "via_", "x_via", "wherever", "intox", "notify", "dot", "ifx", "if_", "or2", "and_1"]
    alpha = "abcdefghijklmnopqrstuvwxyzABCDEFGHIJKLMNOPQRSTUVWXYZ_"
    for _ in range(40 if tier == "quick" else 400):
        n = rng.choice(alpha) + "".join(rng.choice(alpha + "0123456789") for _ in range(rng.below(8)))
        names.append(n)
    skip = set(g.RESERVED) | set(builtin_names) | {"inf", "infinity", "pi", "e", "tau", "nan", "via", "into", "where",
                                                   "inputs", "constants", "max_value", "min_value"}
    out = []
    for n in names:
        if n not in skip and n not in out:
            out.append(n)
    return out


def ident_templates(N):
    i = ("id", N)
    five = ("num", 5)
    asg = ("assign", N, five)
    T = [
        ("%s = 5\n%s + 1", [asg, ("bin", "Add", i, ("num", 1))]),
        ("%s = 5\n1 + %s", [asg, ("bin", "Add", ("num", 1), i)]),
        ("%s = 5\ny = -%s", [asg, ("assign", "y", ("un", "Negate", i))]),
        ("%s = 5\nnot %s", [asg, ("un", "Not", i)]),
        ("%s = 5\n!%s", [asg, ("un", "Not", i)]),
        ("%s = 5\n%s!", [asg, ("fact", i)]),
        ("%s = 5\n[%s, %s]", [asg, ("list", [i, i])]),
        ("%s = 5\n[...%s]", [asg, ("list", [("spread", i)])]),
        ("%s = 5\n{k: %s}", [asg, ("rec", [("static", "k", i)])]),
        ("%s = 5\n{%s}", [asg, ("rec", [("short", N, None)])]),
        ("%s = 5\n{%s: 1}", [asg, ("rec", [("static", N, ("num", 1))])]),
        ("%s = 5\nfoo(%s)", [asg, ("call", ("id", "foo"), [i])]),
        ("%s = 5\n%s(1)", [asg, ("call", i, [("num", 1)])]),
        ("%s = 5\n%s.f", [asg, ("dot", i, "f")]),
        ("%s = 5\nq.%s", [asg, ("dot", ("id", "q"), N)]),
        ("%s = 5\n%s[0]", [asg, ("idx", i, ("num", 0))]),
        ("%s = 5\nq[%s]", [asg, ("idx", ("id", "q"), i)]),
        ("%s = 5\nif %s then %s else %s", [asg, ("cond", i, i, i)]),
        ("%s = 5\n(%s)", [asg, i]),
        ("%s = 5\n(%s) * 2", [asg, ("bin", "Multiply", i, ("num", 2))]),
        ("(%s) => %s", [("lam", [("req", N)], i)]),
        ("%s => %s + 1", [("lam", [("req", N)], ("bin", "Add", i, ("num", 1)))]),
        ("%s = 5\ndo {\n  y = %s\n  return %s\n}", [asg, ("do", [("assign", "y", i)], i)]),
        ("%s = 5\ny = %s", [asg, ("assign", "y", i)]),
        ("%s = 5\n%s and %s", [asg, ("bin", "NaturalAnd", i, i)]),
        ("%s = 5\n%s via %s", [asg, ("bin", "Via", i, i)]),
        ("%s = 5\n%s == %s", [asg, ("bin", "Equal", i, i)]),
        ("%s = 5\nq ?? %s", [asg, ("bin", "Coalesce", ("id", "q"), i)]),
        ("%s = 5\n%s", [asg, i]),
    ]
    out = []
    for fmt, exp in T:
        src = fmt.replace("%s", N)
        out.append((src, " ;; ".join("E " + g.show(e) for e in exp)))
    return out


def ident_stream(h, res, rng, tier, builtin_names):
    names = ident_names(rng, tier, builtin_names)
    lines, info = [], []
    for n in names:
        for src, exp in ident_templates(n):
            lines.append(c.hexs(src))
            info.append((n, src, exp))
    outs = c.harness_lines_resilient(h, "parse10", lines)
    ev_lines = [c.hexs("%s = 5\n%s + 1" % (n, n)) for n in names]
    ev = c.harness_lines_resilient(h, "eval", ev_lines)
    fails, known, viol = {}, 0, 0
    for (n, src, exp), o in zip(info, outs):
        if o != exp:
            fails.setdefault(n, []).append((src, o, exp))
    for n, o in zip(names, ev):
        body = o.split(";ENV:")[0]
        if body != "OK:N4014000000000000|OK:N4018000000000000":
            fails.setdefault(n, []).append(("%s = 5\n%s + 1" % (n, n), body, "5 then 6"))
    for n, fl in fails.items():
        if ident_in_known_class(n) and ident_open():
            known += 1
            continue
        viol += 1
        if viol <= 3:
            src, o, exp = fl[0]
            res.violation("a plain name cannot be bound and then referenced (%s)" % n,
                          {"kind": "impl-law", "law": "bind then reference", "name": n, "program": src,
                           "observed": o, "expected": exp, "failing_templates": len(fl),
                           "rerun": "./check C10 --replay <this file>"})
    ok_known_class = sum(1 for n in names if ident_in_known_class(n) and n not in fails)
    res.streams["SEARCH-identifiers"] = {"names": len(names), "programs": len(lines) + len(ev_lines),
                                         "names_failing": len(fails), "in_known_class": known,
                                         "known_class_names_that_work": ok_known_class, "violations": viol,
                                         "sample_names": names[:12]}
    return len(lines) + len(ev_lines)


def spelling_stream(h, res, rng):
    vals = ["true", "false", "1", '"s"', "null", "[true, false]", "[false]", "nope", "(1 > 2)", "[]"]
    progs = []
    for a in vals:
        progs.append(("not %s" % a, "!%s" % a))
        progs.append(("not not %s" % a, "!!%s" % a))
        for b in vals:
            progs.append(("%s and %s" % (a, b), "%s && %s" % (a, b)))
            progs.append(("%s or %s" % (a, b), "%s || %s" % (a, b)))
            progs.append(("not %s and %s" % (a, b), "!%s && %s" % (a, b)))
            progs.append(("%s or %s and not %s" % (a, b, a), "%s || %s && !%s" % (a, b, a)))
            progs.append(("[%s] where x => x and %s" % (a, b), "[%s] where x => x && %s" % (a, b)))
    lines = []
    for w, sy in progs:
        lines += [c.hexs(w), c.hexs(sy)]
    outs = c.harness_lines_resilient(h, "eval", lines)
    viol = 0
    oks = 0
    for k, (w, sy) in enumerate(progs):
        ow, os_ = outs[2 * k], outs[2 * k + 1]
        if ow.startswith("OK") and ow == os_:
            oks += 1
        if ow != os_:
            viol += 1
            if viol <= 3:
                res.violation("word and symbol spellings evaluate differently",
                              {"kind": "impl-law", "law": "eval(word spelling) == eval(symbol spelling)",
                               "program": w, "program_b": sy, "observed": ow, "expected": os_})
    res.streams["SEARCH-spelling"] = {"pairs": len(progs), "both_ok_and_equal": oks, "violations": viol}
    return len(lines)


def corpus_stream(h, res):
    d = os.path.join(c.VERIF, "corpus", PID)
    n = 0
    for fn in sorted(os.listdir(d)) if os.path.isdir(d) else []:
        if not fn.endswith(".json"):
            continue
        with open(os.path.join(d, fn)) as f:
            case = json.load(f)
        n += 1
        if case.get("kind") == "parse-eq":
            o = c.harness_lines_resilient(h, "parse10eq", [c.hexs(case["base"]) + "\t" + c.hexs(case["variant"])])[0]
        else:
            o = c.harness_lines_resilient(h, "parse10", [c.hexs(case["program"])])[0]
        if o != case["expected"]:
            kn = case.get("known")
            if kn and any(e.get("id") == kn for e in c.open_known(PID)):
                continue
            res.violation("corpus case %s: %s" % (fn, case.get("what", "")),
                          dict(case, observed=o, rerun="./check C10 --replay <this file>"))
    res.streams["corpus"] = {"cases": n}
    return n


def known_step(h, res):
    for e in c.open_known(PID):
        w = e.get("witness", {})
        if e.get("id") == KNOWN_IDENT:
            o = c.harness_lines_resilient(h, "parse10", [c.hexs(w["program"])])[0]
            still = (o == "REJECT")
            res.known("%s: `%s` binds but the reference does not parse (bool/null literal matched without a word "
                      "boundary)%s" % (e["id"], w["program"].replace("\n", " ; "),
                                       "" if still else " (no longer reproduces)"))
        elif e.get("id") == KNOWN_BANG:
            o = c.harness_lines_resilient(h, "parse10eq", [c.hexs(w["base"]) + "\t" + c.hexs(w["variant"])])[0]
            still = (o != "SAME")
            res.known("%s: `%s` is rejected while `%s` parses (postfix `!` swallows the `!` of `!=`)%s"
                      % (e["id"], w["variant"], w["base"], "" if still else " (no longer reproduces)"))
        else:
            res.known("%s %s" % (e.get("id"), e.get("what", "")))


def main(argv):
    tier, seed, replay = c.tier_and_seed(argv)
    res = c.Result(PID, tier, seed)
    rng = c.Rng(seed)
    try:
        h = c.build_harness()
        builtin_names = c.regen_builtins(h)
        info = regen_prec(h)
    except c.BrokenTie as e:
        res.tie_broken(e.what, e.detail)
        return res.finish()
    if replay:
        return do_replay(h, replay)
    res.streams["translator"] = info
    bad_ids = [x for x in g.IDENTS if x in builtin_names]
    if bad_ids:
        res.tie_broken("generator identifiers collide with built-in names", ",".join(bad_ids))

    c.proof_step(res, PID)

    bad = spelling_arms_shared()
    if bad:
        res.tie_broken("expressions.rs no longer treats the word and symbol spellings in shared match arms",
                       "; ".join(bad[:5]))

    evaluations = 0
    validated = 0
    evaluations += corpus_stream(h, res)
    # ---- FLAT: exhaustive operator sequences, model vs implementation
    fc = flat_cases(tier, rng)
    r = run_stream(h, res, "PARSE-flat", fc)
    if r:
        evaluations += len(fc)
        validated += len(fc) - res.streams["PARSE-flat"]["mismatches"]
    # ---- TREE: random deep trees, rendered by the model, round trip + model vs implementation
    ntree = 1500 if tier == "quick" else 20000
    tg, meta, ok = tree_stream(h, res, rng, ntree, 5, builtin_names)
    evaluations += len(meta)
    validated += ok
    # ---- searches on the implementation alone
    evaluations += search_stream(h, res, rng, meta, 2 if tier == "quick" else 4)
    evaluations += ident_stream(h, res, rng, tier, builtin_names)
    evaluations += spelling_stream(h, res, rng)

    known_step(h, res)
    res.coverage["evaluations"] = evaluations
    res.coverage["distinct_nontrivial"] = (len({e for _, e in fc}) + len({g.show(t) for t, _, _ in meta
                                                                           if t[0] not in ("id", "num", "str", "bool",
                                                                                           "null", "inref", "builtin")}))
    res.coverage["rule"] = ("distinct token streams (exhaustive operator pairs/triples/affix combinations) plus distinct "
                            "random trees with at least one operator or nested form, each parsed by the real parser; "
                            "searches (variants, identifiers, spellings) counted in evaluations only")
    res.coverage["traces_validated_against_impl"] = validated
    res.coverage["samples"] = [{"text": g.Renderer(p, 0, w).render(t)} for t, p, w in meta[:5]]
    res.assumptions = [
        "character level (pest PEG engine, WHITESPACE/NEWLINE/comment rules, identifier rule) is not modelled: decided "
        "by the correspondence and the layout / identifier searches on the real parser",
        "comments are dropped (pairs_to_expr); comment preservation is property C09's subject",
        "names of built-in functions and constants (sum, pi, inf, ...) are outside the identifier generator: binding "
        "them is rejected or shadowed by design (C03 / F30)",
    ]
    return res.finish()


def do_replay(h, path):
    with open(path) as f:
        rp = json.load(f)
    print(json.dumps(rp, indent=1))
    rc = 0
    if rp.get("base") is not None and rp.get("variant") is not None:
        o = c.harness_lines_resilient(h, "parse10eq", [c.hexs(rp["base"]) + "\t" + c.hexs(rp["variant"])])[0]
        print("implementation now: parse10eq ->", o)
        for k in ("base", "variant"):
            print(" ", k, "->", c.harness_lines_resilient(h, "parse10", [c.hexs(rp[k])])[0])
        rc = 0 if o == rp.get("expected", "SAME") else 1
    elif rp.get("program_b") is not None:
        a = c.harness_lines_resilient(h, "eval", [c.hexs(rp["program"])])[0]
        b = c.harness_lines_resilient(h, "eval", [c.hexs(rp["program_b"])])[0]
        print("implementation now:", a, "vs", b)
        rc = 0 if a == b else 1
    elif rp.get("program") is not None:
        o = c.harness_lines_resilient(h, "parse10", [c.hexs(rp["program"])])[0]
        print("implementation now: parse10 ->", o)
        rc = 0 if o == rp.get("expected") else 1
    return rc


if __name__ == "__main__":
    sys.exit(main(sys.argv[1:]))
