"""C10 — parsing: fixed precedence table, layout-insensitive, all plain names usable.
See notes/C10.md and DESIGN.md section 6 (C10)."""
import json
import os
import re
import sys

import common as c
import c10_gen as g

sys.path.insert(0, os.path.join(c.VERIF, "translate"))
import prec_table  # noqa: E402
import ident_rules  # noqa: E402
import c10_peg  # noqa: E402  (grammar layer: translate/pest2coq.py, coq/Peg.v, PEG-* streams)
import textstream  # noqa: E402  (TEXT-EVAL: coq/TextRun.v, text -> outputs as one model; layout slice)

PID = "C10"
MANIFEST = {
    "text": "41 Coq theorems. Token level (transcription of pest's Pratt parser and pairs_to_expr_inner over token "
            "streams, table regenerated from precedence.rs / expressions.rs / pest on every run): the Pratt table built "
            "from the generated rows refines the hand-written specification table (all 34 operator rules); every tree "
            "the parser can produce is recovered from EVERY rendering that carries at least the parentheses the "
            "specification table requires (minimal, fully parenthesised, any redundant layers, either spelling of not; "
            "unbounded induction, explicit fuel bound), hence minimal and full forms parse identically and the table is "
            "unambiguous; conversely, EVERY token stream the parser converts is a rendering of the result with at least "
            "the parentheses the table requires, and every such rendering is converted to its tree (iff: the parser "
            "accepts exactly the precedence-respecting renderings); the relational and functional "
            "transcriptions agree; comments never change the conversion of ANY token stream; every output of the parser "
            "is in the domain of the round trip; word/symbol spellings share Pratt entry and evaluator class. Character level "
            "(rules regenerated from grammar.pest): every plain name other than a reserved word is read whole as an "
            "identifier (symbolic in the name) and every symbol operator written without blanks is read as itself, each "
            "with the exclusion of one open known finding and a refutation lemma. Model tied to the code by exhaustive "
            "PARSE correspondence (all operator pairs, affix combinations, triples) and random deep trees; layout, "
            "identifier, spelling and grouping searches on the real parser. Grammar layer (coq/Peg.v: executable "
            "transcription of pest 2.8.3's runtime and rule compilation; coq/gen/Grammar.v: grammar.pest after pest's "
            "optimizer, regenerated on every run by translate/pest2coq.py): for EVERY grammar, fuel monotonicity, a "
            "failing expression leaves position and pairs untouched, every success consumes a prefix and all pairs are "
            "ordered, nested and inside the text (the parser's share of C01), position independence (moving the offset "
            "moves all spans and nothing else); the rules identifier / bool / null / identifier_rest / reserved_word of "
            "the regenerated grammar are exactly the specification functions the name theorems are about, and its number "
            "rule accepts exactly the language of gen/NumGrammar.v (C16's token), its string rule (PUSH / PEEK / POP on pest's "
            "stack) ends at the first occurrence of the opening quote, has no escape sequences and gives the stack back; for every "
            "grammar whose WHITESPACE is a choice of single characters, skip absorbs additional blanks and additional "
            "blanks between the two tokens of a non-atomic sequence change nothing but positions (unconditional after a "
            "literal token; instance for the "
            "regenerated grammar). TERMINATION (coq/PegTerm.v, proofs/PegFuel.v): for EVERY grammar with a computed "
            "termination certificate (nullable set closed under the rules, no nullable repetition body or WHITESPACE, "
            "per-rule depth budgets dominating the left depth of every body with a discount of C levels per consumed "
            "byte — impossible for a left-recursive rule) non-nullable expressions consume on success "
            "(C10_peg_nonnullable_consumes) and run / parse never return OutOfFuel with fuel bytes*C + budget "
            "(C10_peg_run_fuel_sufficient, C10_peg_fuel_sufficient; induction on fuel over the measure bytes left / "
            "rule-call depth without consumption / expression size); the certificate of the regenerated grammar is "
            "recomputed and re-checked by vm_compute on every build with C = 48, budgets <= 128, hence C10_peg_total: "
            "with the model's fuel 128 + 48*bytes the parser model never runs out of fuel on ANY text, and "
            "C10_peg_fuel_independent. PARTIAL: fuel_sufficient_full in its original wording (hypothesis wf_grammar, "
            "the depth-first-search check) stays a Prop — missing is 'the search finds no cycle => budgets exist'; "
            "layout insensitivity of whole programs (blanks "
            "and line breaks inside the compound-atomic expression rule are explicit grammar calls) stays with the "
            "layout searches; the model's pair tree is compared with pest's generated parser on ~5000 generated, "
            "corpus, README and mutated texts per run (PEG-tree, PEG-malformed); round 7: the operator words via / into / where are searched like every other plain name, plus statement-start templates (open finding C10-operator-word-name)",
    "note": "trusted: Coq kernel + vm_compute; translate/prec_table.py and translate/ident_rules.py (source text -> "
            "tables; shape-checked, cross-checked against operator_info of the built crate and against the real parser "
            "by the PARSE / IDENT-model / LEX-after streams); hand transcription of pest 2.8.3 pratt_parser.rs and of "
            "pairs_to_expr_inner; blanks, line breaks, comment placement and trailing commas are decided by exhaustive "
            "single-gap and random layout searches on the real parser (the PEG model of the grammar layer proves the "
            "per-junction whitespace facts only); translate/pest2coq.py (pest meta-grammar parser + optimizer passes) and "
            "the hand transcription coq/Peg.v of pest's runtime, cross-checked pair-for-pair by the PEG streams; no axioms",
    "design_ref": "DESIGN.md section 6 C10; notes/C10.md",
}
REQ = ["Blots.Num", "Blots.gen.Builtins", "Blots.Ast", "Blots.Outcome", "Blots.PrattTypes", "Blots.gen.PrecTable",
       "Blots.Pratt", "Blots.PrattRender", "Blots.PrattStrip"]


def regen_prec(h):
    try:
        txt, info = prec_table.generate(c.REPO, c.harness_oneshot(h, "dump-prec"))
    except prec_table.TranslateError as e:
        raise c.BrokenTie("translate/prec_table.py cannot read the precedence table of the working tree", str(e))
    except (OSError, IOError) as e:
        raise c.BrokenTie("translate/prec_table.py: source file missing", str(e))
    c.write_if_changed(os.path.join(c.GEN, "PrecTable.v"), txt)
    return info


def regen_ident():
    try:
        txt, info = ident_rules.generate(c.REPO)
    except ident_rules.TranslateError as e:
        raise c.BrokenTie("translate/ident_rules.py cannot read the name rules of grammar.pest", str(e))
    except (OSError, IOError) as e:
        raise c.BrokenTie("translate/ident_rules.py: grammar.pest missing", str(e))
    c.write_if_changed(os.path.join(c.GEN, "IdentRules.v"), txt)
    return info


def regen_grammar():
    """coq/gen/Grammar.v: grammar.pest as pest 2.8.3 compiles it (translate/pest2coq.py); see checks/c10_peg.py"""
    return c10_peg.regen_grammar()


def spelling_arms_shared():
    """expressions.rs: every match arm that names BinaryOp::And also names NaturalAnd (same for Or),
    and UnaryOp::Not shares its arm with Invert.  Returns list of complaints."""
    src = prec_table.strip_comments(open(os.path.join(c.REPO, "blots-core", "src", "expressions.rs")).read())
    # only evaluator arms: cut at pairs_to_expr_inner
    cut = src.find("fn pairs_to_expr_inner")
    ev = src[:cut] if cut > 0 else src
    bad = []
    for a, b in (("And", "NaturalAnd"), ("Or", "NaturalOr")):
        for m in re.finditer(r"([^;{}]*?)=>", ev):
            pat = m.group(1)
            has_a = re.search(r"BinaryOp::%s\b" % a, pat) is not None
            has_b = re.search(r"BinaryOp::%s\b" % b, pat) is not None
            if has_a != has_b:
                bad.append("arm `%s =>` treats %s and %s differently" % (" ".join(pat.split())[-80:], a, b))
    return bad


# --------------------------------------------------------------------------- item streams (Coq literals)
def it_id(x):
    return 'IIdent "%s"' % x


def it_op(rule):
    return "IOp %s" % rule


PREFIXES = [None, "R_negation", "R_invert", "R_natural_not"]
POSTFIXES = [None, "IOp R_factorial", 'ICall [[IIdent "u"]]', 'IAccess [IExpr false [IIdent "i"]]', 'IDot "fld"']


def flat_cases(tier, rng):
    cases = []     # (kind, coq items literal)
    ops = g.BINOPS
    for o1 in ops:
        for o2 in ops:
            cases.append(("pair", "[%s; %s; %s; %s; %s]" % (it_id("a"), it_op(g.BIN_RULE[o1]), it_id("b"),
                                                            it_op(g.BIN_RULE[o2]), it_id("c"))))
    triples = [(o1, o2, o3) for o1 in ops for o2 in ops for o3 in ops]
    if tier == "quick":
        # the model runs on a seeded quarter of the triples (all of them in the thorough tier); the
        # implementation is checked on ALL triples against the specification table in triple_search
        triples = [tr for tr in triples if rng.below(4) == 0]
    for o1, o2, o3 in triples:
        cases.append(("triple", "[%s; %s; %s; %s; %s; %s; %s]" % (
            it_id("a"), it_op(g.BIN_RULE[o1]), it_id("b"), it_op(g.BIN_RULE[o2]), it_id("c"),
            it_op(g.BIN_RULE[o3]), it_id("d"))))
    for o in ops:
        for p1 in PREFIXES:
            for q1 in POSTFIXES:
                for p2 in PREFIXES:
                    for q2 in POSTFIXES:
                        its = []
                        if p1:
                            its.append(it_op(p1))
                        its.append(it_id("a"))
                        if q1:
                            its.append(q1)
                        its.append(it_op(g.BIN_RULE[o]))
                        if p2:
                            its.append(it_op(p2))
                        its.append(it_id("b"))
                        if q2:
                            its.append(q2)
                        cases.append(("affix", "[" + "; ".join(its) + "]"))
    # prefix / postfix stacks on one operand, and between two binary operators
    for p1 in PREFIXES[1:]:
        for p2 in PREFIXES:
            for q1 in POSTFIXES[1:]:
                for q2 in POSTFIXES:
                    its = [it_op(p1)] + ([it_op(p2)] if p2 else []) + [it_id("a"), q1] + ([q2] if q2 else [])
                    cases.append(("stack", "[" + "; ".join(its) + "]"))
                    for o in ("Add", "Power", "Coalesce", "NaturalAnd", "Less"):
                        cases.append(("stack", "[" + "; ".join(
                            [it_id("z"), it_op(g.BIN_RULE[o])] + its + [it_op(g.BIN_RULE[o]), it_id("w")]) + "]"))
    return cases


def comment_cases():
    """token streams with comment pairs / annotations (lists, records, do-blocks, nested), each also
    in its stripped form: the model must agree with the real parser on both, and both must agree
    with each other (C10_comments_irrelevant)"""
    a, b, x = 'IIdent "a"', 'IIdent "b"', 'IIdent "x"'
    add = "[%s; IOp R_add; %s]" % (a, b)
    base = [
        '[IList [LCom "// first"; LItem [%s] None; LCom "// second"; LCom "// third"; LItem %s None]]' % (a, add),
        '[IList [LItem [%s] None; LItem [%s] (Some "// eol on the last item")]]' % (a, b),
        '[IList [LItem [%s] (Some "// eol after the comma"); LItem [%s] None; LCom "// closing"]]' % (a, b),
        '[IList [LCom "// only a comment before the item"; LItem [IList [LCom "// nested"; LItem [%s] None]] None]]' % a,
        '[IRecord [RCom "// k"; RPairI (RKId "k") %s None; RCom "// s"; RShortI "b" None; '
        'RSpreadI [IOp R_spread_operator; IExpr false [%s]] (Some "// last")]]' % (add, x),
        '[IRecord [RPairI (RKDyn [IExpr false [%s]]) [%s] (Some "// dyn"); RPairI (RKStr "q r") [%s] None; RCom "// end"]]'
        % (a, b, x),
        '[IDo [DCom "// lead"; DStmt [IAssign "x" %s] (Some "// trailing"); DCom "// between"; '
        'DStmt [%s] None; DCom "// before return"; DRet [%s; IOp R_multiply; %s]]]' % (add, x, x, a),
        '[IDo [DStmt [%s] None; DRet [IList [LCom "// in list in do"; LItem [%s] None]]]]' % (a, x),
        '[%s; ICall [[IList [LCom "// c"; LItem [%s] None]]; %s]; IOp R_add; '
        'ILambda [AReq "x"] [IDo [DCom "// in lambda"; DRet [%s]]]]' % ('IIdent "f"', a, add, x),
        '[ICond [%s] [IList [LCom "// then"; LItem [%s] None]] [IRecord [RCom "// else"; RShortI "b" None]]]' % (a, b),
    ]
    cases = []
    for e in base:
        cases.append(("comments", e))
        cases.append(("comments-stripped", "(strip_items %s)" % e))
    return cases


def err_cases():
    """a number literal whose conversion returns Err (hex literal above i64): the Err is a VALUE that
    the Pratt loop keeps carrying; the result is Err wherever the literal stands"""
    a = 'IIdent "a"'
    return [("err", e) for e in [
        "[IBadNum]", "[IBadNum; IOp R_add; %s]" % a, "[%s; IOp R_power; IOp R_negation; IBadNum; IOp R_factorial]" % a,
        "[IList [LItem [%s] None; LItem [IBadNum] None; LItem [%s] None]]" % (a, a),
        "[%s; ICall [[%s]; [IBadNum]]]" % (a, a), "[%s; IAccess [IExpr false [IBadNum]]]" % a,
        "[ICond [%s] [IBadNum] [%s]]" % (a, a), '[IRecord [RPairI (RKId "k") [IBadNum] None]]',
        '[ILambda [AReq "x"] [IBadNum; IOp R_multiply; %s]]' % a, "[IExpr true [IBadNum]; IOp R_coalesce; %s]" % a]]


def check_comment_pairs(res, cases, models, impls):
    k = [i for i, (kind, _) in enumerate(cases) if kind == "comments"]
    bad = [i for i in k if impls[i] != impls[i + 1] or models[i] != models[i + 1] or not (impls[i] or "").startswith("E ")]
    if bad:
        i = bad[0]
        res.violation("comments change the parsed program",
                      {"kind": "impl-law", "law": "AST(with comments) == AST(comments removed)",
                       "program": None, "observed": impls[i], "expected": impls[i + 1], "case": cases[i][1]})
    return len(k)


def coq_case(items_expr):
    return '(let its := %s in hex_of_string (items_text its) ++ "|" ++ show_tres (pratt_impl its))' % items_expr


def run_stream(h, res, name, cases, expect=None):
    """cases: list of (kind, coq items expr).  Runs the model (text + AST), then the real parser on
    the model's text, diffs.  expect: optional list of expected result strings (round trip)."""
    try:
        outs = c.coq_eval_batch(REQ, "", [coq_case(e) for _, e in cases], "c10" + re.sub(r"[^A-Za-z0-9]", "_", name))
    except c.BrokenTie as e:
        res.tie_broken(e.what, e.detail)
        return None
    texts, models = [], []
    for o in outs:
        if o is None or "|" not in o:
            texts.append(None)
            models.append(None)
        else:
            hx, m = o.split("|", 1)
            texts.append(bytes.fromhex(hx).decode("utf-8"))
            models.append(m)
    missing = [i for i, t in enumerate(texts) if t is None]
    if missing:
        res.tie_broken("model evaluation returned nothing for %d %s cases" % (len(missing), name),
                       cases[missing[0]][1][:400])
    idx = [i for i, t in enumerate(texts) if t is not None]
    impl = c.harness_lines_resilient(h, "parse10", [c.hexs(texts[i]) for i in idx])
    impls = [None] * len(cases)
    for i, o in zip(idx, impl):
        impls[i] = o
    mism = [i for i in idx if impls[i] != models[i]]
    fuel = sum(1 for i in idx if models[i] == "OUTOFFUEL")
    st = {"cases": len(cases), "evaluated": len(idx), "mismatches": len(mism), "model_out_of_fuel": fuel,
          "kinds": {}, "impl_rejects": sum(1 for i in idx if impls[i] == "REJECT"),
          "impl_panics": sum(1 for i in idx if (impls[i] or "").startswith(("PANIC", "ABORT")))}
    for k, _ in cases:
        st["kinds"][k] = st["kinds"].get(k, 0) + 1
    res.streams[name] = st
    if fuel:
        res.tie_broken("model ran out of fuel on %d %s cases" % (fuel, name))
    if mism:
        i = mism[0]
        res.tie_broken("correspondence C10/%s: model and implementation disagree on %d of %d inputs"
                       % (name, len(mism), len(idx)),
                       "first: text=%r model=%s impl=%s" % (texts[i], models[i], impls[i]))
    return texts, models, impls


# --------------------------------------------------------------------------- known findings
KNOWN_IDENT = "C10-bool-null-prefix"
KNOWN_BANG = "C10-bang-equals"


def ident_in_known_class(name):
    """mirrors known/C10.json class of C10-bool-null-prefix: a name that extends true/false/null"""
    return re.match(r"^(true|false|null)[A-Za-z0-9_]+$", name) is not None


def text_in_bang_class(text):
    """mirrors known/C10.json class of C10-bang-equals: `!=` written directly after an operand"""
    return re.search(r"(?<![\s.])!=", text) is not None and not text.startswith("!=")


# --------------------------------------------------------------------------- tree streams
def tree_stream(h, res, rng, n, depth, builtin_names):
    tg = g.TreeGen(rng)
    cases, meta = [], []
    while len(cases) < n:
        t = tg.tree(1 + rng.below(depth))
        par, wn = g.random_oracles(rng, t)
        cases.append(("tree", g.coq_render(t, par, 0, wn)))
        meta.append((t, par, wn))
    r = run_stream(h, res, "PARSE-tree", cases)
    if not r:
        return tg, meta, 0
    texts, models, impls = r
    twin_bad = rt_model_bad = rt_impl_bad = 0
    first = None
    for (t, par, wn), tx, m, im in zip(meta, texts, models, impls):
        if tx is None:
            continue
        mine = g.Renderer(par, 0, wn).render(t)
        exp = "E " + g.show(t)
        if mine != tx:
            twin_bad += 1
            first = first or ("renderer twin", mine, tx)
        if m != exp:
            rt_model_bad += 1
            first = first or ("model round trip", tx, m)
        if im != exp:
            rt_impl_bad += 1
            if rt_impl_bad <= 3:
                res.violation("the parser does not build the tree that the text denotes under the fixed table",
                              {"kind": "impl-law", "law": "parse(rendering of t under spec_table) == t",
                               "program": tx, "observed": im, "expected": exp,
                               "rerun": "./check C10 --replay <this file>"})
    st = res.streams["PARSE-tree"]
    st.update({"renderer_twin_mismatches": twin_bad, "model_roundtrip_failures": rt_model_bad,
               "impl_roundtrip_failures": rt_impl_bad,
               "node_histogram": dict(sorted(tg.hist.items())),
               "text_bytes_max": max(len(x) for x in texts if x is not None)})
    if twin_bad:
        res.tie_broken("checks/c10_gen.py renderer and PrattRender.items_text disagree on %d trees" % twin_bad,
                       "python=%r coq=%r" % (first[1], first[2]))
    if rt_model_bad:
        res.tie_broken("the model does not recover %d rendered trees (contradicts C10_pratt_roundtrip_all: "
                       "generator produced a tree outside wf?)" % rt_model_bad, repr(first))
    return tg, meta, len(cases) - st["mismatches"]


def small_trees():
    """every ordered pair of binary operators in both shapes, and every unary / postfix operator
    above and below every binary operator (exhaustive; gives minimal failing inputs)"""
    a, b, cc, f, i = ("id", "a"), ("id", "b"), ("id", "c"), ("id", "f"), ("id", "i")
    out = []
    for o1 in g.BINOPS:
        for o2 in g.BINOPS:
            out.append(("bin", o1, ("bin", o2, a, b), cc))
            out.append(("bin", o1, a, ("bin", o2, b, cc)))
    wraps = [lambda x: ("un", "Negate", x), lambda x: ("un", "Not", x), lambda x: ("fact", x),
             lambda x: ("call", x, [i]), lambda x: ("idx", x, i), lambda x: ("dot", x, "fld")]
    for o in g.BINOPS:
        for w in wraps:
            out.append(w(("bin", o, a, b)))
            out.append(("bin", o, w(a), b))
            out.append(("bin", o, a, w(b)))
    for w1 in wraps:
        for w2 in wraps:
            out.append(w1(w2(a)))
    return out


def small_search(h, res):
    """Implementation only, exhaustive: minimal text == fully parenthesised text == the tree."""
    trees = small_trees()
    lines, plines = [], []
    for t in trees:
        base = g.Renderer({}, 0, set()).render(t)
        full = g.Renderer({}, 1, set()).render(t)
        lines.append(c.hexs(base) + "\t" + c.hexs(full))
        plines.append(c.hexs(base))
    eq = c.harness_lines_resilient(h, "parse10eq", lines)
    ps = c.harness_lines_resilient(h, "parse10", plines)
    viol = 0
    for t, o, pp in zip(trees, eq, ps):
        base = g.Renderer({}, 0, set()).render(t)
        exp = "E " + g.show(t)
        if o != "SAME" or pp != exp:
            viol += 1
            if viol <= 3:
                res.violation("an expression and its fully parenthesised form under the fixed table parse differently",
                              {"kind": "impl-law", "law": "AST(minimal) == AST(fully parenthesised) == the tree",
                               "base": base, "variant": g.Renderer({}, 1, set()).render(t),
                               "observed": o, "expected": "SAME", "observed_ast_of_base": pp,
                               "expected_ast_of_base": exp, "rerun": "./check C10 --replay <this file>"})
    res.streams["SEARCH-small"] = {"trees": len(trees), "exhaustive": True, "violations": viol}
    return 2 * len(trees)


def spec_climb(operands, ops):
    """precedence climbing under the specification table (c10_gen.SPEC_LEVEL / RIGHT_ASSOC)"""
    pos = [0]

    def expr(minlvl):
        lhs = operands[pos[0]]
        while pos[0] < len(ops):
            o = ops[pos[0]]
            lv = g.SPEC_LEVEL[o]
            if lv < minlvl:
                break
            pos[0] += 1
            rhs = expr(lv if o in g.RIGHT_ASSOC else lv + 1)
            lhs = ("bin", o, lhs, rhs)
        return lhs
    return expr(0)


def triple_search(h, res):
    """Implementation only, exhaustive: every ordered triple (and pair) of the 26 binary operators as
    a flat text; the parser must group it as the specification table says."""
    names = [("id", x) for x in "abcd"]
    cases = []
    for o1 in g.BINOPS:
        for o2 in g.BINOPS:
            cases.append((o1, o2))
            for o3 in g.BINOPS:
                cases.append((o1, o2, o3))
    lines, exps, texts = [], [], []
    for ops in cases:
        text = "a"
        for k, o in enumerate(ops):
            text += " %s %s" % (g.BIN_TEXT[o], "bcd"[k])
        t = spec_climb(names[:len(ops) + 1], list(ops))
        lines.append(c.hexs(text))
        texts.append(text)
        exps.append("E " + g.show(t))
    outs = c.harness_lines_resilient(h, "parse10", lines)
    viol = 0
    for text, exp, o in zip(texts, exps, outs):
        if o != exp:
            viol += 1
            if viol <= 3:
                res.violation("operators are not grouped as the fixed table says",
                              {"kind": "impl-law", "law": "parse(flat text) == grouping under the specification table",
                               "program": text, "observed": o, "expected": exp,
                               "rerun": "./check C10 --replay <this file>"})
    res.streams["SEARCH-triples"] = {"texts": len(lines), "exhaustive": True, "violations": viol}
    return len(lines)


def small_layout_search(h, res):
    """Implementation only, exhaustive: every single layout gap of a set of small programs filled with
    every filler the grammar admits there (gives minimal failing inputs for layout changes)."""
    a, b, cc = ("id", "a"), ("id", "b"), ("id", "c")
    trees = [("bin", o, a, b) for o in g.BINOPS]
    trees += [("bin", "Add", a, ("bin", "Multiply", b, cc)), ("bin", "NotEqual", ("fact", a), b),
              ("un", "Not", a), ("un", "Negate", a), ("fact", a),
              ("call", ("id", "f"), []), ("call", ("id", "f"), [a]), ("call", ("id", "f"), [a, ("spread", b)]),
              ("idx", a, b), ("dot", a, "fld"), ("list", [a]), ("list", [a, b, ("spread", cc)]),
              ("rec", [("static", "k", a)]), ("rec", [("static", "k", a), ("short", "b", None),
                                                        ("dyn", b, cc), ("spread", ("spread", cc), None)]),
              ("lam", [], a), ("lam", [("req", "x")], ("bin", "NaturalAnd", ("id", "x"), b)),
              ("lam", [("req", "x"), ("opt", "y")], a), ("cond", a, b, cc), ("assign", "x", ("bin", "Add", a, b)),
              ("do", [("assign", "x", a), b], ("id", "x")), ("do", [], a)]
    lines, info = [], []
    for t in trees:
        for wn in (set(), {()}):
            if wn and not (t[0] == "un" and t[1] == "Not"):
                continue
            for par in ({}, {(): 1}, {(0,): 1}):
                r = g.Renderer(par, 0, wn)
                parts = r.parts(t)
                base = g.fill(parts, None)
                gaps = [k for k, x in enumerate(parts) if isinstance(x, g.Gap)]
                for k in gaps:
                    for f in (g.FILL.get(parts[k].kind) or g.EXTRA_FILL[parts[k].kind]):
                        v = "".join((f if j == k else (x.canon if isinstance(x, g.Gap) else x))
                                    for j, x in enumerate(parts))
                        if v != base:
                            lines.append(c.hexs(base) + "\t" + c.hexs(v))
                            info.append((base, v, parts[k].kind))
    outs = c.harness_lines_resilient(h, "parse10eq", lines)
    viol = known = 0
    kinds = {}
    for (base, v, kind), o in zip(info, outs):
        kinds[kind] = kinds.get(kind, 0) + 1
        if o == "SAME":
            continue
        if o == "REJECT-B" and text_in_bang_class(v) and not text_in_bang_class(base) and bang_open(res):
            known += 1
            continue
        viol += 1
        if viol <= 3:
            res.violation("optional layout changes the parsed program (%s gap: %s)" % (kind, o),
                          {"kind": "impl-law", "law": "AST(base) == AST(variant)", "base": base, "variant": v,
                           "observed": o, "expected": "SAME", "rerun": "./check C10 --replay <this file>"})
    res.streams["SEARCH-layout-small"] = {"pairs": len(lines), "exhaustive": True, "gap_kinds": kinds,
                                          "known_bang_equals": known, "violations": viol}
    return len(lines)


def statement_layout_search(h, res):
    """Implementation only, exhaustive over a small set: layout between and around statements."""
    progs = [["x = 1", "y = x + 1"], ["output x = 1", "x * 2"], ["f = (a) => a + 1", "output f", "f(2)"],
             ["[1, 2]", "{a: 1}"], ["a!", "b"]]
    seps = ["\n", "\n\n", " \n", "\n\n\n", " // note\n", "\n// line\n", " // note\n\n// line\n", "\r\n"]
    pre = ["", "\n", "// head\n", "\n\n// head\n\n"]
    post = ["", "\n", " // tail", "\n// tail", "\n\n", " // tail\n"]
    lines, info = [], []
    for st in progs:
        base = "\n".join(st)
        vs = [a + sp.join(st) + z for sp in seps for a in ("",) for z in ("",)]
        vs += [a + base for a in pre] + [base + z for z in post]
        for v in vs:
            if v != base:
                lines.append(c.hexs(base) + "\t" + c.hexs(v))
                info.append((base, v))
    outs = c.harness_lines_resilient(h, "parse10eq", lines)
    viol = 0
    for (base, v), o in zip(info, outs):
        if o != "SAME":
            viol += 1
            if viol <= 3:
                res.violation("layout between statements changes the parsed program (%s)" % o,
                              {"kind": "impl-law", "law": "AST(base) == AST(variant)", "base": base, "variant": v,
                               "observed": o, "expected": "SAME", "rerun": "./check C10 --replay <this file>"})
    res.streams["SEARCH-statement-layout"] = {"pairs": len(lines), "exhaustive": True, "violations": viol}
    return len(lines)


def search_stream(h, res, rng, meta, layouts_per_tree):
    """Implementation only: the minimally parenthesised text, the fully parenthesised text, random
    redundant parentheses and random layout must all give the same AST."""
    lines, info = [], []
    for t, _, _ in meta:
        need = g.text_level_parens(t)
        base = g.Renderer(need, 0, set()).render(t)
        full = g.Renderer(need, 1, set()).render(t)
        variants = [("full", full)]
        par, wn = g.random_oracles(rng, t, 1, 3)
        rr = g.Renderer(par, 0, wn)
        variants.append(("parens+not", rr.render(t)))
        for _ in range(layouts_per_tree):
            variants.append(("layout", g.fill(g.Renderer(need, 0, set()).parts(t), rng, 1, 2)))
        variants.append(("layout+parens", g.fill(rr.parts(t), rng, 1, 2)))
        variants.append(("statement-layout", rng.choice(["// lead\n", "\n\n", "  ", "\n// a\n// b\n", ""]) + base
                         + rng.choice([" // trail", "\n", "  ", "\n\n// end", "\n// end\n", " //"])))
        for kind, v in variants:
            if v != base:
                lines.append(c.hexs(base) + "\t" + c.hexs(v))
                info.append((kind, base, v, t))
    outs = c.harness_lines_resilient(h, "parse10eq", lines)
    hist, known_bang, viol = {}, 0, 0
    for (kind, base, v, t), o in zip(info, outs):
        hist.setdefault(kind, {}).setdefault(o, 0)
        hist[kind][o] += 1
        if o == "SAME":
            continue
        if o == "REJECT-B" and text_in_bang_class(v) and not text_in_bang_class(base) and bang_open(res):
            known_bang += 1
            continue
        viol += 1
        if viol <= 3:
            res.violation("layout / parenthesis variant of an expression parses differently (%s: %s)" % (kind, o),
                          {"kind": "impl-law", "law": "AST(base) == AST(variant)", "base": base, "variant": v,
                           "observed": o, "expected": "SAME", "variant_kind": kind,
                           "rerun": "./check C10 --replay <this file>"})
    res.streams["SEARCH-variants"] = {"pairs": len(lines), "outcomes": hist, "known_bang_equals": known_bang,
                                      "violations": viol}
    return len(lines)


_open_cache = {}


def bang_open(res):
    if "bang" not in _open_cache:
        _open_cache["bang"] = any(e.get("id") == KNOWN_BANG for e in c.open_known(PID))
    return _open_cache["bang"]


def ident_open():
    if "ident" not in _open_cache:
        _open_cache["ident"] = any(e.get("id") == KNOWN_IDENT for e in c.open_known(PID))
    return _open_cache["ident"]


def ident_names(rng, tier, builtin_names):
    names = []
    for w in g.RESERVED:
        for ch in ("x", "Q", "7", "_"):
            names.append(w + ch)
            if not ch.isdigit():
                names.append(ch + w)
        names.append(w + w)
        names.append(w.upper())
        names.append(w.capitalize())
        names.append(w + "_" + w)
    names += ["trueish", "null_count", "android", "iffy", "falsey", "nothing", "donut", "orange", "returned",
              "outputs", "elsewhere", "thence", "nullable", "truth", "fals", "nul", "i", "t", "_", "__", "_1",
              "a1b2", "via_", "x_via", "wherever", "intox", "notify", "dot", "ifx", "if_", "or2", "and_1",
              # names that extend the evaluator's fixed names (inf, infinity, constants, inputs, pi, e, ...)
              "info", "inflation", "inf_", "infinity_norm", "constants_table", "constant", "inputs_x", "input",
              "pie", "e1", "tau2", "nano", "max_valued", "output_rate", "outputs2"]
    alpha = "abcdefghijklmnopqrstuvwxyzABCDEFGHIJKLMNOPQRSTUVWXYZ_"
    for _ in range(40 if tier == "quick" else 400):
        n = rng.choice(alpha) + "".join(rng.choice(alpha + "0123456789") for _ in range(rng.below(8)))
        names.append(n)
    skip = set(g.RESERVED) | set(builtin_names) | {"inf", "infinity", "pi", "e", "tau", "nan", "via", "into", "where",
                                                   "inputs", "constants", "max_value", "min_value"}
    out = []
    for n in names:
        if n not in skip and n not in out:
            out.append(n)
    return out


def ident_templates(N):
    i = ("id", N)
    five = ("num", 5)
    asg = ("assign", N, five)
    T = [
        ("%s = 5\n%s + 1", [asg, ("bin", "Add", i, ("num", 1))]),
        ("%s = 5\n1 + %s", [asg, ("bin", "Add", ("num", 1), i)]),
        ("%s = 5\ny = -%s", [asg, ("assign", "y", ("un", "Negate", i))]),
        ("%s = 5\nnot %s", [asg, ("un", "Not", i)]),
        ("%s = 5\n!%s", [asg, ("un", "Not", i)]),
        ("%s = 5\n%s!", [asg, ("fact", i)]),
        ("%s = 5\n[%s, %s]", [asg, ("list", [i, i])]),
        ("%s = 5\n[...%s]", [asg, ("list", [("spread", i)])]),
        ("%s = 5\n{k: %s}", [asg, ("rec", [("static", "k", i)])]),
        ("%s = 5\n{%s}", [asg, ("rec", [("short", N, None)])]),
        ("%s = 5\n{%s: 1}", [asg, ("rec", [("static", N, ("num", 1))])]),
        ("%s = 5\nfoo(%s)", [asg, ("call", ("id", "foo"), [i])]),
        ("%s = 5\n%s(1)", [asg, ("call", i, [("num", 1)])]),
        ("%s = 5\n%s.f", [asg, ("dot", i, "f")]),
        ("%s = 5\nq.%s", [asg, ("dot", ("id", "q"), N)]),
        ("%s = 5\n%s[0]", [asg, ("idx", i, ("num", 0))]),
        ("%s = 5\nq[%s]", [asg, ("idx", ("id", "q"), i)]),
        ("%s = 5\nif %s then %s else %s", [asg, ("cond", i, i, i)]),
        ("%s = 5\n(%s)", [asg, i]),
        ("%s = 5\n(%s) * 2", [asg, ("bin", "Multiply", i, ("num", 2))]),
        ("(%s) => %s", [("lam", [("req", N)], i)]),
        ("%s => %s + 1", [("lam", [("req", N)], ("bin", "Add", i, ("num", 1)))]),
        ("%s = 5\ndo {\n  y = %s\n  return %s\n}", [asg, ("do", [("assign", "y", i)], i)]),
        ("%s = 5\ny = %s", [asg, ("assign", "y", i)]),
        ("%s = 5\n%s and %s", [asg, ("bin", "NaturalAnd", i, i)]),
        ("%s = 5\n%s via %s", [asg, ("bin", "Via", i, i)]),
        ("%s = 5\n%s == %s", [asg, ("bin", "Equal", i, i)]),
        ("%s = 5\nq ?? %s", [asg, ("bin", "Coalesce", ("id", "q"), i)]),
        ("%s = 5\n%s", [asg, i]),
    ]
    out = []
    for fmt, exp in T:
        src = fmt.replace("%s", N)
        out.append((src, " ;; ".join("E " + g.show(e) for e in exp)))
    return out


def ident_model_stream(h, res, names):
    """The name rules of the model (C10Ident.v on the generated rules) against the real parser: for
    every generated name and every reserved word W, which alternative of `term` reads `W + 1`."""
    words = list(names) + list(g.RESERVED)
    try:
        outs = c.coq_eval_batch(["Blots.C10Ident", "Blots.gen.IdentRules", "Blots.C10IdentImpl"], "",
                                ['show_alt (term_word_impl "%s + 1")' % w for w in words], "c10ident")
    except c.BrokenTie as e:
        res.tie_broken(e.what, e.detail)
        return 0
    impl = c.harness_lines_resilient(h, "parse10", [c.hexs("%s + 1" % w) for w in words])
    mism = 0
    hist = {}
    for w, m, im in zip(words, outs, impl):
        one = "(ENum (nb 0x3ff0000000000000))"
        if m == "I: + 1":
            if w in names:
                exp = "E (EBin Add (EId %s) %s)" % (g.cstr(w), one)
            else:
                exp = None          # a reserved word read as identifier: never expected
        elif m == "B: + 1":
            exp = "E (EBin Add (EBool %s) %s)" % (w, one)
        elif m == "N: + 1":
            exp = "E (EBin Add ENull %s)" % one
        else:
            exp = "REJECT"          # nothing matches, or a literal matched a proper prefix
        hist[(m or "?")[:2]] = hist.get((m or "?")[:2], 0) + 1
        if exp != im:
            mism += 1
            if mism == 1:
                res.tie_broken("correspondence C10/IDENT-model: the name rules of the model and the real parser "
                               "disagree", "word=%r model=%r impl=%r" % (w, m, im))
    res.streams["IDENT-model"] = {"words": len(words), "mismatches": mism, "model_alternatives": hist}
    return len(words)


SYMBOL_OPS = [o for o in g.BINOPS if o not in g.WORD_OPS]


def lex_after_stream(h, res):
    """The after-operand model (C10Ident.after_operand_lex on the generated rules) against the real
    parser: every symbol operator after `a`, `a!`, `a!!`, `a.f`, with and without blanks."""
    ctxs = [("", 0, 0), ("!", 1, 0), ("!!", 2, 0), (".f", 0, 1)]
    gaps = [("", ""), (" ", " "), (" ", ""), ("", " "), ("\n", "\n")]
    cases = []
    for o in SYMBOL_OPS:
        for post, nf, nd in ctxs:
            for g1, g2 in gaps:
                cases.append((o, post, nf, nd, post + g1 + g.BIN_TEXT[o] + g2 + "b"))

    def cq(sx):
        return '"' + sx.replace("\n", '" ++ nl ++ "') + '"'
    try:
        outs = c.coq_eval_batch(["Blots.PrattTypes", "Blots.C10Ident", "Blots.gen.IdentRules", "Blots.C10IdentImpl",
                                 "Blots.PrattRender"], "",
                                ["show_after (after_operand_impl (%s))" % cq(cs[4]) for cs in cases], "c10lex")
    except c.BrokenTie as e:
        res.tie_broken(e.what, e.detail)
        return 0
    impl = c.harness_lines_resilient(h, "parse10", [c.hexs("a" + cs[4]) for cs in cases])
    mism = 0
    rejects = 0
    for (o, post, nf, nd, tail), m, im in zip(cases, outs, impl):
        operand = ("id", "a")
        for _ in range(nd):
            operand = ("dot", operand, "f")
        for _ in range(nf):
            operand = ("fact", operand)
        if m is not None and m.startswith("OP:") and m.endswith(":b"):
            _, cnt, name, _ = m.split(":", 3)
            exp = "E " + g.show(("bin", name, operand, ("id", "b"))) if cnt == "%d%d" % (nf, nd) else "?"
        elif m is not None and m.startswith("END:") and not m.endswith(":"):
            exp = "REJECT"
            rejects += 1
        else:
            exp = "?"
        if exp != im:
            mism += 1
            if mism == 1:
                res.tie_broken("correspondence C10/LEX-after: the after-operand model and the real parser disagree",
                               "text=%r model=%r impl=%r" % ("a" + tail, m, im))
    res.streams["LEX-after"] = {"texts": len(cases), "mismatches": mism, "model_rejects": rejects}
    return len(cases)


def ident_stream(h, res, rng, tier, builtin_names, model_ok=True):
    names = ident_names(rng, tier, builtin_names)
    if model_ok:
        ident_model_stream(h, res, names)
        lex_after_stream(h, res)
    lines, info = [], []
    for n in names:
        for src, exp in ident_templates(n):
            lines.append(c.hexs(src))
            info.append((n, src, exp))
    outs = c.harness_lines_resilient(h, "parse10", lines)
    ev_lines = [c.hexs("%s = 5\n%s + 1" % (n, n)) for n in names]
    ev = c.harness_lines_resilient(h, "eval", ev_lines)
    # evaluation: a program over a plain name gives the same results as the same program over another
    # plain name (binding at top level, as a parameter of every kind, as a do-local; referenced in every
    # position incl. from a closure that outlives the scope that bound it)
    REN = ["%s = 5\n[%s + 1, {%s}, {hk9: %s}, [%s][0], (hx9 => hx9 + %s)(1), do {\n  hy9 = %s\n  return hy9\n}]",
           "hmk9 = %s => (hx9 => hx9 + %s)\nhf9 = hmk9(10)\nhf9(1)",
           "hmk9 = (ha9, %s?) => (hx9 => [hx9, %s])\nhmk9(1)(2)",
           "hmk9 = (...%s) => (hx9 => [hx9, %s])\nhmk9(1, 2)(3)",
           "hh9 = () => do {\n  %s = 3\n  hk9 = () => %s + 1\n  return hk9\n}\nhh9()()",
           "hr9 = {%s: 1}\n[hr9.%s, keys(hr9)]", "[1, 2] via (%s => %s * 2)", "reduce([1, 2], (%s, hx9) => %s + hx9, 0)",
           "%s = hx9 => if hx9 <= 0 then 0 else 1 + %s(hx9 - 1)\n%s(3)",
           "%s = 4\nhwrap9 = () => (() => %s)\nhwrap9()()", "output %s = 2\n%s + 1"]
    ren_src = []
    for n in names:
        for tpl in REN:
            ren_src.append(tpl.replace("%s", n))
    ref_out = [re.sub(r"@(-|[0-9a-f]+)", "", o) for o in c.harness_lines_resilient(h, "eval", [c.hexs(t.replace("%s", "zq9")) for t in REN])]
    ren_out = c.harness_lines_resilient(h, "eval", [c.hexs(sx) for sx in ren_src])
    fails, known, viol = {}, 0, 0
    for k, o in enumerate(ren_out):
        n = names[k // len(REN)]
        # the statement results only (the environment listing is sorted by name); record keys are hex
        want = ref_out[k % len(REN)].split(";ENV:")[0].replace(c.hexs("zq9"), c.hexs(n))
        got = re.sub(r"@(-|[0-9a-f]+)", "", o).split(";ENV:")[0]
        if got != want:
            fails.setdefault(n, []).append((ren_src[k], got, want + "   (the same program over the name zq9)"))
    for (n, src, exp), o in zip(info, outs):
        if o != exp:
            fails.setdefault(n, []).append((src, o, exp))
    for n, o in zip(names, ev):
        body = o.split(";ENV:")[0]
        if body != "OK:N4014000000000000|OK:N4018000000000000":
            fails.setdefault(n, []).append(("%s = 5\n%s + 1" % (n, n), body, "5 then 6"))
    for n, fl in fails.items():
        if ident_in_known_class(n) and ident_open():
            known += 1
            continue
        viol += 1
        if viol <= 3:
            src, o, exp = fl[0]
            res.violation("a plain name cannot be bound and then referenced (%s)" % n,
                          {"kind": "impl-law", "law": "bind then reference", "name": n, "program": src,
                           "observed": o, "expected": exp, "failing_templates": len(fl),
                           "rerun": "./check C10 --replay <this file>"})
    # OPERATOR-WORD names (round 7): via / into / where are operators but NOT reserved words, so they are plain names
    # by the property's wording; every renaming template must work for them.  The statement-start templates put the
    # name first in a statement that follows another one: the grammar admits a line break before a binary operator, so
    # for these three names the line is read as a continuation of the previous statement (open finding
    # C10-operator-word-name); for every other name the templates must behave like the reference name.
    START = ["%s = 5\nhy9 = 3\n%s -1", "%s = [5, 6]\nhy9 = [3]\n%s [0]", "%s = 5\nhy9 = [3]\n%s (x9 => x9)",
             "%s = 5\nhy9 = 3\n%s - 1", "%s = 5\nhy9 = 3\n%s", "%s = 5\nhy9 = 3\n%s + 1"]
    opw = ["via", "into", "where"]
    ctl = [n for n in names if n not in fails][:12] + ["via_", "wherever", "intox", "viaduct"]
    st_ref = [re.sub(r"@(-|[0-9a-f]+)", "", o).split(";ENV:")[0]
              for o in c.harness_lines_resilient(h, "eval", [c.hexs(t.replace("%s", "zq9")) for t in REN + START])]
    ow_src = [(n, k, t.replace("%s", n)) for n in opw + ctl for k, t in enumerate(REN + START)]
    ow_out = c.harness_lines_resilient(h, "eval", [c.hexs(sx) for _, _, sx in ow_src])
    ow_open = any(e.get("id") == "C10-operator-word-name" for e in c.open_known(PID))
    ow_known, ow_viol, ow_fail_tpl = 0, 0, {}
    for (n, k, sx), o in zip(ow_src, ow_out):
        want = st_ref[k].replace(c.hexs("zq9"), c.hexs(n))
        got = re.sub(r"@(-|[0-9a-f]+)", "", o).split(";ENV:")[0]
        if got == want:
            continue
        if n in opw and k >= len(REN) and ow_open:
            ow_known += 1
            ow_fail_tpl[k - len(REN)] = ow_fail_tpl.get(k - len(REN), 0) + 1
            continue
        ow_viol += 1
        if ow_viol <= 3:
            res.violation("a plain name cannot be bound and then referenced (%s)" % n,
                          {"kind": "impl-law", "law": "bind then reference (operator-word / statement-start family)",
                           "name": n, "program": sx, "observed": got, "expected": want + "   (the same program over the name zq9)",
                           "rerun": "./check C10 --replay <this file>"})
    res.streams["SEARCH-operator-word-names"] = {"names": opw, "control_names": len(ctl), "templates": len(REN) + len(START),
                                                 "statement_start_templates": len(START), "programs": len(ow_src),
                                                 "differences_under_open_finding": ow_known,
                                                 "by_statement_start_template": ow_fail_tpl, "violations": ow_viol}
    ok_known_class = sum(1 for n in names if ident_in_known_class(n) and n not in fails)
    res.streams["SEARCH-identifiers"] = {"names": len(names), "programs": len(lines) + len(ev_lines) + len(ren_src), "renaming_templates": len(REN),
                                         "names_failing": len(fails), "in_known_class": known,
                                         "known_class_names_that_work": ok_known_class, "violations": viol,
                                         "sample_names": names[:12]}
    return len(lines) + len(ev_lines)


def spelling_stream(h, res, rng):
    vals = ["true", "false", "1", '"s"', "null", "[true, false]", "[false]", "nope", "(1 > 2)", "[]"]
    progs = []
    for a in vals:
        progs.append(("not %s" % a, "!%s" % a))
        progs.append(("not not %s" % a, "!!%s" % a))
        for b in vals:
            progs.append(("%s and %s" % (a, b), "%s && %s" % (a, b)))
            progs.append(("%s or %s" % (a, b), "%s || %s" % (a, b)))
            progs.append(("not %s and %s" % (a, b), "!%s && %s" % (a, b)))
            progs.append(("%s or %s and not %s" % (a, b, a), "%s || %s && !%s" % (a, b, a)))
            progs.append(("[%s] where x => x and %s" % (a, b), "[%s] where x => x && %s" % (a, b)))
    lines = []
    for w, sy in progs:
        lines += [c.hexs(w), c.hexs(sy)]
    outs = c.harness_lines_resilient(h, "eval", lines)
    viol = 0
    oks = 0
    for k, (w, sy) in enumerate(progs):
        ow, os_ = outs[2 * k], outs[2 * k + 1]
        if ow.startswith("OK") and ow == os_:
            oks += 1
        if ow != os_:
            viol += 1
            if viol <= 3:
                res.violation("word and symbol spellings evaluate differently",
                              {"kind": "impl-law", "law": "eval(word spelling) == eval(symbol spelling)",
                               "program": w, "program_b": sy, "observed": ow, "expected": os_})
    res.streams["SEARCH-spelling"] = {"pairs": len(progs), "both_ok_and_equal": oks, "violations": viol}
    return len(lines)


def corpus_stream(h, res):
    d = os.path.join(c.VERIF, "corpus", PID)
    n = 0
    for fn in sorted(os.listdir(d)) if os.path.isdir(d) else []:
        if not fn.endswith(".json"):
            continue
        with open(os.path.join(d, fn)) as f:
            case = json.load(f)
        n += 1
        if case.get("kind") == "parse-eq":
            o = c.harness_lines_resilient(h, "parse10eq", [c.hexs(case["base"]) + "\t" + c.hexs(case["variant"])])[0]
        else:
            o = c.harness_lines_resilient(h, "parse10", [c.hexs(case["program"])])[0]
        if o != case["expected"]:
            kn = case.get("known")
            if kn and any(e.get("id") == kn for e in c.open_known(PID)):
                continue
            res.violation("corpus case %s: %s" % (fn, case.get("what", "")),
                          dict(case, observed=o, rerun="./check C10 --replay <this file>"))
    res.streams["corpus"] = {"cases": n}
    return n


def known_step(h, res):
    for e in c.open_known(PID):
        w = e.get("witness", {})
        if e.get("id") == KNOWN_IDENT:
            o = c.harness_lines_resilient(h, "parse10", [c.hexs(w["program"])])[0]
            still = (o == "REJECT")
            res.known("%s: `%s` binds but the reference does not parse (bool/null literal matched without a word "
                      "boundary)%s" % (e["id"], w["program"].replace("\n", " ; "),
                                       "" if still else " (no longer reproduces)"))
        elif e.get("id") == KNOWN_BANG:
            o = c.harness_lines_resilient(h, "parse10eq", [c.hexs(w["base"]) + "\t" + c.hexs(w["variant"])])[0]
            still = (o != "SAME")
            res.known("%s: `%s` is rejected while `%s` parses (postfix `!` swallows the `!` of `!=`)%s"
                      % (e["id"], w["variant"], w["base"], "" if still else " (no longer reproduces)"))
        else:
            res.known("%s %s" % (e.get("id"), e.get("what", "")))


import time as _time
_T0 = [_time.time()]


def lap(res, name):
    now = _time.time()
    res.streams.setdefault("timing_s", {})[name] = round(now - _T0[0], 1)
    _T0[0] = now


def main(argv):
    _T0[0] = _time.time()
    tier, seed, replay = c.tier_and_seed(argv)
    res = c.Result(PID, tier, seed)
    rng = c.Rng(seed)
    try:
        h = c.build_harness()
        builtin_names = c.regen_builtins(h)
    except c.BrokenTie as e:
        res.tie_broken(e.what, e.detail)
        return res.finish()
    if replay:
        return do_replay(h, replay)
    model_ok = True
    try:
        info = regen_prec(h)
        res.streams["translator"] = info
    except c.BrokenTie as e:
        # the table / glue can no longer be read: no model run; go on to the searches on the
        # implementation alone to look for a concrete failing input
        res.tie_broken(e.what, e.detail)
        model_ok = False
    ident_ok = True
    try:
        res.streams["translator-ident"] = regen_ident()
    except c.BrokenTie as e:
        # the character-level rules can no longer be read: the token-level model still runs (with the
        # stale gen/IdentRules.v only so that the Coq files compile); the name / operator models do not
        res.tie_broken(e.what, e.detail)
        ident_ok = False
    peg_ok = True
    try:
        res.streams["translator-grammar"] = regen_grammar()
    except c.BrokenTie as e:
        # grammar.pest uses a construct translate/pest2coq.py does not translate: the PEG model does not run
        # (the stale gen/Grammar.v only keeps the Coq files compiling)
        res.tie_broken(e.what, e.detail)
        peg_ok = False
    bad_ids = [x for x in g.IDENTS if x in builtin_names]
    if bad_ids:
        res.tie_broken("generator identifiers collide with built-in names", ",".join(bad_ids))

    if model_ok:
        model_ok = c.proof_step(res, PID) or True

    lap(res, "build+regen+proof")
    bad = spelling_arms_shared()
    if bad:
        res.tie_broken("expressions.rs no longer treats the word and symbol spellings in shared match arms",
                       "; ".join(bad[:5]))

    evaluations = 0
    validated = 0
    evaluations += corpus_stream(h, res)
    ntree = 1500 if tier == "quick" else 20000
    fc = []
    if model_ok:
        # ---- FLAT: exhaustive operator sequences, model vs implementation
        # the conversion-error arm of Rule::number (model item IBadNum, rendered as a hex literal above i64)
        # has a concrete instance only while some number token fails to convert: probe the built parser
        probe = c.harness_lines_resilient(h, "parse10", [c.hexs("0x8000000000000000")])[0]
        bad_num_exists = not probe.startswith("E ")
        fc = flat_cases(tier, rng) + comment_cases() + (err_cases() if bad_num_exists else [])
        r = run_stream(h, res, "PARSE-flat", fc)
        if r:
            res.streams["PARSE-flat"]["conversion_error_cases"] = (
                "10 (a hex literal above i64 does not convert: F25 open)" if bad_num_exists else
                "0 (every number token the grammar admits converts since the F25 repair; the model's IBadNum arm "
                "has no concrete rendering and is not exercised)")
            res.streams["PARSE-flat"]["comment_pairs"] = check_comment_pairs(res, fc, r[1], r[2])
            evaluations += len(fc)
            validated += len(fc) - res.streams["PARSE-flat"]["mismatches"]
        lap(res, "PARSE-flat")
        # ---- TREE: random deep trees, rendered by the model, round trip + model vs implementation
        tg, meta, ok = tree_stream(h, res, rng, ntree, 5, builtin_names)
        lap(res, "PARSE-tree")
        evaluations += len(meta)
        validated += ok
    else:
        tg = g.TreeGen(rng)
        meta = []
        for _ in range(ntree):
            t = tg.tree(1 + rng.below(5))
            par, wn = g.random_oracles(rng, t)
            meta.append((t, par, wn))
    # ---- PEG: the grammar layer, model (Peg.v on gen/Grammar.v) vs pest's generated parser, full pair trees
    if peg_ok:
        try:
            a, b = c10_peg.peg_streams(h, res, rng, tier, meta)
            evaluations += a
            validated += b
        except c.BrokenTie as e:
            res.tie_broken(e.what, e.detail)
        lap(res, "PEG")
        textstream.run_text_stream(h, c.Rng(seed + 0x7E87), tier == "quick", res, tag="c10text", part="layout", tree_meta=meta)
    # ---- searches on the implementation alone
    evaluations += small_search(h, res)
    evaluations += triple_search(h, res)
    evaluations += small_layout_search(h, res)
    evaluations += statement_layout_search(h, res)
    evaluations += search_stream(h, res, rng, meta, 2 if tier == "quick" else 4)
    evaluations += ident_stream(h, res, rng, tier, builtin_names, model_ok and ident_ok)
    evaluations += spelling_stream(h, res, rng)

    lap(res, "searches")
    known_step(h, res)
    res.coverage["evaluations"] = evaluations
    res.coverage["distinct_nontrivial"] = (len({e for _, e in fc}) + len({g.show(t) for t, _, _ in meta
                                                                           if t[0] not in ("id", "num", "str", "bool",
                                                                                           "null", "inref", "builtin")}))
    res.coverage["rule"] = ("distinct token streams (exhaustive operator pairs/triples/affix combinations) plus distinct "
                            "random trees with at least one operator or nested form, each parsed by the real parser; "
                            "searches (variants, identifiers, spellings) counted in evaluations only")
    res.coverage["traces_validated_against_impl"] = validated
    res.coverage["samples"] = [{"text": g.Renderer(p, 0, w).render(t)} for t, p, w in meta[:5]]
    res.assumptions = [
        "character level (pest PEG engine, WHITESPACE/NEWLINE/comment rules, identifier rule) is not modelled: decided "
        "by the correspondence and the layout / identifier searches on the real parser",
        "comments are dropped (pairs_to_expr); comment preservation is property C09's subject",
        "names of built-in functions and constants (sum, pi, inf, ...) are outside the identifier generator: binding "
        "them is rejected or shadowed by design (C03 / F30)",
    ]
    return res.finish()


def do_replay(h, path):
    with open(path) as f:
        rp = json.load(f)
    print(json.dumps(rp, indent=1))
    rc = 0
    if rp.get("base") is not None and rp.get("variant") is not None:
        o = c.harness_lines_resilient(h, "parse10eq", [c.hexs(rp["base"]) + "\t" + c.hexs(rp["variant"])])[0]
        print("implementation now: parse10eq ->", o)
        for k in ("base", "variant"):
            print(" ", k, "->", c.harness_lines_resilient(h, "parse10", [c.hexs(rp[k])])[0])
        rc = 0 if o == rp.get("expected", "SAME") else 1
    elif rp.get("program_b") is not None:
        a = c.harness_lines_resilient(h, "eval", [c.hexs(rp["program"])])[0]
        b = c.harness_lines_resilient(h, "eval", [c.hexs(rp["program_b"])])[0]
        print("implementation now:", a, "vs", b)
        rc = 0 if a == b else 1
    elif rp.get("program") is not None:
        o = c.harness_lines_resilient(h, "parse10", [c.hexs(rp["program"])])[0]
        print("implementation now: parse10 ->", o)
        rc = 0 if o == rp.get("expected") else 1
    return rc


if __name__ == "__main__":
    sys.exit(main(sys.argv[1:]))
