"""C10 — parsing: fixed precedence table, layout-insensitive, all plain names usable.
See notes/C10.md and DESIGN.md section 6 (C10)."""
import json
import os
import re
import sys

import common as c
import c10_gen as g

sys.path.insert(0, os.path.join(c.VERIF, "translate"))
import prec_table  # noqa: E402

PID = "C10"
MANIFEST = {
    "text": "Coq theorems over a transcription of pest's Pratt parser and pairs_to_expr_inner on token streams: the "
            "Pratt table built from the rows regenerated from precedence.rs refines the hand-written specification "
            "table (all 34 operator rules); every tree is recovered from every rendering that carries at least the "
            "parentheses the specification table requires (minimal, fully parenthesised, any redundant layers; "
            "unbounded induction); word/symbol spellings parse alike; model tied to the code by an exhaustive PARSE "
            "correspondence (all operator pairs, triples, affix combinations, random deep trees) and layout / "
            "identifier / spelling searches on the real parser",
    "note": "trusted: Coq kernel + vm_compute; translate/prec_table.py (reads precedence.rs, expressions.rs map_infix/"
            "map_prefix arms, pest PREC_STEP; cross-checked against operator_info of the built crate); hand "
            "transcription of pest 2.8.3 pratt_parser.rs and of pairs_to_expr_inner (validated by the PARSE "
            "correspondence); the character level (pest PEG: whitespace, newlines, comments, identifiers) is decided "
            "by correspondence and search on the real parser, not by proof; no axioms",
    "design_ref": "DESIGN.md section 6 C10; notes/C10.md",
}
REQ = ["Blots.Num", "Blots.gen.Builtins", "Blots.Ast", "Blots.Outcome", "Blots.PrattTypes", "Blots.gen.PrecTable",
       "Blots.Pratt", "Blots.PrattRender"]


def regen_prec(h):
    try:
        txt, info = prec_table.generate(c.REPO, c.harness_oneshot(h, "dump-prec"))
    except prec_table.TranslateError as e:
        raise c.BrokenTie("translate/prec_table.py cannot read the precedence table of the working tree", str(e))
    except (OSError, IOError) as e:
        raise c.BrokenTie("translate/prec_table.py: source file missing", str(e))
    c.write_if_changed(os.path.join(c.GEN, "PrecTable.v"), txt)
    return info


def spelling_arms_shared():
    """expressions.rs: every match arm that names BinaryOp::And also names NaturalAnd (same for Or),
    and UnaryOp::Not shares its arm with Invert.  Returns list of complaints."""
    src = prec_table.strip_comments(open(os.path.join(c.REPO, "blots-core", "src", "expressions.rs")).read())
    # only evaluator arms: cut at pairs_to_expr_inner
    cut = src.find("fn pairs_to_expr_inner")
    ev = src[:cut] if cut > 0 else src
    bad = []
    for a, b in (("And", "NaturalAnd"), ("Or", "NaturalOr")):
        for m in re.finditer(r"([^;{}]*?)=>", ev):
            pat = m.group(1)
            has_a = re.search(r"BinaryOp::%s\b" % a, pat) is not None
            has_b = re.search(r"BinaryOp::%s\b" % b, pat) is not None
            if has_a != has_b:
                bad.append("arm `%s =>` treats %s and %s differently" % (" ".join(pat.split())[-80:], a, b))
    return bad


# --------------------------------------------------------------------------- item streams (Coq literals)
def it_id(x):
    return 'IIdent "%s"' % x


def it_op(rule):
    return "IOp %s" % rule


PREFIXES = [None, "R_negation", "R_invert", "R_natural_not"]
POSTFIXES = [None, "IOp R_factorial", 'ICall [[IIdent "u"]]', 'IAccess [IExpr false [IIdent "i"]]', 'IDot "fld"']


def flat_cases(tier, rng):
    cases = []     # (kind, coq items literal)
    ops = g.BINOPS
    for o1 in ops:
        for o2 in ops:
            cases.append(("pair", "[%s; %s; %s; %s; %s]" % (it_id("a"), it_op(g.BIN_RULE[o1]), it_id("b"),
                                                            it_op(g.BIN_RULE[o2]), it_id("c"))))
    triples = [(o1, o2, o3) for o1 in ops for o2 in ops for o3 in ops]
    for o1, o2, o3 in triples:
        cases.append(("triple", "[%s; %s; %s; %s; %s; %s; %s]" % (
            it_id("a"), it_op(g.BIN_RULE[o1]), it_id("b"), it_op(g.BIN_RULE[o2]), it_id("c"),
            it_op(g.BIN_RULE[o3]), it_id("d"))))
    for o in ops:
        for p1 in PREFIXES:
            for q1 in POSTFIXES:
                for p2 in PREFIXES:
                    for q2 in POSTFIXES:
                        its = []
                        if p1:
                            its.append(it_op(p1))
                        its.append(it_id("a"))
                        if q1:
                            its.append(q1)
                        its.append(it_op(g.BIN_RULE[o]))
                        if p2:
                            its.append(it_op(p2))
                        its.append(it_id("b"))
                        if q2:
                            its.append(q2)
                        cases.append(("affix", "[" + "; ".join(its) + "]"))
    # prefix / postfix stacks on one operand, and between two binary operators
    for p1 in PREFIXES[1:]:
        for p2 in PREFIXES:
            for q1 in POSTFIXES[1:]:
                for q2 in POSTFIXES:
                    its = [it_op(p1)] + ([it_op(p2)] if p2 else []) + [it_id("a"), q1] + ([q2] if q2 else [])
                    cases.append(("stack", "[" + "; ".join(its) + "]"))
                    for o in ("Add", "Power", "Coalesce", "NaturalAnd", "Less"):
                        cases.append(("stack", "[" + "; ".join(
                            [it_id("z"), it_op(g.BIN_RULE[o])] + its + [it_op(g.BIN_RULE[o]), it_id("w")]) + "]"))
    return cases


def coq_case(items_expr):
    return '(let its := %s in hex_of_string (items_text its) ++ "|" ++ show_tres (pratt_impl its))' % items_expr


def run_stream(h, res, name, cases, expect=None):
    """cases: list of (kind, coq items expr).  Runs the model (text + AST), then the real parser on
    the model's text, diffs.  expect: optional list of expected result strings (round trip)."""
    try:
        outs = c.coq_eval_batch(REQ, "", [coq_case(e) for _, e in cases], "c10" + re.sub(r"[^A-Za-z0-9]", "_", name))
    except c.BrokenTie as e:
        res.tie_broken(e.what, e.detail)
        return None
    texts, models = [], []
    for o in outs:
        if o is None or "|" not in o:
            texts.append(None)
            models.append(None)
        else:
            hx, m = o.split("|", 1)
            texts.append(bytes.fromhex(hx).decode("utf-8"))
            models.append(m)
    missing = [i for i, t in enumerate(texts) if t is None]
    if missing:
        res.tie_broken("model evaluation returned nothing for %d %s cases" % (len(missing), name),
                       cases[missing[0]][1][:400])
    idx = [i for i, t in enumerate(texts) if t is not None]
    impl = c.harness_lines_resilient(h, "parse10", [c.hexs(texts[i]) for i in idx])
    impls = [None] * len(cases)
    for i, o in zip(idx, impl):
        impls[i] = o
    mism = [i for i in idx if impls[i] != models[i]]
    fuel = sum(1 for i in idx if models[i] == "OUTOFFUEL")
    st = {"cases": len(cases), "evaluated": len(idx), "mismatches": len(mism), "model_out_of_fuel": fuel,
          "kinds": {}, "impl_rejects": sum(1 for i in idx if impls[i] == "REJECT"),
          "impl_panics": sum(1 for i in idx if (impls[i] or "").startswith(("PANIC", "ABORT")))}
    for k, _ in cases:
        st["kinds"][k] = st["kinds"].get(k, 0) + 1
    res.streams[name] = st
    if fuel:
        res.tie_broken("model ran out of fuel on %d %s cases" % (fuel, name))
    if mism:
        i = mism[0]
        res.tie_broken("correspondence C10/%s: model and implementation disagree on %d of %d inputs"
                       % (name, len(mism), len(idx)),
                       "first: text=%r model=%s impl=%s" % (texts[i], models[i], impls[i]))
    return texts, models, impls


def main(argv):
    tier, seed, replay = c.tier_and_seed(argv)
    res = c.Result(PID, tier, seed)
    rng = c.Rng(seed)
    try:
        h = c.build_harness()
        c.regen_builtins(h)
        info = regen_prec(h)
    except c.BrokenTie as e:
        res.tie_broken(e.what, e.detail)
        return res.finish()
    if replay:
        return do_replay(h, replay)
    res.streams["translator"] = info

    c.proof_step(res, PID)

    bad = spelling_arms_shared()
    if bad:
        res.tie_broken("expressions.rs no longer treats the word and symbol spellings in shared match arms",
                       "; ".join(bad[:5]))

    evaluations = 0
    validated = 0
    # ---- FLAT: exhaustive operator sequences
    fc = flat_cases(tier, rng)
    r = run_stream(h, res, "PARSE-flat", fc)
    if r:
        evaluations += len(fc)
        validated += len(fc) - res.streams["PARSE-flat"]["mismatches"]

    res.coverage["evaluations"] = evaluations
    res.coverage["distinct_nontrivial"] = len({e for _, e in fc})
    res.coverage["rule"] = "distinct token streams / texts that reach the Pratt parser"
    res.coverage["traces_validated_against_impl"] = validated
    res.coverage["samples"] = []
    return res.finish()


def do_replay(h, path):
    with open(path) as f:
        rp = json.load(f)
    print(json.dumps(rp, indent=1))
    return 0


if __name__ == "__main__":
    sys.exit(main(sys.argv[1:]))
