"""C02 — evaluation is deterministic and free of side effects on values.  DESIGN.md section 6 (C02)."""
import re
import subprocess
import sys

import common as c
import evalstream as es
from gen_programs import Gen, Scope

PID = "C02"
MANIFEST = {
    "text": "3 Coq theorems for the 'no effect on values' half (an expression without a direct assignment leaves the "
            "scope chain exactly as it was; no evaluation changes an existing binding; function-cell names are "
            "write-once), for every depth and — the first two — every operator/built-in implementation.  PARTIAL: "
            "determinism across processes, hash seeds and earlier evaluations is a property of the running code that no "
            "Gallina function can fail; it is decided by running the same generated programs in several processes and "
            "with a dirtied heap and comparing with the (deterministic) model; evaluate-twice and let-abstraction are "
            "decided by search on the implementation",
    "note": "trusted: Coq kernel + vm_compute; evaluator transcription validated by the EVAL stream; the runtime "
            "behaviour the model cannot exhibit (HashMap iteration order, allocation order) is explored, not proved",
    "design_ref": "DESIGN.md section 6 C02",
}

HOLES = ["(%s)", "[%s, 2]", "[...[%s], 0]", "{k: %s}.k", "(q9 => q9)(%s)", "([1, 2] via (q9 => [q9, %s]))", "do {\n  w9 = %s\n  return w9\n}",
         "typeof(%s)", "(%s into (q9 => [q9]))", "map([0], q9 => %s)", "if true then %s else 0", "[%s] .== [%s]",
         "reduce([1], (a9, q9) => [a9, %s], 0)"]


def strip_names(s):
    return re.sub(r"@(-|[0-9a-f]+)", "", s)


def last(o):
    return o.split(";ENV:")[0].split("|")[-1]


def main(argv):
    tier, seed, replay = c.tier_and_seed(argv)
    res = c.Result(PID, tier, seed)
    rng = c.Rng(seed)
    try:
        h = c.build_harness()
        c.regen_all(h)
        cli = c.build_cli("release")
    except c.BrokenTie as e:
        res.tie_broken(e.what, e.detail)
        return res.finish()
    if replay:
        import json
        rp = json.load(open(replay))
        print(json.dumps(rp, indent=1))
        if rp.get("program") and rp.get("variant"):
            o = es.rust_eval(h, [rp["program"], rp["variant"]])
            a, b = strip_names(last(o[0])), strip_names(last(o[1]))
            print("implementation now returns:", a, "vs", b)
            return 0 if a == b else 1
        return 0

    c.proof_step(res, PID, extra_targets=["EvalInst.vo"])

    # ---------------- (a) determinism: same programs, several processes, dirty heap, model
    n_prog = 250 if tier == "quick" else 3000
    g = Gen(rng)
    progs = ["\n".join(g.program(2 + rng.below(8))) for _ in range(n_prog)]
    runs = []
    nproc = 3 if tier == "quick" else 5
    for k in range(nproc):
        runs.append(es.rust_eval(h, progs))           # each call is a fresh process (fresh RandomState)
    # dirty heap: unrelated evaluations first, in the same process (one line = one fresh Session, but the
    # process-wide state — interned LazyLocks, FUNCTION_CALLS statistics, allocator — is shared)
    dirty = es.rust_eval(h, list(reversed(progs)))
    dirty = list(reversed(dirty))
    nondet = 0
    for i, p in enumerate(progs):
        outs = {r[i] for r in runs} | {dirty[i]}
        if len(outs) != 1:
            nondet += 1
            if nondet <= 3:
                res.violation("the same program with the same inputs gave different results in different runs",
                              {"kind": "impl-law", "program": p, "observed": sorted(outs)})
    # the real CLI twice (different processes), on programs that declare outputs
    cli_n = 25 if tier == "quick" else 200
    cli_diff = 0
    for p in [q for q in progs if "output" in q][:cli_n]:
        r1 = subprocess.run([cli, p], stdin=subprocess.DEVNULL, capture_output=True, text=True)
        r2 = subprocess.run([cli, p], stdin=subprocess.DEVNULL, capture_output=True, text=True)
        if (r1.returncode, r1.stdout) != (r2.returncode, r2.stdout):
            cli_diff += 1
            res.violation("the CLI gave different outputs for the same program in two runs",
                          {"kind": "impl-cli", "program": p, "observed": [r1.stdout[-300:], r2.stdout[-300:]]})
    agree, mism, skipped, rejected = 0, [], 0, 0
    try:
        coq, _ = es.parse_to_coq(h, progs)
        model = es.model_eval(coq, tag="c02")
        agree, mism, skipped, rejected = es.compare(progs, runs[0], model)
    except c.BrokenTie as e:
        res.tie_broken(e.what, e.detail)
    if mism:
        i, r, m = mism[0]
        res.tie_broken("correspondence C02/EVAL: model and implementation disagree on %d of %d programs" % (len(mism), n_prog),
                       "first: %r\nimpl : %s\nmodel: %s" % (progs[i], r, m))
    res.streams["DETERMINISM"] = {"programs": n_prog, "processes": nproc, "dirty_heap_run": True, "cli_pairs": cli_n,
                                  "nondeterministic": nondet + cli_diff, "model_agree": agree, "mismatches": len(mism),
                                  "skipped_unmodelled": skipped, "parser_rejected": rejected,
                                  "generator_node_histogram": g.stats}

    # ---------------- (b) evaluate twice, (c) let-abstraction — on the implementation alone
    n_let = 400 if tier == "quick" else 5000
    pairs = []
    g2 = Gen(rng, allow_fail=False)
    for _ in range(n_let):
        sc = Scope()
        sc.vars["inputs"] = "rec"
        prefix = []
        for _ in range(rng.below(5)):
            s = g2.statement(sc)
            if s.startswith("output") or "nosuch" in s:
                continue
            prefix.append(s)
        kind = rng.below(6)
        sub = [g2.num, g2.boolean, g2.string, g2.numlist, lambda s_, d: g2.record(s_, d), g2.fn1][kind](sc, 2)
        hole = rng.choice(HOLES)
        nh = hole.count("%s")
        orig = "\n".join(prefix + [hole % ((sub,) * nh)])
        var = "\n".join(prefix + ["t9fresh = " + sub, hole % (("t9fresh",) * nh)])
        twice = "\n".join(prefix + ["[%s, %s]" % (sub, sub), "[%s]" % sub])
        pairs.append((orig, var, twice, sub))
    flat = []
    for o, v, t, _ in pairs:
        flat += [o, v, t]
    outs = es.rust_eval(h, flat)
    let_checked = let_viol = twice_checked = twice_viol = 0
    for k, (o, v, t, sub) in enumerate(pairs):
        ro, rv, rt = outs[3 * k], outs[3 * k + 1], outs[3 * k + 2]
        for r_ in (ro, rv, rt):
            if "PANIC" in r_ or r_.startswith("ABORT"):
                res.violation("the evaluator panicked/aborted", {"kind": "impl", "program": o, "observed": r_})
        vo = ro.split(";ENV:")[0].split("|")
        vv = rv.split(";ENV:")[0].split("|")
        # the abstraction statement must itself succeed (otherwise the variant stops there)
        if len(vv) >= 2 and vv[-2].startswith("OK") and len(vv) == len(vo) + 1:
            let_checked += 1
            if strip_names(vo[-1]) != strip_names(vv[-1]):
                let_viol += 1
                if let_viol <= 3:
                    res.violation("binding a subexpression to a fresh name and using the name in its place changed the result",
                                  {"kind": "impl-law", "program": o, "variant": v, "subexpression": sub,
                                   "observed": [vo[-1], vv[-1]], "rerun": "./check C02 --replay <this file>"})
        vt = rt.split(";ENV:")[0].split("|")
        if len(vt) >= 2 and vt[-2].startswith("OK:L[") and vt[-1].startswith("OK:L["):
            twice_checked += 1
            a = strip_names(vt[-2])[len("OK:L["):-1]
            b = strip_names(vt[-1])[len("OK:L["):-1]
            if a != b + "," + b:
                twice_viol += 1
                if twice_viol <= 3:
                    res.violation("evaluating the same expression again gave a different result",
                                  {"kind": "impl-law", "program": t, "observed": [vt[-2], vt[-1]]})
    res.streams["LET-TWICE"] = {"pairs": n_let, "let_checked": let_checked, "let_violations": let_viol,
                                "twice_checked": twice_checked, "twice_violations": twice_viol, "holes": len(HOLES)}
    res.coverage["evaluations"] = n_prog * (nproc + 1) + len(flat) + 2 * cli_n
    res.coverage["distinct_nontrivial"] = len({r for r in runs[0] if "OK:" in r}) + let_checked
    res.coverage["rule"] = ("generated well-scoped programs (typed generator, scope tracking) each run in %d separate "
                            "processes + once more after unrelated evaluations in the same process + the model; %d "
                            "(prefix, subexpression, context) triples for let-abstraction and evaluate-twice with "
                            "subexpressions of every type incl. functions and %d context shapes; non-trivial = programs "
                            "with a successful statement + abstraction pairs actually compared" % (nproc, n_let, len(HOLES)))
    res.coverage["samples"] = [{"program": pairs[i][0], "variant": pairs[i][1]} for i in (0, 1, 2)]
    res.coverage["traces_validated_against_impl"] = agree
    for e in c.open_known(PID):
        res.known("%s %s" % (e["id"], e["what"]))
    return res.finish()


if __name__ == "__main__":
    sys.exit(main(sys.argv[1:]))
