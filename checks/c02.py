"""C02 — evaluation is deterministic and free of side effects on values.  DESIGN.md section 6 (C02)."""
import re
import subprocess
import sys

import common as c
import evalstream as es
from gen_programs import Gen, Scope

PID = "C02"
MANIFEST = {
    "text": "72 Coq theorems.  C02ALL round: C02's theorems now speak about the evaluator the ALL / TEXT-EVAL streams run "
            "(EvalAll.binop_all o / builtin_all o: EVERY row of the regenerated built-in table and `^`, library behaviour as "
            "fields of the oracle record o), for EVERY oracle o: ops_wf / ops_nm / old-cells-untouched with NO hypothesis on o "
            "(the 17 new arms are pure and return a number, string or null; `^` is eval_binop with the oracle's powf), "
            "ops_commute under exactly one: lam_str_blind o — the function-text oracle, the only oracle field applied to "
            "VALUES (the captured scope), is blind to cell indices; it holds of every lookup-table oracle of AllRun.v "
            "(C02_lam_str_blind_tables) and is necessary (C02_ops_commute_all_needs_blind_refuted: an oracle that prints a "
            "captured cell index).  Instantiated: C02_store_extension_invariance_all, C02_eval_twice_exact_all / _all / "
            "_equals_all / _after_any_program_all, C02_old_cells_untouched_all, C02_cfg_wf_preserved_all / "
            "_after_any_program_all, C02_weakening_all, C02_let_abstraction_seq_partial_all / _seq_multi_partial_all, "
            "C02_let_program_all / _multi_all / _multi_after_any_prefix_all.  The clock: time_now() is the constant field o_now (one oracle record = one "
            "clock reading), so the model forces no exclusion on eval-twice beyond 'both evaluations under the same oracle "
            "record'; with the clock advancing between the evaluations the statement is kept as the Prop "
            "C02_eval_twice_across_clock_full and REFUTED by `time_now()` (C02_eval_twice_across_clock_refuted) — the "
            "documented behaviour of a clock, not a defect.  POSITIVELY (proofs/C02AllClock.v): o_now is read by the arm of "
            "time_now and by nothing else (C02_clock_read_by_one_arm); an Unmodelled outcome of an operator / built-in is "
            "never swallowed by the evaluator (C02_unmodelled_never_swallowed: DepthMono.v's development with Unmodelled "
            "for the depth error, generalised to two pairs of dispatchers); hence an evaluation that, with the time_now arm "
            "poisoned, does not end in Unmodelled — i.e. never calls time_now — is the same under every clock reading "
            "(C02_eval_same_under_every_clock), and eval-twice holds with the clock advancing between the two evaluations "
            "when the second does not read it (C02_eval_twice_across_clock_noclock); and AllExtends.v's conservative extension "
            "lifts from the dispatchers to the evaluator (C02_eval_all_extends_full: where eval_full does not end in "
            "Unmodelled, eval_all o computes the same outcome, store and scope chain, every oracle).  LET2 round: WEAKENING IS PROVED (C02_weakening, _impl, _generic; proofs/C02Weak.v): a binding "
            "of a name x that nothing mentions changes nothing — from scope chains that agree on every name other than x and "
            "the same store, an expression in which x does not occur (nocc: not as identifier, {x} key, assignment target or "
            "parameter) evaluates to the same outcome and store, the chains stay in agreement, and no value mentioning x "
            "(vnm: hereditarily through lists, records, captured scopes) is ever created; all expression forms incl. "
            "assignments / do-blocks / calls, every depth; generic in operators/built-ins that create no mention (ops_nm), "
            "discharged for binop_impl, builtin_impl, builtin_full by instantiating GenOps.v / AllGenClosed.v "
            "(C02_ops_create_no_mention).  The Prop C02_weakening_full as the LET round stated it (x merely not FREE in the "
            "function bodies of the scope) is REFUTED (C02_weakening_full_refuted: g = () => (x = 5) observes a binding of x "
            "by assigning it; reproduced on the CLI) — not a defect, the statement was wrong.  THE TWO-STATEMENT LET LAW IS "
            "PROVED (C02_let_program, _impl, _after_any_prefix; proofs/C02LetProg.v): `x = s; C[x]` versus `C[s]` from the same "
            "configuration (after any program prefix), C a sequential context, x fresh, value of s cell-free: whenever `x = s` "
            "succeeds the outcomes are equal up to cell renaming, errors included; both build profiles, builtin_impl and "
            "builtin_full; from the sequential-context theorem + eval-twice + weakening + store-extension invariance.  "
            "Freshness w.r.t. the functions of the scope is necessary: C02_let_program_nofresh_refuted (f = y => x + y; "
            "x = 1; f(1) + x is 3, f(1) + 1 fails; reproduced on the CLI).  Still PARTIAL / kept as Props: "
            "C02_let_program_full with freshness = 'x not free' instead of 'x does not occur' (a lambda whose PARAMETER is x, "
            "or that captured its own x, is excluded by nocc/vnm although it cannot observe the binding: needs the two-mode "
            "relation 'chains agree on all names once x is shadowed'), C02_let_abstraction_full (occurrences under lambdas / "
            "do-blocks).  SEVERAL occurrences in sequential position ARE proved (C02_let_program_multi, "
            "C02_let_abstraction_seq_multi_partial: sctxs = reflexive-transitive closure of sctx, C[x, x] -> C[s, x] -> C[s, s]; "
            "each step has its own renaming — the k-th evaluation of s allocates a fresh block — and equality up to cell "
            "indices composes).  New stream LET-FRESHNESS: the witnesses of the two _refuted lemmas and four controls, on "
            "the implementation and through the model.  The LET-SEQ stream now has a MODEL SIDE: the same program pairs through "
            "run_program_full by vm_compute, compared with the implementation line by line, and the law re-evaluated on the "
            "model's outcomes.  LET round: WELL-FORMEDNESS (the scope chain mentions existing function cells only) IS AN "
            "INVARIANT — preserved by every evaluation (every expression form, FunctionDef::call, every depth), every result "
            "mentions existing cells only; generic in operators/built-ins that create no dangling cell, discharged for "
            "binop_impl, builtin_impl and builtin_full (C02_cfg_wf_preserved*, C02_ops_create_no_dangling_cell) — hence it "
            "holds after ANY statement sequence from the initial configuration and EVAL-TWICE needs no hypothesis on the "
            "configuration there (C02_eval_twice_after_any_program[_fullbi]).  LET-ABSTRACTION is now proved for SEQUENTIAL "
            "contexts (C02_let_abstraction_seq_partial[_fullbi], _generic, _success): the occurrence may come after arbitrary "
            "assignment-free siblings (allocating cells, calling functions, failing), in any call argument / list item / "
            "right operand / index / callee, in a conditional branch taken or not taken; still PARTIAL: one occurrence, "
            "outside lambdas and do-blocks, cell-free value (kept: C02_let_abstraction_full), and stated in the scope that "
            "already binds x (the two-statement law and weakening: proved in the LET2 round, see above).  Searched on the implementation by "
            "the new stream LET-SEQ (non-head positions by class: after allocating siblings, call arguments, branches taken "
            "/ not taken, right operands of and/or/coalesce, nested).  Earlier rounds: 'No effect on values' at full strength over the evaluator model: STORE-EXTENSION INVARIANCE "
            "(a simulation over every expression form, FunctionDef::call and every depth: evaluating from a store related "
            "by an injective renaming of function-cell indices gives the renamed outcome, scope chain and a related store; "
            "generic in operators/built-ins that commute with renamings, discharged arm by arm for the transcribed "
            "operators and the built-ins of EvalInst.v); NO EVALUATION WRITES TO A FUNCTION CELL THAT EXISTED BEFORE IT "
            "(also for the full built-in dispatcher; this is what the repair of finding F52 — an assignment names a lambda "
            "only if evaluating its right-hand side created it — made true); hence EVAL-TWICE without side condition on "
            "names (an expression without a direct assignment evaluated again gives the same outcome class and the same "
            "value up to the indices of the cells the evaluation itself allocated; exact shift form; `equals v1 v2 = "
            "equals v1 v1`), the only hypothesis being a scope chain without dangling cells.  LET-ABSTRACTION is proved for "
            "head contexts and cell-free values (PARTIAL; the statement for arbitrary contexts / several occurrences is "
            "kept as the Prop C02_let_abstraction_full).  REL round: the renaming hypothesis for the FULL built-in "
            "dispatcher (EvalFull.builtin_full: aggregates, list/string/record built-ins incl. unique/includes — "
            "Value::equals is blind to cell indices —, convert/round/random/to_number/to_string/join, "
            "sort_by/group_by/count_by) is now PROVED (C02_ops_commute_full_proved; proofs/RelPure.v: one relation-generic "
            "lemma per arm, proofs/C02OpsFull.v), so store-extension invariance, the eval-twice theorems (unconditional on "
            "names) and the head-context let-abstraction are also theorems about the evaluator the EVAL streams run (the "
            "*_full / *_fullbi theorems); and C02_pure_builtins_blind_to_cells: each of the 32 pure arms of builtin_full "
            "maps argument vectors that are equal after erasing cell indices (incl. [f, f] vs [f, f'] — no renaming relates "
            "those) to outcomes equal up to cell indices, i.e. no built-in compares functions by identity; the "
            "classification of the arms these proofs rest on (which arms apply Value::equals / Value::compare, which call a "
            "function value) is proved equal to a table regenerated on every run from the SOURCE TEXT of "
            "BuiltInFunction::call (coq/gen/ArmObservers.v; C02_arm_observers_match_source, C02_other_arms_ignore_callback).  "
            "Older theorems: purity of the scope chain, existing bindings untouched, store only grows.  "
            "PARTIAL by nature: determinism across processes, hash seeds and earlier evaluations is a property of the "
            "running code that no Gallina function can fail; it is decided by running the same generated programs in "
            "several processes and with a dirtied heap and comparing with the (deterministic) model; evaluate-twice and "
            "let-abstraction are ALSO searched on the implementation, incl. the boundary shapes of F52 (naming an existing "
            "anonymous function from a do-block / callback), strict in the implementation-level law and against the model, "
            "and over the full built-in set with function values flowing through every list/record/aggregate built-in and "
            "the sort_by/group_by/count_by callbacks (stream TWICE-FULL: law on the implementation + eval_full correspondence)",
    "note": "trusted: Coq kernel + vm_compute; evaluator transcription validated by the EVAL stream; the runtime "
            "behaviour the model cannot exhibit (HashMap iteration order, allocation order) is explored, not proved",
    "design_ref": "DESIGN.md section 6 C02; notes/C02.md",
}

HOLES = ["(%s)", "[%s, 2]", "[...[%s], 0]", "{k: %s}.k", "(q9 => q9)(%s)", "([1, 2] via (q9 => [q9, %s]))", "do {\n  w9 = %s\n  return w9\n}",
         "typeof(%s)", "(%s into (q9 => [q9]))", "map([0], q9 => %s)", "if true then %s else 0", "[%s] .== [%s]",
         "reduce([1], (a9, q9) => [a9, %s], 0)"]


def wide_builtin_programs():
    """programs binding w9 to a value computed with each built-in, chosen so that any dependence on hash
    iteration order, allocation or earlier evaluations would show in the printed value"""
    L = "[\"pear\", \"fig\", \"apple\", \"kiwi\", \"plum\", \"fig\", \"date\", \"lime\", \"pear\", \"nut\"]"
    R = "{zeta: 1, alpha: 2, mid: 3, b: 4, a: 5, yy: 6, c: 7, k9: 8}"
    N = "[5, 3, 9, 1, 3, 7, 2, 8, 6, 4]"
    exprs = [
        "count_by(%s, s => s)" % L, "group_by(%s, s => s[0])" % L, "keys(count_by(%s, s => s))" % L,
        "entries(group_by(%s, s => to_string(len(s))))" % L, "unique(%s)" % L, "sort(%s)" % L, "sort_by(%s, s => len(s))" % L,
        "keys(%s)" % R, "values(%s)" % R, "entries(%s)" % R, "{...%s, extra: 0}" % R, "[...%s]" % R,
        "reverse(%s)" % N, "sort(%s)" % N, "zip(%s, %s)" % (N, L), "chunk(%s, 3)" % N, "flatten([%s, %s])" % (N, N),
        "[min(%s), max(%s), avg(%s), sum(%s), prod(%s), median(%s), percentile(%s, 30)]" % ((N,) * 7),
        "map(%s, (x, i) => [x, i])" % N, "filter(%s, x => x > 3)" % N, "reduce(%s, (a, x) => a + x, 0)" % N,
        "[every(%s, x => x > 0), some(%s, x => x > 8), any([true, false]), all([true])]" % (N, N),
        "split(\"a,b,c,d\", \",\")", "join(%s, \"-\")" % L, "replace(\"banana\", \"an\", \"AN\")", "[trim(\"  x \"), uppercase(\"abc\"), lowercase(\"ABC\")]",
        "[to_string(1.5), to_number(\"2.5\"), to_bool(1), typeof(%s), arity(map)]" % R, "format(\"{} and {}\", 1234567.891, \"x\")",
        "[convert(1, \"km\", \"m\"), convert(32, \"f\", \"c\")]", "[includes(%s, \"fig\"), len(%s), head(%s), tail(%s), slice(%s, 2, 5)]" % ((L,) * 5),
        "range(3, 9)", "concat(%s, %s)" % (N, L), "dot([1, 2, 3], [4, 5, 6])", "[ugt(2, 1), ult(\"a\", \"b\"), ugte(1, 1), ulte([1], [2])]",
        "[abs(-2), floor(2.5), ceil(2.5), round(2.567, 2), trunc(-2.5), sqrt(2), sin(1), cos(1), tan(1), asin(0.5), acos(0.5), atan(1), log(2), log10(2), exp(1)]",
        "random(42)", "%s where (s => len(s) > 3)" % L, "%s via (s => s + \"!\")" % L,
        # unit names differing only in letter case resolve differently (exact match first)
        "convert(1, \"Mm\", \"m\")", "convert(1, \"mm\", \"m\")", "convert(1, \"mA\", \"A\")", "convert(1, \"ma\", \"A\")",
        "convert(1, \"MA\", \"A\")", "convert(8, \"Mb\", \"MB\")", "convert(8, \"mb\", \"MB\")", "convert(1, \"KM\", \"M\")",
        "convert(1, \"km\", \"m\")", "to_number(\"1e3\") + to_number(\"1E3\")", "[uppercase(\"mA\"), lowercase(\"MA\")]",
        "count_by(map(range(0, 40), i => to_string(i * 7 % 13)), s => s)",
        "group_by(map(range(0, 40), i => {k: to_string(i % 11), v: i}), r => r.k)",
    ]
    return ["w9 = %s\n[to_string(w9), to_string(w9) == to_string(%s)]" % (e, e) for e in exprs]


def open_known_c02():
    """open known findings of C02: known_findings.json (generated by tools/mkmanifest.py) united with the fragment
    known/C02.json it is generated from, so that the check does not depend on the generated file being fresh"""
    import json
    import os
    es_ = {e["id"]: e for e in c.open_known(PID)}
    frag = os.path.join(os.path.dirname(os.path.dirname(os.path.abspath(__file__))), "known", "C02.json")
    if os.path.exists(frag):
        for e in json.load(open(frag)):
            if e.get("status") == "open":
                es_.setdefault(e["id"], e)
    return list(es_.values())


def strip_names(s):
    return re.sub(r"@(-|[0-9a-f]+)", "", s)


def last(o):
    return o.split(";ENV:")[0].split("|")[-1]


def main(argv):
    tier, seed, replay = c.tier_and_seed(argv)
    res = c.Result(PID, tier, seed)
    rng = c.Rng(seed)
    try:
        h = c.build_harness()
        c.regen_all(h)
        cli = c.build_cli("release")
    except c.BrokenTie as e:
        res.tie_broken(e.what, e.detail)
        return res.finish()
    if replay:
        import json
        rp = json.load(open(replay))
        print(json.dumps(rp, indent=1))
        if rp.get("program") and rp.get("variant"):
            o = es.rust_eval(h, [rp["program"], rp["variant"]])
            a, b = strip_names(last(o[0])), strip_names(last(o[1]))
            print("implementation now returns:", a, "vs", b)
            return 0 if a == b else 1
        return 0

    c.proof_step(res, PID, extra_targets=["EvalInst.vo"])

    # ---------------- (a) determinism: same programs, several processes, dirty heap, model
    n_prog = 250 if tier == "quick" else 40000
    g = Gen(rng)
    progs = ["\n".join(g.program(2 + rng.below(8))) for _ in range(n_prog)]
    runs = []
    nproc = 3 if tier == "quick" else 5
    for k in range(nproc):
        runs.append(es.rust_eval(h, progs))           # each call is a fresh process (fresh RandomState)
    # dirty heap: unrelated evaluations first, in the same process (one line = one fresh Session, but the
    # process-wide state — interned LazyLocks, FUNCTION_CALLS statistics, allocator — is shared)
    dirty = es.rust_eval(h, list(reversed(progs)))
    dirty = list(reversed(dirty))
    # a process that dies (allocation failure after tens of thousands of evaluations in one process: the
    # library's process-wide call statistics only grow) takes the rest of its batch with it and the
    # death can be attributed to a neighbouring line: every program that any run reports as ABORT / NOTRUN
    # is evaluated again ALONE in a fresh process, and only that result counts (a program that kills
    # the process when alone is still reported).  Found by the thorough tier only (40 000 programs
    # per process); the quick tier never met it.
    died = sorted({i for r in runs + [dirty] for i, o in enumerate(r) if o.startswith(("ABORT", "NOTRUN"))})
    for i in died:
        alone = es.rust_eval(h, [progs[i]])[0]
        for r in runs + [dirty]:
            if r[i].startswith(("ABORT", "NOTRUN")):
                r[i] = alone
    nondet = 0
    for i, p in enumerate(progs):
        outs = {r[i] for r in runs} | {dirty[i]}
        if len(outs) != 1:
            nondet += 1
            if nondet <= 3:
                res.violation("the same program with the same inputs gave different results in different runs",
                              {"kind": "impl-law", "program": p, "observed": sorted(outs)})
    # a sample of the generated programs each ALONE in a fresh process: whatever a process-wide or per-thread cache
    # (spans, lower-cased names, interned strings) remembers from the hundreds of programs before it must not matter
    iso_n = 80 if tier == "quick" else 1500
    step_ = max(1, len(progs) // iso_n)
    for i in range(0, len(progs), step_):
        alone = es.rust_eval(h, [progs[i]])[0]
        if strip_names(alone) != strip_names(runs[0][i]):
            nondet += 1
            if nondet <= 3:
                res.violation("a program gave a different result after unrelated earlier evaluations in the same process",
                              {"kind": "impl-law", "program": progs[i], "alone": alone, "after_others": runs[0][i],
                               "evaluated_before_it": progs[max(0, i - 4):i]})
    # the real CLI twice (different processes), on programs that declare outputs
    cli_n = 25 if tier == "quick" else 1500
    cli_diff = 0
    for p in [q for q in progs if "output" in q][:cli_n]:
        r1 = subprocess.run([cli, p], stdin=subprocess.DEVNULL, capture_output=True, text=True)
        r2 = subprocess.run([cli, p], stdin=subprocess.DEVNULL, capture_output=True, text=True)
        if (r1.returncode, r1.stdout) != (r2.returncode, r2.stdout):
            cli_diff += 1
            res.violation("the CLI gave different outputs for the same program in two runs",
                          {"kind": "impl-cli", "program": p, "observed": [r1.stdout[-300:], r2.stdout[-300:]]})
    # every built-in (modelled or not) with order-sensitive observations, several processes + CLI
    wide = wide_builtin_programs()
    wruns = [es.rust_eval(h, wide) for _ in range(nproc + 1)]
    for i, p in enumerate(wide):
        outs_ = {r[i] for r in wruns}
        if len(outs_) != 1:
            nondet += 1
            if nondet <= 6:
                res.violation("the same program gave different results in different processes (built-in coverage set)",
                              {"kind": "impl-law", "program": p, "observed": sorted(outs_)[:3]})
    # unrelated earlier evaluations: every program alone in a fresh process vs all of them in ONE process
    # (one thread), in four different orders
    isolated = [es.rust_eval(h, [p])[0] for p in wide]
    orders = [list(range(len(wide))), list(reversed(range(len(wide)))), rng.shuffle(list(range(len(wide)))),
              rng.shuffle(list(range(len(wide))))]
    interference = 0
    for order in orders:
        shared = es.rust_eval(h, [wide[i] for i in order])
        for pos, i in enumerate(order):
            if strip_names(shared[pos]) != strip_names(isolated[i]):
                interference += 1
                nondet += 1
                if interference <= 3:
                    res.violation("a program gave a different result after unrelated earlier evaluations in the same process",
                                  {"kind": "impl-law", "program": wide[i], "alone": isolated[i], "after_others": shared[pos],
                                   "evaluated_before_it": [wide[j] for j in order[:pos]][-6:]})
    for p in wide[:: (4 if tier == "quick" else 1)]:
        outs_ = set()
        for _ in range(3):
            r_ = subprocess.run([cli, p + "\noutput zz9 = to_string(w9)"], stdin=subprocess.DEVNULL, capture_output=True, text=True)
            outs_.add((r_.returncode, r_.stdout))
        if len(outs_) != 1:
            cli_diff += 1
            res.violation("the CLI gave different outputs for the same program in different runs (built-in coverage set)",
                          {"kind": "impl-cli", "program": p, "observed": [o[1][-200:] for o in outs_]})
    agree, mism, skipped, rejected = 0, [], 0, 0
    try:
        coq, _ = es.parse_to_coq(h, progs)
        model = es.model_eval(coq, tag="c02")
        agree, mism, skipped, rejected = es.compare(progs, runs[0], model)
    except c.BrokenTie as e:
        res.tie_broken(e.what, e.detail)
    if mism:
        i, r, m = mism[0]
        res.tie_broken("correspondence C02/EVAL: model and implementation disagree on %d of %d programs" % (len(mism), n_prog),
                       "first: %r\nimpl : %s\nmodel: %s" % (progs[i], r, m))
    res.streams["DETERMINISM"] = {"programs": n_prog, "re_evaluated_alone_after_a_process_death": len(died), "wide_builtin_programs": len(wide), "processes": nproc, "dirty_heap_run": True, "cli_pairs": cli_n,
                                  "nondeterministic": nondet + cli_diff, "model_agree": agree, "mismatches": len(mism),
                                  "skipped_unmodelled": skipped, "parser_rejected": rejected,
                                  "generator_node_histogram": g.stats}

    # ---------------- (b) evaluate twice, (c) let-abstraction — on the implementation alone
    n_let = 400 if tier == "quick" else 60000
    pairs = []
    g2 = Gen(rng, allow_fail=False)
    for _ in range(n_let):
        sc = Scope()
        sc.vars["inputs"] = "rec"
        prefix = []
        for _ in range(rng.below(5)):
            s = g2.statement(sc)
            if s.startswith("output") or "nosuch" in s:
                continue
            prefix.append(s)
        kind = rng.below(6)
        sub = [g2.num, g2.boolean, g2.string, g2.numlist, lambda s_, d: g2.record(s_, d), g2.fn1][kind](sc, 2)
        hole = rng.choice(HOLES)
        nh = hole.count("%s")
        orig = "\n".join(prefix + [hole % ((sub,) * nh)])
        var = "\n".join(prefix + ["t9fresh = " + sub, hole % (("t9fresh",) * nh)])
        twice = "\n".join(prefix + ["[%s, %s]" % (sub, sub), "[%s]" % sub])
        pairs.append((orig, var, twice, sub))
    # function-valued subexpressions (named, recursive, escaped from do-blocks, aliases), abstracted at
    # top level AND inside a do-block
    FDEFS = ("mk9 = () => do {\n  fc9 = n => if n < 2 then 1 else n * fc9(n - 1)\n  return fc9\n}\n"
             "rec9 = do {\n  fd9 = n => if n < 1 then 0 else n + fd9(n - 1)\n  return {f: fd9}\n}\n"
             "nm9 = x => x + 1\n")
    FSUBS = ["mk9()", "rec9.f", "nm9", "(x => x * 2)", "mk9", "[mk9()][0]", "(if true then rec9.f else nm9)"]
    FHOLES = ["(%s)(4)", "[3, 4] via %s", "map([3, 4], %s)", "(4 into %s)", "[(%s)(3), (%s)(4)]",
              "do {\n  u9 = (%s)(4)\n  return [u9, (%s)(3)]\n}"]
    for sub in FSUBS:
        for hole in FHOLES:
            if sub == "mk9" and "via" in hole:
                continue
            nh = hole.count("%s")
            call = hole if sub != "mk9" else hole
            orig = FDEFS + (hole % ((sub,) * nh))
            var = FDEFS + "t9fresh = " + sub + "\n" + (hole % (("t9fresh",) * nh))
            var_do = FDEFS + "do {\n  t9loc = " + sub + "\n  return " + (hole % (("t9loc",) * nh)).replace("\n", "\n  ") + "\n}"
            twice = FDEFS + "[%s, %s]\n[%s]" % (hole % ((sub,) * nh), hole % ((sub,) * nh), hole % ((sub,) * nh))
            pairs.append((orig, var, twice, sub))
            # the do-block variant has no separate abstraction statement: pad so that the result positions line up
            pairs.append((orig, FDEFS + "0\n" + var_do.split(FDEFS, 1)[1], twice, sub))
    # heap-allocated subexpressions among values the built-ins cannot order or tell apart by content alone:
    # binding one to a name changes the allocation order, never the result
    OSUBS = ["{k: 1}", "[1, {a: 2}]", "(x => x + 1)", "{k: [1, 2], j: \"s\"}", "inputs", "[\"b\", null]",
             "[1, 0 / 0]", "{a: 0 / 0}", "[[0 / 0]]"]   # a NaN inside a container is not equal to itself
    OHOLES = ["sort([{k: 2}, %s])", "sort([%s, {k: 0}, [0]])", "unique([{k: 1}, %s, {k: 1}])", "reverse(sort([[1, {a: 2}], %s]))",
              "sort_by([[2, %s], [1, %s]], p => p[0])", "sort_by([{k: 2}, %s, {k: 0}], r => 0)", "[{k: 2}, %s] == [{k: 2}, %s]",
              "sort([(y => y), %s, (z => z)])", "includes([{k: 1}, [1, {a: 2}]], %s)", "group_by([%s, {k: 3}], r => typeof(r))",
              "[ugt(%s, {k: 0}), ult({k: 0}, %s), %s .== %s]", "flatten([[%s], sort([{q: 1}, %s])])",
              "do {\n  u9 = sort([{k: 5}, %s])\n  return [u9, unique([%s, u9[0]])]\n}",
              "%s .== %s", "[%s == %s, %s != %s, %s .!= %s]", "unique([%s, %s])", "includes([%s], %s)", "((v9) => v9 .== v9)(%s)",
              "[ugte(%s, %s), ulte(%s, %s)]"]
    for sub in OSUBS:
        for hole in OHOLES:
            nh = hole.count("%s")
            orig = hole % ((sub,) * nh)
            var = "t9fresh = " + sub + "\n" + (hole % (("t9fresh",) * nh))
            twice = "[%s, %s]\n[%s]" % (orig, orig, orig)
            pairs.append((orig, var, twice, sub))
    # closures WITH captured values: two evaluations give two cells with equal contents; equality, unique, includes
    # and the unchecked orderings must not see the cell (Coq: C02_equals_blind_to_cells)
    for sub in ("(x => x + k9)", "[1, y => [y, k9]]", "{f: () => k9}"):
        for hole in OHOLES:
            nh = hole.count("%s")
            orig = "k9 = 3\n" + (hole % ((sub,) * nh))
            var = "k9 = 3\nt9fresh = " + sub + "\n" + (hole % (("t9fresh",) * nh))
            e9 = hole % ((sub,) * nh)
            pairs.append((orig, var, "k9 = 3\n[%s, %s]\n[%s]" % (e9, e9, e9), sub))
    for sub, pre in (("do {\n  return n9 = n9 + 1\n}", "n9 = 0\n"), ("do {\n  return k9 = 5\n}", ""),
                     ("(() => m9 = 1)()", ""), ("do {\n  t9 = 2\n  return t9 * 2\n}", "")):
        orig = pre + sub
        pairs.append((orig, pre + "t9fresh = " + sub + "\nt9fresh", pre + "[%s, %s]\n[%s]" % (sub, sub, sub), sub))
    flat = []
    for o, v, t, _ in pairs:
        flat += [o, v, t]
    outs = es.rust_eval(h, flat)
    let_checked = let_viol = twice_checked = twice_viol = 0
    for k, (o, v, t, sub) in enumerate(pairs):
        ro, rv, rt = outs[3 * k], outs[3 * k + 1], outs[3 * k + 2]
        for r_ in (ro, rv, rt):
            if "PANIC" in r_ or r_.startswith("ABORT"):
                res.violation("the evaluator panicked/aborted", {"kind": "impl", "program": o, "observed": r_})
        vo = ro.split(";ENV:")[0].split("|")
        vv = rv.split(";ENV:")[0].split("|")
        # the abstraction statement must itself succeed (otherwise the variant stops there)
        if len(vv) >= 2 and vv[-2].startswith("OK") and len(vv) == len(vo) + 1:
            let_checked += 1
            if strip_names(vo[-1]) != strip_names(vv[-1]):
                let_viol += 1
                if let_viol <= 3:
                    res.violation("binding a subexpression to a fresh name and using the name in its place changed the result",
                                  {"kind": "impl-law", "program": o, "variant": v, "subexpression": sub,
                                   "observed": [vo[-1], vv[-1]], "rerun": "./check C02 --replay <this file>"})
        vt = rt.split(";ENV:")[0].split("|")
        if len(vt) >= 2 and vt[-2].startswith("OK:L[") and vt[-1].startswith("OK:L["):
            twice_checked += 1
            a = strip_names(vt[-2])[len("OK:L["):-1]
            b = strip_names(vt[-1])[len("OK:L["):-1]
            if a != b + "," + b:
                twice_viol += 1
                if twice_viol <= 3:
                    res.violation("evaluating the same expression again gave a different result",
                                  {"kind": "impl-law", "program": t, "observed": [vt[-2], vt[-1]]})
    res.streams["LET-TWICE"] = {"pairs": n_let, "let_checked": let_checked, "let_violations": let_viol,
                                "twice_checked": twice_checked, "twice_violations": twice_viol, "holes": len(HOLES)}

    # ---------------- (c') LET-SEQ: let-abstraction with the occurrence at NON-HEAD positions (the context class of
    # C02_let_abstraction_seq_partial, Coq `sctx`, and beyond it: do-blocks / lambdas called once): after siblings that
    # allocate cells and call functions, inside call arguments, in conditional branches taken / not taken, in right
    # operands of and / or / coalesce.  Law on the implementation: when the abstraction statement `t9fresh = s` succeeds,
    # `C[t9fresh]` and `C[s]` have the same outcome (same value up to function names, or both fail); in particular
    # "C[s] succeeds => t9fresh = s; C[t9fresh] succeeds with the same value".
    SEQ_CTX = {
        "after_allocating_sibling": ["[(a9 => a9), %s][1]", "[map([1, 2], a9 => a9 + 1), %s]", "{j: (a9 => a9), k: %s}.k",
                                     "[[1, {a: 2}], (a9 => [a9]), %s]", "[(a9 => a9)(1)] == [%s]",
                                     "[sort_by([2, 1], a9 => a9), %s, (b9 => b9)]"],
        "call_argument": ["((a9, b9) => [b9, a9])((c9 => c9)(1), %s)", "((a9, b9, c9) => c9)(1, [2], %s)",
                          "reduce([1], (a9, q9) => a9, %s)", "((a9, b9) => b9)(sort([3, 1]), %s)",
                          "typeof(((a9, b9) => b9)((c9 => c9), %s))"],
        "branch_taken": ["if 1 < 2 then %s else 0", "if [1] == [(a9 => 1)(0)] then [0, %s] else 0",
                         "if (a9 => true)(0) then {k: %s} else 0"],
        "branch_not_taken": ["if 1 > 2 then %s else 7", "if false then [%s] else (a9 => a9)(7)",
                             "if (a9 => false)(0) then %s else [(b9 => b9)]"],
        "right_operand_and_or_coalesce": ["false && (%s)", "true || (%s)", "true && (%s)", "false || (%s)", "null ?? (%s)",
                                          "1 ?? (%s)", "(a9 => null)(0) ?? (%s)"],
        "nested": ["[0, if true then ((a9, b9) => b9)((c9 => c9), [1, %s]) else 0]",
                   "{k: [(a9 => a9), if 2 > 1 then %s else 0]}.k[1]"],
    }
    n_seq = 30 if tier == "quick" else 3000
    g3 = Gen(rng, allow_fail=False)
    seq = []
    sub_kinds = {}
    SEQ_FIXED = [("", "{k: 1}", "record"), ("", "(x => x + 1)", "fn"), ("k9 = 3\n", "(x => x + k9)", "closure"),
                 ("k9 = 3\n", "[1, y => [y, k9]]", "list_with_closure"), ("", "[1, 0 / 0]", "nan_list"),
                 ("", "(1 / 0 > 0)", "bool"), ("", "null", "null"), ("nm9 = x => x + 1\n", "nm9", "named_fn"),
                 ("", "do {\n  w9 = 2\n  return [w9, (a9 => a9)]\n}", "do_block")]
    KNAMES = ["num", "bool", "string", "numlist", "record", "fn"]
    cases = [(pre.replace("\\n", "\n"), sub.replace("\\n", "\n"), kind) for pre, sub, kind in SEQ_FIXED]
    for _ in range(n_seq):
        sc = Scope()
        sc.vars["inputs"] = "rec"
        prefix = []
        for _ in range(rng.below(4)):
            st_ = g3.statement(sc)
            if st_.startswith("output") or "nosuch" in st_:
                continue
            prefix.append(st_)
        kind = rng.below(6)
        sub = [g3.num, g3.boolean, g3.string, g3.numlist, lambda s_, d_: g3.record(s_, d_), g3.fn1][kind](sc, 2)
        cases.append(("".join(p_ + "\n" for p_ in prefix), sub, KNAMES[kind]))
    for pre, sub, kind in cases:
        sub_kinds[kind] = sub_kinds.get(kind, 0) + 1
        for cls, ctxs in sorted(SEQ_CTX.items()):
            for ctx in ctxs:
                seq.append((cls, kind, pre + (ctx % sub), pre + "t9fresh = " + sub + "\n" + (ctx % "t9fresh"), sub))
    flat = []
    for _, _, o, v, _ in seq:
        flat += [o, v]
    outs = es.rust_eval(h, flat)
    seq_checked = {}
    seq_both_ok = {}
    seq_skipped = seq_viol = 0
    for k, (cls, kind, o, v, sub) in enumerate(seq):
        ro, rv = outs[2 * k], outs[2 * k + 1]
        for r_ in (ro, rv):
            if "PANIC" in r_ or r_.startswith("ABORT"):
                res.violation("the evaluator panicked/aborted", {"kind": "impl", "program": o, "observed": r_})
        vo = ro.split(";ENV:")[0].split("|")
        vv = rv.split(";ENV:")[0].split("|")
        if not (len(vv) >= 2 and vv[-2].startswith("OK") and len(vv) == len(vo) + 1):
            seq_skipped += 1          # the prefix or the abstraction statement itself failed
            continue
        seq_checked[cls] = seq_checked.get(cls, 0) + 1
        if vo[-1].startswith("OK") and vv[-1].startswith("OK"):
            seq_both_ok[cls] = seq_both_ok.get(cls, 0) + 1
        if strip_names(vo[-1]) != strip_names(vv[-1]):
            seq_viol += 1
            if seq_viol <= 3:
                res.violation("binding a subexpression at a non-head position (%s) to a fresh name and using the name in its "
                              "place changed the result" % cls,
                              {"kind": "impl-law", "program": o, "variant": v, "subexpression": sub, "context_class": cls,
                               "observed": [vo[-1], vv[-1]], "rerun": "./check C02 --replay <this file>"})
    # LET2 round: the MODEL side of LET-SEQ.  The same program pairs through `run_program_full` (vm_compute), outcomes
    # compared line by line with the implementation as the EVAL streams do: ties the object of
    # C02_let_abstraction_seq_partial / C02_let_program (the model's evaluation of C[x] after `x = s`, and of C[s]) to the
    # code on exactly these programs.  And the LAW evaluated on the model's own outcomes (a model-side failure of the law on
    # a program inside the theorem's hypotheses would contradict C02_let_program: reported as a broken tie).
    seq_model = {"programs": 0, "agree": 0, "mismatch": 0, "unmodelled": 0, "rejected_by_translator": 0,
                 "law_checked_on_model": 0, "law_failures_on_model": 0, "per_class_agree": {}}
    try:
        stride = max(1, len(seq) // 10000)           # every pair in quick (about 6 ms per program); thorough: ~10000 pairs
        n_tpl = sum(len(v_) for v_ in SEQ_CTX.values())
        while stride > 1 and any(stride % q_ == 0 and n_tpl % q_ == 0 for q_ in range(2, n_tpl + 1)):
            stride += 1                              # coprime with the number of templates: every template is visited
        sel_k = list(range(0, len(seq), stride))
        sel_p, sel_o = [], []
        for k in sel_k:
            sel_p += [flat[2 * k], flat[2 * k + 1]]
            sel_o += [outs[2 * k], outs[2 * k + 1]]
        coq4, _ = es.parse_to_coq(h, sel_p)
        model4 = es.model_eval(coq4, tag="c02seq")
        sq_agree, mism4, sq_skip, sq_rej = es.compare(sel_p, sel_o, model4)
        seq_model.update({"programs": len(sel_p), "agree": sq_agree, "mismatch": len(mism4), "unmodelled": sq_skip,
                          "rejected_by_translator": sq_rej, "stride": stride})
        bad = {i_ for i_, _, _ in mism4}
        for j, k in enumerate(sel_k):
            cls = seq[k][0]
            mo, mv = model4[2 * j], model4[2 * j + 1]
            if mo is None or mv is None or "UNMODELLED" in mo or "UNMODELLED" in mv:
                continue
            if 2 * j not in bad and 2 * j + 1 not in bad:
                seq_model["per_class_agree"][cls] = seq_model["per_class_agree"].get(cls, 0) + 1
            wo = mo.split(";ENV:")[0].split("|")
            wv = mv.split(";ENV:")[0].split("|")
            if not (len(wv) >= 2 and wv[-2].startswith("OK") and len(wv) == len(wo) + 1):
                continue
            seq_model["law_checked_on_model"] += 1
            if strip_names(wo[-1]) != strip_names(wv[-1]):
                seq_model["law_failures_on_model"] += 1
                if seq_model["law_failures_on_model"] <= 2:
                    res.tie_broken("LET-SEQ: the let-abstraction law fails on the MODEL's own outcomes (class %s)" % cls,
                                   "C[s]: %r\nx = s; C[x]: %r\nmodel: %s | %s" % (seq[k][2], seq[k][3], wo[-1], wv[-1]))
        if mism4:
            i4, r4_, m4_ = mism4[0]
            res.tie_broken("correspondence C02/LET-SEQ: model and implementation disagree on %d of %d programs"
                           % (len(mism4), len(sel_p)), "first: %r\nimpl : %s\nmodel: %s" % (sel_p[i4], r4_, m4_))
    except c.BrokenTie as e:
        res.tie_broken(e.what, e.detail)
    res.streams["LET-SEQ"] = {"programs": 2 * len(seq), "pairs": len(seq),
                              "contexts_per_class": {cls: len(ctxs) for cls, ctxs in SEQ_CTX.items()},
                              "checked_per_class": seq_checked, "both_succeed_per_class": seq_both_ok,
                              "subexpression_kinds": sub_kinds, "skipped_abstraction_or_prefix_failed": seq_skipped,
                              "violations": seq_viol,
                              "law": "t9fresh = s succeeds => outcome(C[t9fresh]) == outcome(C[s]) up to function names",
                              "model_side": seq_model}

    # ---------------- (d) the boundary the eval-twice theorem singles out (hypothesis old_names_kept):
    # an expression that NAMES a function cell which existed before it and had no name yet.  Class F52 (known
    # finding): the assigned name is one the function's body resolves dynamically; every other shape must agree.
    PRES = [("fs9 = [x => x + y9]\ny9 = 5", "fs9[0]", True), ("r9 = {f: x => x + y9}\ny9 = 5", "r9.f", True),
            ("mk9 = () => [x => x + y9]\nfs9 = mk9()\ny9 = 5", "fs9[0]", True),
            ("f9 = x => x + y9\nfs9 = [f9]\ny9 = 5", "fs9[0]", False),          # already named: nothing to rename
            ("y9 = 5\nfs9 = [x => x + y9]", "fs9[0]", False)]                   # y9 captured: the self name does not shadow it
    NAMERS = ["do {\n  %s = %s\n  return 0\n}", "(() => do {\n  %s = %s\n  return 0\n})()",
              "map([0], q9 => do {\n  %s = %s\n  return 0\n})[0]", "([0] via (q9 => do {\n  %s = %s\n  return 0\n}))[0]"]
    SHAPES = ["[%(use)s, %(namer)s]", "[%(namer)s, %(use)s]", "{a: %(use)s, b: %(namer)s}.a", "(%(use)s) + (%(namer)s)",
              "if (%(namer)s) == 0 then %(use)s else 0"]
    nb_progs, nb_meta = [], []
    for pre, acc, unnamed in PRES:
        for namer in NAMERS:
            for name in ("y9", "z9"):
                for shape in SHAPES:
                    e_ = shape % {"use": "%s(1)" % acc, "namer": namer % (name, acc)}
                    nb_progs.append("%s\nt1 = %s\nt2 = %s" % (pre, e_, e_))
                    nb_meta.append((unnamed and name == "y9", pre.count("\n") + 3))
    for e9 in ("[(x => x + k9) == (x => x + k9)]", "(x => x + k9) .== (x => x + k9)",
               "len(unique([(x => x + k9), (x => x + k9)]))", "includes([(x => x + k9)], (x => x + k9))",
               "[ugte((x => x + k9), (x => x + k9)), [y => k9] == [y => k9]]"):
        nb_progs.append("k9 = 3\nt1 = %s\nt2 = %s" % (e9, e9))
        nb_meta.append((False, 3))
    nb_out = es.rust_eval(h, nb_progs)
    f52_open = any(e_["id"] == "F52" for e_ in open_known_c02())
    nb_known = nb_viol = nb_checked = 0
    nb_t1_ok = 0
    for p_, (known_class, n_stmts), o_ in zip(nb_progs, nb_meta, nb_out):
        parts = o_.split(";ENV:")[0].split("|")
        if len(parts) != n_stmts:          # the run stopped before t2: t1 (or the prefix) failed, nothing to compare
            continue
        nb_t1_ok += 1
        nb_checked += 1
        a_, b_ = strip_names(parts[-2]), strip_names(parts[-1])
        # t1 must succeed for the law to apply (first evaluation Ok); then t2 must be the same
        if a_.startswith("OK") and a_ != b_:
            if known_class and f52_open:
                nb_known += 1
            else:
                nb_viol += 1
                if nb_viol <= 3:
                    res.violation("evaluating the same expression again gave a different result (naming boundary)",
                                  {"kind": "impl-law", "program": p_, "observed": [parts[-2], parts[-1]],
                                   "expected": "the statements t1 and t2 give the same result"})
    # the model reproduces the boundary exactly (correspondence on the shapes outside the known class; the F52
    # shapes are counted but not diffed, so that a repair of F52 does not raise an alarm here)
    # ---------------- (c'') LET-FRESHNESS (LET2 round): the boundary of the freshness hypothesis of C02_let_program.
    # Witness pairs of the two `_refuted` lemmas (a function of the scope that READS x9 late-bound; one that ASSIGNS x9) must
    # behave on the implementation as the model says (A and B differ) — they are run through the model too; control pairs
    # in which x9 is semantically fresh although a function mentions the name as its own parameter / a do-block local /
    # an unrelated name must satisfy the law (outside the theorem's syntactic hypothesis, inside the law).
    FRESH = [
        ("witness_reads_late_bound", "f9 = y => x9 + y\n", "1", "f9(1) + %s", True),
        ("witness_assigns", "g9 = () => (x9 = 5)\n", "1", "[g9(), %s][0]", True),
        ("control_unrelated_name", "z9 = 0\nf9 = y => z9 + y\n", "1", "f9(1) + %s", False),
        ("control_parameter_named_x", "h9 = x9 => x9 + 1\n", "1", "h9(1) + %s", False),
        ("control_do_block_local", "d9 = () => do {\n  x9 = 5\n  return x9\n}\n", "1", "d9() + %s", False),
        ("control_captured_own_x", "m9 = (x9 => (y => x9 + y))(2)\n", "1", "m9(1) + %s", False),
    ]
    fr_progs = []
    for _, pre, sub, ctx, _ in FRESH:
        fr_progs += [pre + (ctx % sub), pre + "x9 = " + sub + "\n" + (ctx % "x9")]
    fr_out = es.rust_eval(h, fr_progs)
    fr_stream = {"pairs": len(FRESH), "witnesses_differ": 0, "controls_equal": 0, "model_agree": 0}
    for k, (nm, pre, sub, ctx, is_witness) in enumerate(FRESH):
        lo, lv = last(fr_out[2 * k]), last(fr_out[2 * k + 1])
        if is_witness:
            if strip_names(lo) == strip_names(lv):
                res.tie_broken("LET-FRESHNESS: the witness %s of the _refuted lemmas no longer distinguishes `x9 = s; C[x9]` from "
                               "`C[s]` on the implementation" % nm, "%r -> %s ; %r -> %s" % (fr_progs[2 * k], lo, fr_progs[2 * k + 1], lv))
            else:
                fr_stream["witnesses_differ"] += 1
        elif strip_names(lo) != strip_names(lv):
            res.violation("binding a subexpression to a fresh name and using the name in its place changed the result "
                          "(freshness control %s)" % nm,
                          {"kind": "impl-law", "program": fr_progs[2 * k], "variant": fr_progs[2 * k + 1],
                           "observed": [lo, lv], "rerun": "./check C02 --replay <this file>"})
        else:
            fr_stream["controls_equal"] += 1
    try:
        coq5, _ = es.parse_to_coq(h, fr_progs)
        model5 = es.model_eval(coq5, tag="c02fresh")
        fa, mism5, _, _ = es.compare(fr_progs, fr_out, model5)
        fr_stream["model_agree"] = fa
        if mism5:
            i5, r5_, m5_ = mism5[0]
            res.tie_broken("correspondence C02/LET-FRESHNESS: model and implementation disagree on %d of %d programs"
                           % (len(mism5), len(fr_progs)), "first: %r\nimpl : %s\nmodel: %s" % (fr_progs[i5], r5_, m5_))
    except c.BrokenTie as e:
        res.tie_broken(e.what, e.detail)
    fr_stream["shapes"] = [nm for nm, _, _, _, _ in FRESH]
    res.streams["LET-FRESHNESS"] = fr_stream

    nb_agree = nb_mism = 0
    try:
        stride = 2 if tier == "quick" else 1
        # while F52 is open its class is counted, not diffed; once it is fixed the whole family is strict, in
        # the implementation-level law above AND against the (repaired) model
        sel = [p_ for p_, k_ in zip(nb_progs[:-5], nb_meta[:-5]) if not (k_[0] and f52_open)][::stride] + nb_progs[-5:]
        selo = [o_ for o_, k_ in zip(nb_out[:-5], nb_meta[:-5]) if not (k_[0] and f52_open)][::stride] + nb_out[-5:]
        coq2, _ = es.parse_to_coq(h, sel)
        model2 = es.model_eval(coq2, tag="c02nb")
        nb_agree, mism2, _, _ = es.compare(sel, selo, model2)
        nb_mism = len(mism2)
        if mism2:
            i2, r2_, m2_ = mism2[0]
            res.tie_broken("correspondence C02/NAMING: model and implementation disagree on %d programs" % len(mism2),
                           "first: %r\nimpl : %s\nmodel: %s" % (sel[i2], r2_, m2_))
    except c.BrokenTie as e:
        res.tie_broken(e.what, e.detail)
    res.streams["NAMING-BOUNDARY"] = {"programs": len(nb_progs), "checked": nb_checked, "in_class_F52": sum(1 for k_ in nb_meta if k_[0]), "F52_open": f52_open, "t1_succeeded": nb_t1_ok,
                                      "differ_known_F52": nb_known, "violations": nb_viol,
                                      "model_agree": nb_agree, "model_mismatch": nb_mism,
                                      "distribution": {"pre_shapes": len(PRES), "namers": len(NAMERS), "names": 2,
                                                       "expression_shapes": len(SHAPES)}}

    # ---------------- (e) REL round: evaluate-twice over the FULL built-in dispatcher (Coq: C02_eval_twice_fullbi,
    # C02_ops_commute_full_proved).  Assignment-free expressions that push function values (named, anonymous, fresh
    # closures with captured values) through every list / record / aggregate / text built-in and through the
    # callbacks of sort_by / group_by / count_by: `t1 = E; t2 = E` must give the same result (cells aside), and the
    # model (EvalFull.eval_full, the evaluator the theorems are now about) must agree with the implementation.
    TF_PRE = ("k9 = 3\nf9 = x => x + k9\ng9 = x => x * 2\nfs9 = [f9, g9, (z => z - k9)]\nns9 = [5, 3, 9, 1, 3]\n"
              "ss9 = [\"pear\", \"fig\", \"apple\", \"fig\"]\nr9 = {a: f9, b: 2, c: (w => [w, k9])}\n"
              "mx9 = [f9, 2, \"a\", null, [g9], {h: g9}, f9, 2]")
    TF_EXPRS = [
        "sort_by(ns9, x => 0 - x)", "sort_by(fs9, f => 0 - f(1))", "sort_by(mx9, v => typeof(v))", "sort_by(mx9, v => v)",
        "group_by(mx9, v => typeof(v))", "count_by(mx9, v => typeof(v))", "group_by(fs9, f => to_string(f(2)))",
        "count_by(map(ns9, n => (m => m + n)), f => to_string(f(0)))", "group_by(ss9, s => (c => c)(s))",
        "unique(mx9)", "unique([f9, (x => x + k9), f9, (x => x + k9), (x => x + 1)])", "includes(mx9, f9)",
        "includes(fs9, (z => z - k9))", "includes([(y => y)], (y => y))", "includes(mx9, (x => x + k9))", "sort(mx9)",
        "reverse(mx9)", "concat(fs9, mx9, [(q => q)])", "flatten([fs9, [mx9], (q => q)])", "zip(fs9, ns9, mx9)",
        "chunk(mx9, 3)", "head(fs9)", "tail(fs9)", "slice(mx9, 1, 6)", "len(mx9)", "keys(r9)", "values(r9)", "entries(r9)",
        "values({...r9, d: (q => q)})", "map(values(r9), v => typeof(v))",
        "[sum(map(fs9, f => f(1))), max(map(fs9, f => f(2))), median(map(fs9, f => f(3))), min(2, 1), prod(ns9)]",
        "head(sort_by([(a => a + 1), (b => b * 3), g9], f => 0 - f(2)))(10)",
        "map(unique([g9, (x => x * 2), g9]), f => f(4))", "join(map(fs9, f => to_string(f(1))), \"-\")",
        "zip(map(ns9, n => (m => m + n)), ns9)[1][0](10)", "sort_by(map(ns9, n => (m => m + n)), f => f(0))[0](100)",
        "filter(flatten([fs9, fs9]), f => includes(fs9, f))", "percentile(map(fs9, f => f(1)), 50)",
        "dot(map(fs9, f => f(1)), map(fs9, f => f(2)))", "range(len(fs9))", "split(join(ss9, \",\"), \",\")",
        "replace(head(ss9), \"p\", \"P\")", "round(avg(ns9), 1)", "convert(len(fs9), \"km\", \"m\")",
        "to_number(to_string(len(mx9)))", "entries(group_by(fs9, f => to_string(arity(f))))[0][1][2](7)",
        "sort_by(fs9, f => f)", "sort_by(ns9, f9)", "group_by(ss9, head)", "count_by(ss9, s => to_string(len(s)))",
        "[typeof(head(tail(fs9))), arity(head(reverse(fs9)))]", "random(len(fs9))",
    ]
    TF_CTX = ["%s", "[%s, (u9 => u9)]", "(() => %s)()", "map([0], q9 => %s)[0]"]
    tf_progs = []
    for e9 in TF_EXPRS:
        for cx in (TF_CTX if tier != "quick" else [TF_CTX[0], TF_CTX[1 + rng.below(3)]]):
            e_ = cx % e9
            tf_progs.append("%s\nt1 = %s\nt2 = %s" % (TF_PRE, e_, e_))
    tf_out = es.rust_eval(h, tf_progs)
    tf_n = TF_PRE.count("\n") + 3
    tf_checked = tf_ok1 = tf_viol = 0
    for p_, o_ in zip(tf_progs, tf_out):
        if "PANIC" in o_ or o_.startswith("ABORT"):
            res.violation("the evaluator panicked/aborted", {"kind": "impl", "program": p_, "observed": o_[:300]})
            continue
        parts = o_.split(";ENV:")[0].split("|")
        if len(parts) != tf_n:
            continue
        tf_checked += 1
        a_, b_ = strip_names(parts[-2]), strip_names(parts[-1])
        if a_.startswith("OK"):
            tf_ok1 += 1
            if a_ != b_:
                tf_viol += 1
                if tf_viol <= 3:
                    res.violation("evaluating the same expression again gave a different result (full built-in set)",
                                  {"kind": "impl-law", "program": p_, "observed": [parts[-2], parts[-1]],
                                   "expected": "the statements t1 and t2 give the same result (Coq: C02_eval_twice_fullbi)"})
    tf_agree = tf_mism = tf_skip = 0
    try:
        coq3, _ = es.parse_to_coq(h, tf_progs)
        model3 = es.model_eval(coq3, tag="c02tf")
        tf_agree, mism3, tf_skip, _ = es.compare(tf_progs, tf_out, model3)
        tf_mism = len(mism3)
        if mism3:
            i3, r3_, m3_ = mism3[0]
            res.tie_broken("correspondence C02/TWICE-FULL: model and implementation disagree on %d programs" % len(mism3),
                           "first: %r\nimpl : %s\nmodel: %s" % (tf_progs[i3], r3_, m3_))
    except c.BrokenTie as e:
        res.tie_broken(e.what, e.detail)
    res.streams["TWICE-FULL"] = {"programs": len(tf_progs), "reached_t2": tf_checked, "t1_succeeded": tf_ok1,
                                 "violations": tf_viol, "model_agree": tf_agree, "model_mismatch": tf_mism,
                                 "model_skipped_unmodelled": tf_skip,
                                 "distribution": {"expressions": len(TF_EXPRS), "contexts_per_expression": 2 if tier == "quick" else len(TF_CTX),
                                                  "builtins_named": sorted({w for e9 in TF_EXPRS for w in re.findall(r"[a-z_]+(?=\()", e9)})}}
    res.coverage["evaluations"] = n_prog * (nproc + 1) + len(flat) + 2 * cli_n + len(nb_progs)
    res.coverage["evaluations"] += len(tf_progs)
    res.coverage["evaluations"] += len(fr_progs)
    res.coverage["distinct_nontrivial"] = len({r for r in runs[0] if "OK:" in r}) + let_checked
    res.coverage["rule"] = ("generated well-scoped programs (typed generator, scope tracking) each run in %d separate "
                            "processes + once more after unrelated evaluations in the same process + the model; %d "
                            "(prefix, subexpression, context) triples for let-abstraction and evaluate-twice with "
                            "subexpressions of every type incl. functions and %d context shapes; non-trivial = programs "
                            "with a successful statement + abstraction pairs actually compared" % (nproc, n_let, len(HOLES)))
    res.coverage["samples"] = [{"program": pairs[i][0], "variant": pairs[i][1]} for i in (0, 1, 2)]
    res.coverage["traces_validated_against_impl"] = agree
    res.coverage["traces_validated_against_impl_let_seq"] = seq_model["agree"] + fr_stream["model_agree"]
    # F52 once fixed: its witness stays a regression input; a reappearance is a violation
    if not f52_open:
        w52 = "fs = [x => x + y]\ny = 5\nt1 = [fs[0](1), do { y = fs[0]; return 0 }]\nt2 = [fs[0](1), do { y = fs[0]; return 0 }]"
        wo = es.rust_eval(h, [w52])[0].split(";ENV:")[0].split("|")
        if not (len(wo) == 4 and wo[-2].startswith("OK") and strip_names(wo[-2]) == strip_names(wo[-1])):
            res.violation("evaluating the same expression again gave a different result (F52 reappeared: an assignment "
                          "names a function that existed before it)",
                          {"kind": "impl-law", "program": w52, "observed": wo[-2:], "expected": "t1 and t2 both [6, 0]"})
    for e in open_known_c02():
        suffix = ""
        if e["id"] == "F52":
            wo = es.rust_eval(h, [e["witness"]])[0].split(";ENV:")[0].split("|")
            if len(wo) >= 2 and strip_names(wo[-2]) == strip_names(wo[-1]):
                suffix = " (no longer reproduces)"
        res.known("%s %s%s" % (e["id"], e["what"], suffix))
    return res.finish()


if __name__ == "__main__":
    sys.exit(main(sys.argv[1:]))
