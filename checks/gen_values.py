"""Value generators shared by the streams.  A value is a small Python tree that can be rendered
as Blots source text (for the implementation) and as a Gallina term (for the model)."""
import math
import struct

from common import hexs


def f2bits(x):
    if x != x:
        return 0x7ff8000000000000
    return struct.unpack(">Q", struct.pack(">d", x))[0]


def bits2f(b):
    return struct.unpack(">d", struct.pack(">Q", b))[0]


class V:
    __slots__ = ("k", "p")

    def __init__(self, k, p=None):
        self.k = k
        self.p = p

    # ---- Blots source
    def src(self):
        k, p = self.k, self.p
        if k == "num":
            return num_src(p)
        if k == "bool":
            return "true" if p else "false"
        if k == "null":
            return "null"
        if k == "str":
            return str_src(p)
        if k == "list":
            return "[" + ", ".join(x.src() for x in p) + "]"
        if k == "rec":
            if not p:
                return "{}"
            return "{" + ", ".join("%s: %s" % (str_src(kk), vv.src()) for kk, vv in p) + "}"
        if k == "builtin":
            return p
        if k == "lam":
            return p[0]
        raise ValueError(k)

    # ---- Gallina term of type value
    def coq(self):
        k, p = self.k, self.p
        if k == "num":
            return "(VNum (nb 0x%016x))" % f2bits(p)
        if k == "bool":
            return "(VBool %s)" % ("true" if p else "false")
        if k == "null":
            return "VNull"
        if k == "str":
            return '(VStr (hx "%s"))' % hexs(p)
        if k == "list":
            return "(VList [" + "; ".join(x.coq() for x in p) + "])"
        if k == "rec":
            return "(VRec [" + "; ".join('((hx "%s"), %s)' % (hexs(kk), vv.coq()) for kk, vv in p) + "])"
        if k == "builtin":
            return "(VBuiltin B_%s)" % p
        if k == "lam":
            return p[1]
        raise ValueError(k)

    # ---- canonical show (same format as harness/src/show.rs and coq/Show.v)
    def show(self):
        k, p = self.k, self.p
        if k == "num":
            return "N%016x" % f2bits(p)
        if k == "bool":
            return "T" if p else "F"
        if k == "null":
            return "U"
        if k == "str":
            return "S%s;" % hexs(p)
        if k == "list":
            return "L[" + ",".join(x.show() for x in p) + "]"
        if k == "rec":
            return "R{" + ",".join("%s:%s" % (hexs(kk), vv.show()) for kk, vv in p) + "}"
        if k == "builtin":
            return "B%s;" % p
        raise ValueError(k)

    def is_data(self):
        k, p = self.k, self.p
        if k == "num":
            return p == p
        if k in ("bool", "null", "str"):
            return True
        if k == "list":
            return all(x.is_data() for x in p)
        if k == "rec":
            return all(v.is_data() for _, v in p)
        return False

    def tname(self):
        return self.k

    def __repr__(self):
        return self.src()


def num_src(x):
    if x != x:
        return "(0/0)"
    if x == math.inf:
        return "inf"
    if x == -math.inf:
        return "(-inf)"
    if x == 0 and math.copysign(1, x) < 0:
        return "(-0)"
    r = repr(abs(x))
    if r.endswith(".0"):
        r = r[:-2]
    # python: 1e+30 / 1e-07 -- accepted by the grammar (integer allows a sign)
    if x < 0:
        return "(-%s)" % r
    return r


def str_src(s):
    # the grammar has no escapes: choose the quote that does not occur
    if '"' not in s:
        return '"%s"' % s
    if "'" not in s:
        return "'%s'" % s
    raise ValueError("string with both quotes has no literal")


N = lambda x: V("num", float(x))
S = lambda s: V("str", s)
B = lambda b: V("bool", b)
NULL = V("null")
L = lambda *xs: V("list", list(xs))
R = lambda *kv: V("rec", list(kv))

BOUNDARY_NUMS = [0.0, -0.0, 1.0, -1.0, 2.0, 0.5, -0.5, 1.5, 3.0, 1e30, -1e30, 2.0 ** 53, 2.0 ** 53 + 2,
                 5e-324, 1.7976931348623157e308, math.inf, -math.inf, math.nan, 0.1, 0.30000000000000004,
                 100.0, 255.0, 1e-7, 123456.789]


def dense_pool():
    """Pool dense in near-equal values (C12): shared prefixes, permuted record keys, nested
    lists, +-0, equal strings (every literal is a fresh heap cell), cross-type lookalikes."""
    p = []
    p += [N(x) for x in [0.0, -0.0, 1.0, 2.0, -1.0, 0.5, 1e30, math.inf, -math.inf, math.nan, 2.0 ** 53,
                         2.0 ** 53 + 2, 5e-324]]
    p += [B(True), B(False), NULL]
    p += [S(""), S("a"), S("a"), S("ab"), S("b"), S("B"), S("héllo"), S("héllp"), S("1"), S("true"),
          S("\U0001F600"), S("￿")]
    p += [L(), L(N(1)), L(N(1), N(2)), L(N(1), N(2), N(0)), L(N(1), N(3)), L(N(2)),
          L(N(-0.0)), L(N(0.0)), L(N(math.nan)), L(S("a"), N(1)), L(S("a"), S("b")), L(NULL),
          L(L(N(1)), L(N(2))), L(L(N(1)), L(N(2), N(0))), L(L()), L(N(1), S("x")), L(N(1), B(True)),
          L(B(False), B(True)), L(B(False), B(False))]
    p += [R(), R(("a", N(1))), R(("a", N(1)), ("b", N(2))), R(("b", N(2)), ("a", N(1))),
          R(("a", N(1)), ("b", N(3))), R(("a", N(1)), ("c", N(2))),
          R(("a", L(N(1))), ("b", R(("x", NULL)))), R(("b", R(("x", NULL))), ("a", L(N(1)))),
          R(("a", N(-0.0))), R(("a", N(0.0))), R(("a", NULL)), R(("", N(1))), R(("1", N(1)))]
    p += [V("builtin", "sum"), V("builtin", "map")]
    return p
