"""C03 FAILBIND family: statements that FAIL AFTER a nested assignment inside them has bound a top-level name.

The property says "across any sequence of statements, INCLUDING FAILING ONES, a top-level name once bound keeps its
value".  A failing statement is not atomic in blots: an assignment nested in it that was evaluated before the failure
stays bound (model: eval_root_monotone holds for failing evaluations; `[b = 1, nope]` leaves b = 1).  What such a
statement leaves behind — the binding AND the heap cells the bound value lives in — is exactly the state a change
to the failure path (roll back, release, reuse) can damage, and it is only observable when the session goes on.

The family is the product
    binding site  x  kind of the bound value  x  kind of failure  (enumerated completely)
followed by later statements that allocate (chosen by the run's Rng) and reads of the name, and it is decided by

  * the SESSION invariant (snapshots + probe calls after every statement; checks/c03.py check_session_invariant);
  * FAILURE-PREFIX EQUIVALENCE, a law on the implementation alone: for the rest of the session the failing statement
    C[name = V; failure] is indistinguishable from the plain statement `name = V` — every later result and the final
    root bindings are equal.  It is evaluated on QUIET sessions (harness c03-quiet: nothing is read between the
    statements), i.e. what a REPL user sees;
  * the SESSION correspondence (the model runs the same sessions).
"""
import re

# top-level names used by the family (none of them is a local / parameter name of checks/c03.py's alphabet)
NAME, NAME2 = "fb1", "fb2"

# kind -> source of the bound value V.  Heap kinds first; the last three are immediate values (controls).
VALUES = [
    ("string", '"hello"'),
    ("string-empty", '""'),
    ("string-computed", '"he" + "llo"'),
    ("string-nonascii", '"hé世"'),
    ("list", "[1, 2, 3]"),
    ("list-empty", "[]"),
    ("list-nested", '[[1], "s", {r: 2}]'),
    ("list-computed", "range(3)"),
    ("record", "{k: 1}"),
    ("record-nested", '{k: [1, 2], s: "t"}'),
    ("lambda", "w => w + 1"),
    ("lambda-capturing", "w => [w, pre0, pre1]"),
    ("lambda-in-list", "[w => w * 2]"),
    ("alias-of-earlier", "pre1"),
    ("builtin", "max"),
    ("number", "41"),
    ("bool", "true"),
    ("null", "null"),
]
HEAP_KINDS = {k for k, _ in VALUES[:13]}

# kind -> expression that fails whenever it is evaluated
FAILS = [
    ("unknown-name", "nosuch"),
    ("type-error", '1 + "s"'),
    ("index-of-non-container", "5[0]"),
    ("broadcast-length-mismatch", "[1, 2] + [1]"),
    ("spread-of-non-iterable", "[...5]"),
    ("call-of-non-function", "pre2(1)"),
    ("bind-builtin-name", "sum = 1"),
    ("rebind-earlier-name", "pre2 = 0"),
    ("failing-builtin", "head(5)"),
    ("call-depth", "(r0 => r0(r0))(r0 => r0(r0))"),
]

# site -> template; {B} = `name = V`, {F} = the failing expression, evaluated after {B}
SITES = [
    ("list", "[{B}, {F}]"),
    ("list-deeper", "[0, [{B}], [[{F}]]]"),
    ("record-value", "{{u: {B}, v: {F}}}"),
    ("call-argument", "typeof({B}) + ({F})"),
    ("operand", "[{B}] == [{F}]"),
    ("outer-assignment", "fbo = [{B}, {F}]"),
    ("output-declaration", "output fbo = [{B}, {F}]"),
    ("condition", 'if typeof({B}) == "zz" then 0 else ({F})'),
    ("argument-of-failing-call", "(w => [w, {F}])({B})"),
    ("via-callback-fails", "[{B}] via (w => {F})"),
    ("builtin-callback-fails", "map([{B}], w => {F})"),
    ("do-block-fails", "[{B}, do {{\n  t1 = 1\n  return {F}\n}}]"),
    ("spread", "[...[{B}], {F}]"),
    ("two-names", "[{B}, " + NAME2 + " = [" + NAME + "], {F}]"),
]
# sites whose failure is the binding discipline itself (no {F})
SELF_SITES = [
    ("rebinds-itself", NAME + " = [{B}]"),
    ("binds-twice", "[{B}, " + NAME + " = 0]"),
    ("output-rebinds-itself", "output " + NAME + " = [{B}]"),
]

PRE = 'pre0 = "p" + "q"\npre1 = [1, [2]]\npre2 = 7'

# later statements: each allocates at least one heap cell, except the controls at the end
POSTS = [
    ("bind-string", 'po{i} = "goodbye"'),
    ("bind-list", "po{i} = [[7], [8]]"),
    ("bind-record", "po{i} = {{z: [1]}}"),
    ("bind-lambda", "po{i} = w => w - 1"),
    ("range-call", "range(2)"),
    ("list-literal", "[7, 8, 9]"),
    ("record-literal", "{{z: 1}}"),
    ("string-concat", '"a" + "b"'),
    ("map-call", "map([1, 2], w => [w])"),
    ("lambda-literal", "w => w"),
    ("another-failing-binding", '[pf{i} = "zz", nosuch]'),
    ("failing-plain", "1 + nosuch"),
    ("no-allocation", "1 + 1"),
]

READS = [NAME, "[" + NAME + ", " + NAME + "]", "typeof(" + NAME + ")", "[pre0, pre1, " + NAME + "]"]


def _reference_for(site, b):
    if site == "two-names":
        return b + "\n" + NAME2 + " = [" + NAME + "]"
    return b


def cases(rng, posts_per_case=2):
    """-> list of dicts {site, value, fail, posts, failing, reference, tail:[...]}.
    `failing` / `reference` are the statement(s) at the position under test; `tail` the later statements."""
    out = []
    combos = []
    for sk, st in SITES:
        for vk, vs in VALUES:
            for fk, fs in FAILS:
                combos.append((sk, st, vk, vs, fk, fs))
    for sk, st in SELF_SITES:
        for vk, vs in VALUES:
            combos.append((sk, st, vk, vs, "binding-discipline", ""))
    for sk, st, vk, vs, fk, fs in combos:
        b = "%s = %s" % (NAME, vs)
        failing = st.format(B=b, F=fs)
        tail = []
        pk = []
        for i in range(posts_per_case):
            k, p = rng.choice(POSTS)
            pk.append(k)
            tail.append(p.format(i=i))
            tail.append(rng.choice(READS))
        out.append({"site": sk, "value": vk, "fail": fk, "posts": pk, "failing": failing,
                    "reference": _reference_for(sk, b), "tail": tail})
    return out


def session_of(case, which):
    return "\n".join([PRE, case[which]] + case["tail"])


def n_statements(text):
    return len([x for x in re.split(r"\n(?=[^\s}])", text) if x])


def split_quiet(out):
    """'r1|r2|...;ENV:env' -> ([r...], env) ; values never contain '|'"""
    body, _, env = out.partition(";ENV:")
    return (body.split("|") if body else []), env


def distribution(cs):
    d = {"site": {}, "value": {}, "fail": {}, "post": {}}
    for x in cs:
        d["site"][x["site"]] = d["site"].get(x["site"], 0) + 1
        d["value"][x["value"]] = d["value"].get(x["value"], 0) + 1
        d["fail"][x["fail"]] = d["fail"].get(x["fail"], 0) + 1
        for p in x["posts"]:
            d["post"][p] = d["post"].get(p, 0) + 1
    return d


# ------------------------------------------------------------------------------------------------------------------
def _is_failure(r):
    return r in ("ERR", "ERRDEPTH", "OUTERR")


def quiet_law(case, out_f, out_r, strip_names):
    """FAILURE-PREFIX EQUIVALENCE on one case.  -> (status, detail)
    status: 'ok' | 'not-failing' (the statement under test did not fail: law not applicable) | 'violation'."""
    src_f, src_r = session_of(case, "failing"), session_of(case, "reference")
    if out_f in ("REJECT", "BADUTF8", "BADINPUT") or out_r in ("REJECT", "BADUTF8", "BADINPUT"):
        return "rejected", None
    rf, envf = split_quiet(strip_names(out_f))
    rr, envr = split_quiet(strip_names(out_r))
    npre = n_statements(PRE)
    nref = n_statements(case["reference"])
    ntail = len(case["tail"])
    if len(rf) != npre + 1 + ntail or len(rr) != npre + nref + ntail:
        return "violation", {"what": "a quiet session did not yield one result per statement",
                             "observed": out_f, "reference_observed": out_r}
    if any(x.startswith("PANIC") for x in rf) or envf.startswith("PANIC"):
        return "violation", {"what": "the evaluator panicked in a session that continues after a failed statement",
                             "observed": out_f, "reference_observed": out_r}
    if not _is_failure(rf[npre]):
        return "not-failing", None
    tail_f, tail_r = rf[npre + 1:], rr[npre + nref:]
    for j, (a, b) in enumerate(zip(tail_f, tail_r)):
        if a != b:
            return "violation", {"what": "after a failed statement that had bound `%s`, a later statement gives a "
                                         "different result than after the plain binding of the same value" % NAME,
                                 "statement": case["tail"][j], "result": a, "result_after_plain_binding": b,
                                 "observed": out_f, "reference_observed": out_r}
    if envf != envr:
        return "violation", {"what": "the root bindings at the end of a session with a failed binding statement differ "
                                     "from those after the plain binding of the same value",
                             "final_bindings": envf, "final_bindings_after_plain_binding": envr,
                             "observed": out_f, "reference_observed": out_r}
    return "ok", None


def replay(c, es, h, rp, strip_names):
    case = rp["case"]
    outs = c.harness_lines_resilient(h, "c03-quiet", [c.hexs(session_of(case, w)) + "\t" + c.hexs(es.DEFAULT_INPUTS_JSON)
                                                      for w in ("failing", "reference")])
    print("session with the failing statement now returns :", outs[0])
    print("session with the plain binding now returns     :", outs[1])
    st, det = quiet_law(case, outs[0], outs[1], strip_names)
    print("failure-prefix equivalence:", st, det or "")
    return 1 if st == "violation" else 0


def run(c, es, h, res, rng, tier, check_session_invariant, strip_names):
    """the FAILBIND stream; returns (#sessions evaluated, #distinct non-trivial traces, #model agreements)"""
    import time
    t0 = time.time()
    cs = cases(rng, posts_per_case=2 if tier == "quick" else 4)
    if tier != "quick":
        for _ in range(4):
            cs += cases(rng, posts_per_case=1 + rng.below(5))
    inp = "\t" + c.hexs(es.DEFAULT_INPUTS_JSON)
    # ---- (1) quiet sessions + the law
    qf = [session_of(x, "failing") for x in cs]
    qr = [session_of(x, "reference") for x in cs]
    uniq = sorted(set(qf + qr))
    outs = dict(zip(uniq, c.harness_lines_resilient(h, "c03-quiet", [c.hexs(s) + inp for s in uniq])))
    stat = {"ok": 0, "not-failing": 0, "violation": 0, "rejected": 0}
    not_failing = {}
    by_heap = {"heap-value": 0, "immediate-value": 0}
    for x, sf, sr in zip(cs, qf, qr):
        st, det = quiet_law(x, outs[sf], outs[sr], strip_names)
        stat[st] += 1
        if st == "ok":
            by_heap["heap-value" if x["value"] in HEAP_KINDS else "immediate-value"] += 1
        if st in ("not-failing", "rejected"):
            key = "%s/%s/%s" % (st, x["site"], x["fail"])
            not_failing[key] = not_failing.get(key, 0) + 1
        if st == "violation" and len(res.violations) <= 10:
            what = det.pop("what")
            res.violation(what, dict({"kind": "impl-law-failbind", "program": sf, "reference_program": sr, "case": x,
                                      "law": "failure-prefix equivalence on quiet sessions (harness c03-quiet)",
                                      "rerun": "./check C03 --replay <this file>"}, **det))
    # ---- (2) the same sessions under the SESSION invariant (snapshots and probes after every statement)
    tail = "\n[#n, inputs.n]"
    ss = [s + tail for s in qf]
    souts = c.harness_lines_resilient(h, "session", [c.hexs(s) + inp for s in ss])
    checks = 0
    for s, o in zip(ss, souts):
        if len(res.violations) > 10:
            break
        checks += check_session_invariant(s, o, res, [])
    # ---- (3) model vs implementation on a sample of them (every site x fail kind at least once)
    n_model = 320 if tier == "quick" else 6000
    order = rng.shuffle(list(range(len(cs))))
    seen_sf, idx = set(), []
    for i in order:
        k = (cs[i]["site"], cs[i]["fail"])
        if k not in seen_sf:
            seen_sf.add(k)
            idx.append(i)
    for i in order:
        if len(idx) >= n_model:
            break
        if i not in set(idx[:len(seen_sf)]):
            idx.append(i)
    idx = sorted(set(idx))[:max(n_model, len(seen_sf))]
    agree, mism, unmodelled = 0, [], 0
    try:
        coq, _ = es.parse_to_coq(h, [ss[i] for i in idx])
        model = es.model_eval(coq, tag="c03f", fn="run_session_full false")
        for j, i in enumerate(idx):
            if model[j] is None or "UNMODELLED" in model[j]:
                unmodelled += 1
                continue
            impl = souts[i].partition(" ## ")[0]
            if impl == model[j]:
                agree += 1
            else:
                mism.append((ss[i], impl, model[j]))
    except c.BrokenTie as e:
        res.tie_broken(e.what, e.detail)
    if mism:
        res.tie_broken("correspondence C03/FAILBIND: model and implementation disagree on %d of %d sessions with a "
                       "failing statement that binds a name" % (len(mism), len(idx)),
                       "first: %r\nimpl : %s\nmodel: %s" % mism[0])
    res.streams["FAILBIND"] = {
        "cases": len(cs), "quiet_sessions_evaluated": len(uniq), "law_outcomes": stat,
        "law_ok_by_bound_value": by_heap, "law_not_applicable_by_site_fail": not_failing,
        "snapshot_sessions": len(ss), "snapshot_invariant_checks": checks,
        "model_compared": len(idx), "model_agree": agree, "model_unmodelled": unmodelled, "mismatches": len(mism),
        "distribution": distribution(cs), "wall_s": round(time.time() - t0, 1),
        "sample": {"failing": qf[len(qf) // 3], "reference": qr[len(qr) // 3], "trace": outs[qf[len(qf) // 3]]},
    }
    nontrivial = len({o for o in list(outs.values()) + souts if "OK:" in o})
    return len(uniq) + len(ss), nontrivial, agree


# ------------------------------------------------------------------------------------------------------------------
# The same family through the REAL interactive REPL (the `blots` binary on a pseudo-terminal): the only shipped entry
# point where a session continues after a failing statement.  Law (implementation alone): a name bound inside a
# statement that failed prints, after later statements, exactly what a name bound to the same value by a plain
# statement prints — both are read by ONE later statement `["@@i", failing-bound, "@@", plainly-bound]`.
_ANSI = re.compile(r"\x1b\[[0-9;?]*[A-Za-z]")


class Repl:
    def __init__(self, cli):
        import os
        import pty
        self.os = os
        self.pid, self.fd = pty.fork()
        if self.pid == 0:
            os.environ["TERM"] = "dumb"
            os.execv(cli, [cli])
        self.alive = True
        self.status = None
        self._until_prompt(first=True)

    def _until_prompt(self, first=False, timeout=20.0):
        import select
        import time
        got = bytearray()
        end = time.time() + timeout
        while self.alive and time.time() < end:
            r_, _, _ = select.select([self.fd], [], [], 0.5)
            if r_:
                try:
                    ch = self.os.read(self.fd, 65536)
                except OSError:
                    ch = b""
                if not ch:
                    self.alive = False
                    break
                got.extend(ch)
            txt = _ANSI.sub("", got.decode("utf-8", "replace"))
            if txt.endswith("\n> ") or (first and txt.endswith("> ")):
                break
        return _ANSI.sub("", got.decode("utf-8", "replace")).replace("\r", "")

    def type_line(self, line):
        if not self.alive:
            return None
        try:
            self.os.write(self.fd, line.encode() + b"\r")
        except OSError:
            self.alive = False
            return None
        return self._until_prompt()

    def close(self):
        os = self.os
        if self.alive:
            try:
                os.write(self.fd, b"\x04")
                self._until_prompt(timeout=2.0)
            except OSError:
                pass
        try:
            p_, status = os.waitpid(self.pid, os.WNOHANG)
            if p_ == 0:
                os.kill(self.pid, 9)
                p_, status = os.waitpid(self.pid, 0)
        except OSError:
            status = 0
        try:
            os.close(self.fd)
        except OSError:
            pass
        self.status = 128 + os.WTERMSIG(status) if os.WIFSIGNALED(status) else os.WEXITSTATUS(status)
        return self.status


def repl_cases(rng):
    out = []
    heap_posts = POSTS[:10]
    n = 0
    for sk, st in SITES + SELF_SITES:
        if "\n" in st:
            continue                       # one typed line per statement
        for vk, vs in VALUES:
            n += 1
            tag = "c%d" % n
            fk, fs = rng.choice(FAILS) if (sk, st) in SITES else ("binding-discipline", "")
            pk, p = rng.choice(heap_posts)
            ren = lambda s: re.sub(r"\b(fb1|fb2|fbo)\b", lambda m: m.group(1) + tag, s)
            failing = ren(st.format(B="%s = %s" % (NAME, vs), F=fs))
            lines = ["rb%s = %s" % (tag, vs), failing, p.format(i=tag),
                     '["@@%s", %s%s, "@@", rb%s]' % (tag, NAME, tag, tag)]
            out.append({"site": sk, "value": vk, "fail": fk, "posts": [pk], "tag": tag, "lines": lines})
    return out


def repl_judge(case, printed):
    """printed: what the REPL printed for the 4 lines (None = the process was gone). -> (status, detail)"""
    if printed[-1] is None or any(x is None for x in printed):
        return "died", None
    m = re.search(r'^= \["@@%s", (.*)\]\s*$' % case["tag"], printed[3], re.M)
    if not m:
        return "unreadable", None
    parts = m.group(1).split(', "@@", ')
    if len(parts) != 2:
        return "unreadable", None
    if parts[0] != parts[1]:
        return "differs", {"printed_through_name_bound_in_failed_statement": parts[0],
                           "printed_through_name_bound_plainly": parts[1]}
    return "ok", None


def repl_alone(cli, case):
    r = Repl(cli)
    printed = [r.type_line(x) for x in PRE.split("\n")]
    printed = [r.type_line(x) for x in case["lines"]]
    code = r.close()
    st, det = repl_judge(case, printed)
    return st, det, printed, code


def repl_replay(c, rp):
    cli = c.build_cli("release")
    st, det, printed, code = repl_alone(cli, rp["case"])
    print("typed into a fresh `blots` REPL on a pseudo-terminal:", PRE.split("\n") + rp["case"]["lines"])
    print("printed:", printed, "exit", code)
    print("verdict:", st, det or "")
    return 0 if st == "ok" else 1


def repl_stream(c, res, rng, tier):
    import time
    t0 = time.time()
    try:
        cli = c.build_cli("release")
    except c.BrokenTie as e:
        res.tie_broken(e.what, e.detail)
        return 0
    cs = repl_cases(rng)
    batch = 48
    stat = {"ok": 0, "differs": 0, "died": 0, "unreadable": 0}
    suspects = []
    for b0 in range(0, len(cs), batch):
        r = Repl(cli)
        for x in PRE.split("\n"):
            r.type_line(x)
        for x in cs[b0:b0 + batch]:
            printed = [r.type_line(l) for l in x["lines"]]
            st, det = repl_judge(x, printed)
            stat[st] += 1
            if st != "ok":
                suspects.append((("differs", "died", "unreadable").index(st), len(suspects), x))
            if not r.alive:
                r.close()
                r = Repl(cli)
                for y in PRE.split("\n"):
                    r.type_line(y)
        r.close()
    suspects = [x for _, _, x in sorted(suspects, key=lambda t: t[:2])]
    confirmed = 0
    for x in suspects[:4]:
        st, det, printed, code = repl_alone(cli, x)
        if st == "ok":
            continue
        confirmed += 1
        res.violation({"differs": "in the interactive REPL a name bound inside a statement that failed prints a different "
                                  "value than a name bound plainly to the same value",
                       "died": "the interactive REPL ended in a session that continued after a failed statement",
                       "unreadable": "in the interactive REPL a name bound inside a statement that failed could not be "
                                     "read back later"}[st],
                      dict({"kind": "repl-failbind", "case": x, "typed": PRE.split("\n") + x["lines"], "printed": printed,
                            "exit_status": code, "rerun": "./check C03 --replay <this file>"}, **(det or {})))
    if suspects and not confirmed:
        res.violation("the interactive REPL misbehaved in a long session with failed binding statements (not reproduced "
                      "by the case alone)", {"kind": "repl-failbind", "case": suspects[0],
                                             "typed": PRE.split("\n") + suspects[0]["lines"], "batch_outcomes": stat})
    res.streams["FAILBIND-REPL"] = {"cases": len(cs), "typed_lines": 4 * len(cs), "processes": (len(cs) + batch - 1) // batch,
                                    "outcomes": stat, "distribution": distribution(cs),
                                    "wall_s": round(time.time() - t0, 1)}
    return len(cs)
