"""C18 — runaway recursion ends in a call-depth error, never in a crash.  DESIGN.md section 6 (C18).

Proof part: totality of the evaluator model (guard checker), the depth theorems
(Properties/C18.v).  Tie: the DEPTH stream runs recursion shapes at depths around every
boundary of the guard on the real evaluator and on the model (exact agreement on where OK
flips to the depth error).  Runtime part (what no model can exhibit): the release CLI, default
main-thread stack, on the recursion grammar with per-call expression nesting 1..32."""
import os
import subprocess
import sys

import common as c
import evalstream as es

PID = "C18"
MANIFEST = {
    "text": "4 Coq theorems + evaluated examples over the evaluator model: evaluation is total (structural recursion "
            "on the remaining call-depth budget, no fuel); any outcome other than the depth error is independent of the "
            "budget (so the depth error is genuine and recursion that fits completes with its true result); the guard "
            "fires with no budget left; the six runaway shapes of the property end in the depth error and the guard "
            "boundary is 1001 nested calls.  Tied to the code by the DEPTH stream (model vs real evaluator at every "
            "boundary).  PARTIAL: native stack consumption is not expressible in the model; it is measured by running "
            "the release CLI on the recursion grammar (nesting 1..32) and checking exit status and message",
    "note": "trusted: Coq kernel + vm_compute; transcription of FunctionDef::call depth accounting (validated at the "
            "exact boundaries by correspondence); the runtime half is an exploration of the release binary, not a proof",
    "design_ref": "DESIGN.md section 6 C18",
}

WRAPS = ["(1 + %s)", "(2 * %s)", "(if true then %s else 0)", "(-(%s))", "[%s][0]", "(%s ?? 0)", "{k: %s}.k"]


def nest(k, inner):
    e = inner
    for i in range(k):
        e = WRAPS[i % len(WRAPS)] % e
    return e


def shapes(k):
    """(name, definitions, call) : runaway recursion shapes with per-call expression nesting k"""
    return [
        ("self", "f = n => %s" % nest(k, "f(n + 1)"), "f(0)"),
        ("mutual", "p = n => %s\nq = n => %s" % (nest(k, "q(n + 1)"), nest(k, "p(n + 1)")), "p(0)"),
        ("via-callback", "f = n => %s" % nest(k, "([n + 1] via f)[0]"), "f(0)"),
        ("where-callback", "f = n => %s" % nest(k, "([n + 1] where f)"), "f(0)"),
        ("map-callback", "f = n => %s" % nest(k, "map([n + 1], f)[0]"), "f(0)"),
        ("reduce-callback", "f = (a, n) => %s" % nest(k, "reduce([n + 1], f, a)"), "f(0, 0)"),
        ("do-block", "f = n => do {\n  m = n + 1\n  return %s\n}" % nest(k, "f(m)"), "f(0)"),
        ("into", "f = n => %s" % nest(k, "((n + 1) into f)"), "f(0)"),
        # fan-out: every level makes two callback calls; unless the first depth error ends the whole
        # evaluation the call tree is exponential (sort_by used to read the error as "equal keys")
        ("map-fanout", "f = n => %s" % nest(k, "map([n + 1, n + 2], f)[0]"), "f(0)"),
        ("filter-fanout", "f = n => %s" % nest(k, "filter([n + 1, n + 2], f)"), "f(0)"),
        ("every-fanout", "f = n => %s" % nest(k, "every([n + 1, n + 2], f)"), "f(0)"),
        ("some-fanout", "f = n => %s" % nest(k, "some([n + 1, n + 2], f)"), "f(0)"),
        ("reduce-fanout", "f = (a, n) => %s" % nest(k, "reduce([n + 1, n + 2], f, a)"), "f(0, 0)"),
        ("sort_by-fanout", "f = n => %s" % nest(k, "sort_by([n + 1, n + 2], f)[0]"), "f(0)"),
        ("sort_by-lambda", "f = n => %s" % nest(k, "sort_by([1, 2], x => f(n + 1))"), "f(0)"),
        ("group_by-fanout", "f = n => %s" % nest(k, "group_by([n + 1, n + 2], f)"), "f(0)"),
        ("count_by-fanout", "f = n => %s" % nest(k, "count_by([n + 1, n + 2], f)"), "f(0)"),
        # cycles made only of ANONYMOUS functions (a function gets a name only as the direct right-hand
        # side of an assignment): record fields, list elements, self-application
        ("anon-record", "m = {f: n => %s}" % nest(k, "m.f(n + 1)"), "m.f(0)"),
        ("anon-list", "fs = [n => %s, n => %s]" % (nest(k, "fs[1](n + 1)"), nest(k, "fs[0](n * 2)")), "fs[0](0)"),
        ("anon-self-passing", "m = {f: (self, n) => %s}" % nest(k, "self(self, n + 1)"), "m.f(m.f, 0)"),
        ("anon-omega", "w = 0", "(g => %s)(g => %s)" % (nest(k, "g(g)"), nest(k, "g(g)"))),
        ("via-fanout", "f = n => %s" % nest(k, "([n + 1, n + 2] via f)[0]"), "f(0)"),
        # two recursive calls side by side in one expression: the first depth error must end the evaluation
        # (an evaluator that goes on to the next argument / element walks an exponential tree)
        ("args-builtin", "f = n => %s" % nest(k, "max(f(n + 1), f(n + 2))"), "f(0)"),
        ("args-user", "g = (a, b) => a\nf = n => %s" % nest(k, "g(f(n + 1), f(n + 2))"), "f(0)"),
        ("list-pair", "f = n => %s" % nest(k, "[f(n + 1), f(n + 2)]"), "f(0)"),
        ("record-pair", "f = n => %s" % nest(k, "{a: f(n + 1), b: f(n + 2)}"), "f(0)"),
        ("sum-pair", "f = n => %s" % nest(k, "f(n + 1) + f(n + 2)"), "f(0)"),
        ("cond-pair", "f = n => %s" % nest(k, "(if f(n + 1) then f(n + 2) else f(n + 3))"), "f(0)"),
        ("spread-pair", "f = n => %s" % nest(k, "[...f(n + 1), ...f(n + 2)]"), "f(0)"),
        ("do-pair", "f = n => do {\n  a = f(n + 1)\n  b = f(n + 2)\n  return %s\n}" % nest(k, "a + b"), "f(0)"),
        ("where-fanout", "f = n => %s" % nest(k, "([n + 1, n + 2] where f)"), "f(0)"),
    ]


def bounded(k, depth):
    return ("c = n => if n <= 0 then 0 else %s" % nest(k, "c(n - 1)"), "c(%d)" % depth)


def run_cli(cli, src, timeout=60):
    try:
        p = subprocess.run([cli, src], stdin=subprocess.DEVNULL, capture_output=True, text=True, timeout=timeout)
        return p.returncode, p.stdout, p.stderr
    except subprocess.TimeoutExpired:
        return "timeout", "", ""


def repl_session(cli, lines, per_line_timeout=60):
    """Drive an interactive session of the real binary on a pseudo-terminal (stdin is a terminal, unlike every
    other run): type the lines, then Ctrl-D.  -> (exit status or 128+signal, everything printed)."""
    import pty
    import select
    import time
    pid, fd = pty.fork()
    if pid == 0:
        os.environ["TERM"] = "dumb"
        os.execv(cli, [cli])
    out = bytearray()

    def pump(seconds):
        end = time.time() + seconds
        while True:
            left = end - time.time()
            if left <= 0:
                return True
            r_, _, _ = select.select([fd], [], [], left)
            if not r_:
                return True
            try:
                chunk = os.read(fd, 65536)
            except OSError:
                return False
            if not chunk:
                return False
            out.extend(chunk)

    alive = pump(1.0)
    for line in lines:
        if not alive:
            break
        os.write(fd, line.encode() + b"\r")
        quiet_since, size, deadline = time.time(), len(out), time.time() + per_line_timeout
        while alive and time.time() < deadline:
            alive = pump(0.3)
            if len(out) != size:
                size, quiet_since = len(out), time.time()
            elif time.time() - quiet_since > 1.0:
                break
    if alive:
        try:
            os.write(fd, b"\x04")
        except OSError:
            pass
        end = time.time() + 5
        while pump(0.3) and time.time() < end:
            pass
    try:
        os.kill(pid, 0)
        _, status = os.waitpid(pid, os.WNOHANG)
        if _ == 0:
            os.kill(pid, 9)
            _, status = os.waitpid(pid, 0)
    except OSError:
        _, status = os.waitpid(pid, 0)
    try:
        os.close(fd)
    except OSError:
        pass
    code = 128 + os.WTERMSIG(status) if os.WIFSIGNALED(status) else os.WEXITSTATUS(status)
    return code, out.decode("utf-8", "replace")


def main(argv):
    tier, seed, replay = c.tier_and_seed(argv)
    res = c.Result(PID, tier, seed)
    try:
        h = c.build_harness()
        c.regen_all(h)
        cli = c.build_cli("release")
    except c.BrokenTie as e:
        res.tie_broken(e.what, e.detail)
        return res.finish()
    if replay:
        import json
        rp = json.load(open(replay))
        print(json.dumps(rp, indent=1))
        if rp.get("cli_program"):
            rc, out, err = run_cli(cli, rp["cli_program"])
            print("release CLI now: exit", rc, (out + err)[-200:])
            return 0 if rc == rp.get("expected_exit") else 1
        return 0

    c.proof_step(res, PID, extra_targets=["EvalInst.vo"])

    # ---------------- DEPTH stream: exact boundaries, model vs real evaluator
    progs = []
    grid = [1, 2, 100, 300, 331, 332, 333, 334, 335, 498, 499, 500, 501, 502, 997, 998, 999, 1000, 1001, 1002, 1500]
    bshapes = [
        ("self", "c = n => if n <= 0 then 0 else 1 + c(n - 1)", "c(%d)"),
        ("mutual", "p = n => if n <= 0 then 0 else q(n - 1)\nq = n => if n <= 0 then 1 else p(n - 1)", "p(%d)"),
        ("via", "c = n => if n <= 0 then 0 else ([n - 1] via c)[0]", "c(%d)"),
        ("map", "c = n => if n <= 0 then 0 else map([n - 1], c)[0]", "c(%d)"),
        ("filter", "c = n => if n <= 0 then true else filter([n - 1], c) .== [n - 1]", "c(%d)"),
        ("reduce", "c = (a, n) => if n <= 0 then a else reduce([n - 1], c, a + 1)", "c(0, %d)"),
        ("every", "c = n => if n <= 0 then true else every([n - 1], c)", "c(%d)"),
        ("do", "c = n => do {\n  m = n - 1\n  return if n <= 0 then 0 else c(m)\n}", "c(%d)"),
        ("into", "c = n => if n <= 0 then 0 else ((n - 1) into c)", "c(%d)"),
        ("map-of-map", "c = n => if n <= 0 then [0] else map([n - 1], x => map([x], c)[0])[0]", "c(%d)"),
        ("anon-record", "m = {c: n => if n <= 0 then 0 else 1 + m.c(n - 1)}", "m.c(%d)"),
        ("anon-self-passing", "m = {c: (self, n) => if n <= 0 then 0 else 1 + self(self, n - 1)}", "m.c(m.c, %d)"),
        ("some", "c = n => if n <= 0 then false else some([n - 1], c)", "c(%d)"),
        ("sort_by", "c = n => if n <= 0 then 0 else sort_by([0, n - 1], c)[1]", "c(%d)"),
        ("group_by", "c = n => if n <= 0 then \"z\" else keys(group_by([n - 1], c))[0]", "c(%d)"),
        ("count_by", "c = n => if n <= 0 then \"z\" else keys(count_by([n - 1], c))[0]", "c(%d)"),
    ]
    for name, defs, call in bshapes:
        for n in grid:
            progs.append((name, n, defs + "\n" + call % n))
    srcs = [p[2] for p in progs]
    rust = es.rust_eval(h, srcs)
    flips = {}
    for (name, n, _), r in zip(progs, rust):
        lastr = r.split(";ENV:")[0].split("|")[-1]
        if "PANIC" in r or r.startswith("ABORT"):
            res.violation("the evaluator crashed instead of reporting the depth error",
                          {"kind": "impl", "program": progs[0][2], "observed": r})
        flips.setdefault(name, []).append((n, lastr.split(":")[0]))
    agree, mism = 0, []
    try:
        coq, _ = es.parse_to_coq(h, srcs)
        model = es.model_eval(coq, tag="c18")
        for s_, r_, m_ in zip(srcs, rust, model):
            if m_ is None or "UNMODELLED" in m_:
                continue
            if r_ == m_:
                agree += 1
            else:
                mism.append((s_, r_, m_))
    except c.BrokenTie as e:
        res.tie_broken(e.what, e.detail)
    if mism:
        res.tie_broken("correspondence C18/DEPTH: model and implementation disagree on %d of %d boundary programs"
                       % (len(mism), len(srcs)), "first: %r\nimpl : %s\nmodel: %s" % mism[0])
    # the law on the implementation alone: OK below some threshold, depth error from it on, nothing else
    boundaries = {}
    for name, seq in flips.items():
        kinds = [k for _, k in seq]
        if any(k not in ("OK", "ERRDEPTH") for k in kinds):
            res.violation("a recursion ended in something other than a result or the depth error",
                          {"kind": "impl-law", "shape": name, "observed": seq})
        first_err = next((n for n, k in seq if k == "ERRDEPTH"), None)
        if first_err is not None and any(k == "OK" for n, k in seq if n > first_err):
            res.violation("the depth error is not monotone in the recursion depth",
                          {"kind": "impl-law", "shape": name, "observed": seq})
        boundaries[name] = first_err
        if dict(seq).get(300) != "OK" and name not in ("map", "filter", "reduce", "every", "map-of-map", "some", "sort_by", "group_by", "count_by"):
            res.violation("recursion 300 calls deep did not complete normally",
                          {"kind": "impl-law", "shape": name, "observed": seq})
    res.streams["DEPTH"] = {"programs": len(srcs), "shapes": [b[0] for b in bshapes], "grid": grid,
                            "first_depth_error_at": boundaries, "model_agree": agree, "mismatches": len(mism)}

    # ---------------- runtime: the release CLI on the recursion grammar
    nestings = [1, 4, 8, 16, 32] if tier == "quick" else list(range(1, 33))
    runs = 0
    bad = []
    dist = {}
    samples = []
    for k in nestings:
        for name, defs, call in shapes(k):
            src = defs + "\noutput r = " + call
            rc, out, err = run_cli(cli, src)
            runs += 1
            okmsg = "maximum call depth" in (out + err)
            dist[(rc, okmsg)] = dist.get((rc, okmsg), 0) + 1
            if len(samples) < 3:
                samples.append({"program": src, "exit": rc, "depth_message": okmsg})
            if rc != 1 or not okmsg:
                bad.append((name, k, src, rc, (out + err)[-300:]))
        for depth in (100, 300, 500):
            defs, call = bounded(k, depth)
            src = defs + "\noutput r = " + call
            rc, out, err = run_cli(cli, src)
            runs += 1
            dist[("bounded", rc)] = dist.get(("bounded", rc), 0) + 1
            if rc != 0 or '"r"' not in out:
                bad.append(("bounded-%d" % depth, k, src, rc, (out + err)[-300:]))
    for name, k, src, rc, tailtxt in bad[:5]:
        what = ("the release CLI crashed or misreported a runaway recursion (shape %s, nesting %d): exit %s"
                % (name, k, rc)) if not name.startswith("bounded") else \
               ("recursion %s with body nesting %d did not complete normally in the release CLI: exit %s"
                % (name, k, rc))
        res.violation(what, {"kind": "impl-cli", "cli_program": src, "observed_exit": rc, "observed_tail": tailtxt,
                             "expected_exit": 0 if name.startswith("bounded") else 1,
                             "rerun": "./check C18 --replay <this file>"})
    # ---------------- the interactive session (stdin is a terminal): the same recursion typed into the REPL
    repl_runs = 0
    repl_bad = []
    for k in ([4, 16] if tier == "quick" else [1, 4, 8, 16, 32]):
        for name, defs, call in shapes(k)[:3]:
            if "\n" in defs:
                lines_ = defs.split("\n") + [call]
            else:
                lines_ = [defs, call]
            code, txt = repl_session(cli, lines_ + ["1 + 1"])
            repl_runs += 1
            # the session reports the depth error, survives it (answers the next line) and ends normally on Ctrl-D
            if "maximum call depth" not in txt or code >= 128 or "2" not in txt.split("maximum call depth")[-1]:
                repl_bad.append((name, k, lines_, code, txt[-400:]))
    for name, k, lines_, code, tailtxt in repl_bad[:3]:
        res.violation("an interactive session crashed or misreported a runaway recursion (shape %s, nesting %d): status %s"
                      % (name, k, code), {"kind": "impl-repl", "typed_lines": lines_, "observed_status": code,
                                          "observed_tail": tailtxt})
    res.streams["REPL-recursion"] = {"sessions": repl_runs, "failures": len(repl_bad)}
    res.streams["CLI-recursion"] = {"runs": runs, "nestings": nestings, "shapes": [s[0] for s in shapes(1)],
                                    "outcomes": {str(k): v for k, v in dist.items()}, "failures": len(bad)}
    res.coverage["evaluations"] = len(srcs) + runs
    res.coverage["distinct_nontrivial"] = len({r for r in rust}) + runs
    res.coverage["rule"] = ("DEPTH: %d recursion shapes x %d depths around every guard boundary (333/500/1000), model vs "
                            "evaluator; CLI: %d runaway shapes x nestings %s + bounded recursion 100/300/500 deep, release "
                            "binary, default stack; non-trivial = distinct evaluator traces + CLI runs (each CLI run "
                            "recurses to the limit)" % (len(bshapes), len(grid), len(shapes(1)), nestings))
    res.coverage["samples"] = samples + [{"program": srcs[17], "impl": rust[17]}]
    res.coverage["traces_validated_against_impl"] = agree
    res.assumptions = ["native stack size per interpreter frame is a property of the compiled binary: measured, not proved",
                       "the CLI is run with stdin closed and the default RLIMIT_STACK of the test environment (8 MiB)"]
    for e in c.open_known(PID):
        res.known("%s %s" % (e["id"], e["what"]))
    return res.finish()


if __name__ == "__main__":
    sys.exit(main(sys.argv[1:]))
