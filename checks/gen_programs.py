"""Structured generator of well-scoped Blots programs for the EVAL stream (C02 C03 C04 C13
C18 C19).  Everything derives from one c.Rng.  A generated program is a list of statement
source strings; most statements evaluate successfully (scope and rough types are tracked),
a minority fail on purpose (type error, unbound name, rebinding, keyword/built-in binding)."""

NUMS = ["0", "1", "2", "3", "5", "10", "0.5", "2.5", "100", "7"]
STRS = ['"a"', '"b"', '"hello"', '""', '"héllo"', '"x y"']
NAMES = ["a", "b", "c", "d", "x", "y", "z", "n", "m", "k", "p", "q", "acc", "item", "f", "g", "h", "fact",
         "total", "r1", "r2", "via_x", "android", "iffy", "t1", "truthy", "dofus", "output_x", "returned"]
MODELLED_NUM1 = ["abs", "floor", "ceil", "trunc", "sqrt"]
ARITH = ["+", "-", "*", "/", "%"]
CMP = ["<", "<=", ">", ">=", "==", "!="]
DOTCMP = [".<", ".<=", ".>", ".>=", ".==", ".!="]


class Scope:
    def __init__(self, parent=None):
        self.vars = {}            # name -> type tag
        self.parent = parent

    def all(self):
        d = dict(self.parent.all()) if self.parent else {}
        d.update(self.vars)
        return d

    def of_type(self, t):
        return [k for k, v in self.all().items() if v == t]


class Gen:
    def __init__(self, rng, allow_fail=True, max_depth=3):
        self.r = rng
        self.allow_fail = allow_fail
        self.max_depth = max_depth
        self.counter = 0
        self.stats = {}

    def note(self, k):
        self.stats[k] = self.stats.get(k, 0) + 1

    def fresh(self, scope):
        used = scope.all()
        cands = [n for n in NAMES if n not in used]
        if cands and self.r.chance(3, 4):
            return self.r.choice(cands)
        self.counter += 1
        return "v%d" % self.counter

    # ---- expressions by type
    def num(self, sc, d):
        r = self.r
        vs = sc.of_type("num")
        k = r.below(14 if d > 0 else 3)
        if k == 0 or (k == 1 and not vs):
            return r.choice(NUMS)
        if k == 1 or k == 2:
            return r.choice(vs) if vs else r.choice(NUMS)
        if k <= 5:
            self.note("arith")
            return "(%s %s %s)" % (self.num(sc, d - 1), r.choice(ARITH), self.num(sc, d - 1))
        if k == 6:
            self.note("neg")
            return "(-%s)" % self.num(sc, d - 1)
        if k == 7:
            self.note("cond")
            return "(if %s then %s else %s)" % (self.boolean(sc, d - 1), self.num(sc, d - 1), self.num(sc, d - 1))
        if k == 8:
            fs = sc.of_type("fn1")
            if fs:
                self.note("call")
                return "%s(%s)" % (r.choice(fs), self.num(sc, d - 1))
            return "%s(%s)" % (r.choice(MODELLED_NUM1), self.num(sc, d - 1))
        if k == 9:
            self.note("index")
            return "%s[%s]" % (self.numlist(sc, d - 1), r.choice(["0", "1", "-1", "2", "0.5"]))
        if k == 10:
            self.note("do")
            return self.do_block(sc, d - 1, "num")
        if k == 11:
            self.note("reduce")
            return "reduce(%s, (acc, item) => acc + item, %s)" % (self.numlist(sc, d - 1), self.num(sc, d - 1))
        if k == 12:
            self.note("into")
            fs = sc.of_type("fn1")
            f = r.choice(fs) if fs else "(q => q * 2)"
            return "(%s into %s)" % (self.num(sc, d - 1), f)
        if r.chance(1, 3):
            self.note("textfn")
            k2 = r.below(6)
            if k2 == 5:
                return "random(%s)" % self.num(sc, d - 1)
            if k2 == 0:
                return "round(%s)" % self.num(sc, d - 1)
            if k2 == 1:
                return "round(%s, %s)" % (self.num(sc, d - 1), r.choice(["0", "1", "2", "-1", "3", "15", "400"]))
            if k2 == 2:
                return "to_number(%s)" % r.choice(['"12"', '"1e3"', '"-0.5"', '"abc"', "true", '"inf"', '" 1"', '".5"',
                                                     "to_string(%s)" % self.num(sc, d - 1)])
            if k2 == 3:
                u = r.choice([("km", "m"), ("m", "km"), ("celsius", "fahrenheit"), ("hours", "minutes"), ("kg", "lb"),
                              ("km", "kg"), ("MB", "kB"), ("nosuch", "m"), ("mi", "ft"), ("K", "C")])
                return 'convert(%s, "%s", "%s")' % (self.num(sc, d - 1), u[0], u[1])
            return "len(join(%s, %s))" % (self.numlist(sc, d - 1), r.choice(['", "', '""', '"-"']))
        if r.chance(1, 2):
            self.note("aggregate")
            return "%s(%s)" % (r.choice(["len", "sum", "min", "max", "avg", "median", "prod"]), self.numlist(sc, d - 1))
        self.note("coalesce")
        return "(%s ?? %s)" % (r.choice(["null", self.num(sc, d - 1)]), self.num(sc, d - 1))

    def boolean(self, sc, d):
        r = self.r
        vs = sc.of_type("bool")
        k = r.below(8 if d > 0 else 2)
        if k == 0:
            return r.choice(["true", "false"])
        if k == 1:
            return r.choice(vs) if vs else r.choice(["true", "false"])
        if k <= 3:
            self.note("cmp")
            return "(%s %s %s)" % (self.num(sc, d - 1), r.choice(CMP + DOTCMP), self.num(sc, d - 1))
        if k == 4:
            self.note("logic")
            return "(%s %s %s)" % (self.boolean(sc, d - 1), r.choice(["and", "or", "&&", "||"]), self.boolean(sc, d - 1))
        if k == 5:
            self.note("not")
            return "(%s%s)" % (r.choice(["not ", "!"]), self.boolean(sc, d - 1))
        if k == 6:
            self.note("every/some")
            return "%s(%s, e => e > %s)" % (r.choice(["every", "some"]), self.numlist(sc, d - 1), self.num(sc, 0))
        return "(%s .== %s)" % (self.string(sc, 0), self.string(sc, 0))

    def string(self, sc, d):
        r = self.r
        vs = sc.of_type("str")
        k = r.below(7 if d > 0 else 2)
        if k == 5:
            self.note("to_string")
            return "to_string(%s)" % self.anyexpr(sc, d - 1)
        if k == 6:
            self.note("join")
            return "join(%s, %s)" % (self.numlist(sc, d - 1), r.choice(['", "', '""', '" | "']))
        if k == 0:
            return r.choice(STRS)
        if k == 1:
            return r.choice(vs) if vs else r.choice(STRS)
        if k == 2:
            self.note("concat")
            return "(%s + %s)" % (self.string(sc, d - 1), self.string(sc, d - 1))
        if k == 3:
            return "typeof(%s)" % self.anyexpr(sc, d - 1)
        return "(%s)[%s]" % (self.string(sc, d - 1), r.choice(["0", "-1", "1"]))

    def numlist(self, sc, d):
        r = self.r
        vs = sc.of_type("numlist")
        k = r.below(9 if d > 0 else 2)
        if k == 0 or d <= 0:
            n = r.below(4)
            return "[" + ", ".join(self.num(sc, 0) for _ in range(n)) + "]"
        if k == 1:
            return r.choice(vs) if vs else "[1, 2, 3]"
        if k == 2:
            self.note("broadcast")
            return "(%s %s %s)" % (self.numlist(sc, d - 1), r.choice(ARITH), self.num(sc, d - 1))
        if k == 3:
            self.note("via")
            return "(%s via %s)" % (self.numlist(sc, d - 1), self.fn1(sc, d - 1))
        if k == 4:
            self.note("where")
            return "(%s where %s)" % (self.numlist(sc, d - 1), self.pred(sc, d - 1))
        if k == 5:
            self.note("map")
            return "map(%s, %s)" % (self.numlist(sc, d - 1), self.fn1(sc, d - 1))
        if k == 6:
            self.note("filter")
            return "filter(%s, %s)" % (self.numlist(sc, d - 1), self.pred(sc, d - 1))
        if k == 7:
            self.note("spread")
            return "[...%s, %s]" % (self.numlist(sc, d - 1), self.num(sc, d - 1))
        if r.chance(1, 2):
            self.note("listfn")
            k2 = r.below(8)
            l1 = self.numlist(sc, d - 1)
            return ["sort(%s)" % l1, "reverse(%s)" % l1, "unique(%s)" % l1, "concat(%s, %s)" % (l1, self.numlist(sc, 0)),
                    "range(%s)" % r.choice(["3", "1, 4", "0"]), "flatten([%s, [7]])" % l1,
                    "sort_by(%s, %s)" % (l1, self.fn1(sc, 0)), "slice(%s, 0, 1)" % l1][k2]
        return "[%s, %s]" % (self.num(sc, d - 1), self.num(sc, d - 1))

    def record(self, sc, d):
        r = self.r
        n = r.below(3)
        parts = []
        for i in range(n):
            k = r.choice(["k", "j", "x", "name"])
            parts.append("%s: %s" % (k, self.anyexpr(sc, d - 1)))
        vs = [v for v in sc.all() if v not in ("inputs",)]
        if vs and r.chance(1, 4):
            self.note("shorthand")
            parts.append(r.choice(vs))
        rs = sc.of_type("rec")
        if rs and r.chance(1, 4):
            self.note("recspread")
            parts.append("...%s" % r.choice(rs))
        return "{" + ", ".join(parts) + "}"

    def fn1(self, sc, d):
        """an expression denoting a num -> num function"""
        r = self.r
        fs = sc.of_type("fn1")
        k = r.below(5)
        if k == 0 and fs:
            return r.choice(fs)
        if k == 1:
            return r.choice(MODELLED_NUM1)
        p = r.choice(["x", "e", "item", "n"])
        inner = Scope(sc)
        inner.vars[p] = "num"
        if k == 2:
            self.note("lambda2")
            inner.vars["i"] = "num"
            return "((%s, i) => %s)" % (p, self.num(inner, d))
        self.note("lambda")
        return "(%s => %s)" % (p, self.num(inner, d))

    def pred(self, sc, d):
        p = self.r.choice(["x", "e", "item"])
        inner = Scope(sc)
        inner.vars[p] = "num"
        return "(%s => %s)" % (p, self.boolean(inner, max(d, 1)))

    def anyexpr(self, sc, d):
        k = self.r.below(6)
        if k == 0:
            return self.num(sc, d)
        if k == 1:
            return self.boolean(sc, d)
        if k == 2:
            return self.string(sc, d)
        if k == 3:
            return self.numlist(sc, d)
        if k == 4:
            return "null"
        return self.num(sc, d)

    def do_block(self, sc, d, t):
        r = self.r
        inner = Scope(sc)
        lines = []
        for _ in range(1 + r.below(3)):
            # may shadow an outer name on purpose
            outer = list(sc.all().keys())
            if outer and r.chance(1, 3):
                nm = r.choice([o for o in outer if o != "inputs"] or ["tmp"])
                self.note("shadow")
            else:
                nm = self.fresh(inner)
            lines.append("%s = %s" % (nm, self.num(inner, d)))
            inner.vars[nm] = "num"
        ret = self.num(inner, d) if t == "num" else self.anyexpr(inner, d)
        return "do {\n  " + "\n  ".join(lines) + "\n  return " + ret + "\n}"

    # ---- statements
    def statement(self, sc):
        r = self.r
        d = self.max_depth
        k = r.below(28)
        if k < 5:
            nm = self.fresh(sc)
            sc.vars[nm] = "num"
            return "%s = %s" % (nm, self.num(sc2(sc, nm), d))
        if k == 5:
            nm = self.fresh(sc)
            sc.vars[nm] = "bool"
            return "%s = %s" % (nm, self.boolean(sc2(sc, nm), d))
        if k == 6:
            nm = self.fresh(sc)
            sc.vars[nm] = "str"
            return "%s = %s" % (nm, self.string(sc2(sc, nm), d))
        if k in (7, 8):
            nm = self.fresh(sc)
            sc.vars[nm] = "numlist"
            return "%s = %s" % (nm, self.numlist(sc2(sc, nm), d))
        if k in (9, 10):
            nm = self.fresh(sc)
            e = self.fn1(sc2(sc, nm), d)
            sc.vars[nm] = "fn1"
            return "%s = %s" % (nm, e)
        if k == 11:
            # bounded self recursion
            nm = self.fresh(sc)
            sc.vars[nm] = "fn1"
            self.note("recursive")
            base = self.num(sc2(sc, nm), 1)
            return "%s = n => if n <= 0 then %s else n + %s(n - 1)" % (nm, base, nm)
        if k == 12:
            nm = self.fresh(sc)
            sc.vars[nm] = "rec"
            return "%s = %s" % (nm, self.record(sc2(sc, nm), d))
        if k == 13:
            vs = [v for v, t in sc.all().items() if t in ("num", "bool", "str", "numlist", "rec", "fn1")]
            if vs:
                self.note("output-ident")
                return "output %s" % r.choice(vs)
            return self.anyexpr(sc, d)
        if k == 14:
            nm = self.fresh(sc)
            sc.vars[nm] = "num"
            self.note("output-assign")
            return "output %s = %s" % (nm, self.num(sc2(sc, nm), d))
        if k == 15:
            # nested assignment inside a call argument / list: binds in the current frame
            nm = self.fresh(sc)
            self.note("nested-assign")
            s = "[%s = %s, %s]" % (nm, self.num(sc2(sc, nm), 1), self.num(sc2(sc, nm), 1))
            sc.vars[nm] = "num"
            return s
        if k == 16:
            rs = sc.of_type("rec")
            if rs:
                self.note("field")
                return "%s.%s" % (r.choice(rs), r.choice(["k", "j", "x", "name", "zz"]))
            return self.record(sc, d)
        if k == 17:
            self.note("inputs")
            return r.choice(["#n", "inputs.n", "#missing", "#s", "inputs", "#l"])
        if k == 18 and self.allow_fail:
            self.note("fail")
            vs = [v for v in sc.all() if v != "inputs"]
            return r.choice([
                "1 + \"a\"", "nosuch + 1", "(x => x)(1, 2)", "true and 1", "[1,2] + [1]", "null.k",
                "%s = 1" % (r.choice(vs) if vs else "sum"), "sum = 3", "if = 1", "inputs = 5", "constants = 1",
                "5(1)", "[1,2] .< 3", "do { return nosuch }", "f9 = x => x + nosuch2\nf9(1)",
            ])
        if k == 19:
            self.note("runaway")
            nm = self.fresh(sc)
            sc.vars[nm] = "fn1"
            return "%s = n => %s(n + 1)" % (nm, nm)
        if k == 20:
            fs = sc.of_type("fn1")
            if fs:
                return "%s(%s)" % (r.choice(fs), self.num(sc, 1))
        if k == 21:
            return self.do_block(sc, d, "any")
        if k == 23 and self.allow_fail:
            self.note("output-unportable")
            nm = self.fresh(sc)
            sc.vars[nm] = "fn1"
            return r.choice(["output %s = x => x + nosuch9" % nm, "%s = x => [y => y + nosuch8]\noutput %s" % (nm, nm),
                             "output %s = [1, x => x]" % nm])
        if k in (25, 26):
            # assignments in positions where they must NOT reach (or must be checked against) the
            # enclosing scope: return position of a do-block, anonymous function bodies, branches
            self.note("scoped-assign")
            vs = [v for v in sc.all() if v != "inputs"]
            tgt = r.choice(vs) if (vs and r.chance(1, 2)) else self.fresh(sc)
            e = self.num(sc, 1)
            return r.choice([
                "do {\n  return %s = %s\n}" % (tgt, e),
                "(() => %s = %s)()" % (tgt, e),
                "(q5 => %s = q5)(%s)" % (tgt, e),
                "(if %s then (() => %s = %s) else (() => 0))()" % (self.boolean(sc, 1), tgt, e),
                "[1] via (q5 => %s = %s)" % (tgt, e),
                "do {\n  w5 = %s\n  return do {\n    return %s = w5\n  }\n}" % (e, tgt),
                "{k: (() => %s = %s)()}" % (tgt, e),
                "(() => do {\n  return %s = %s\n})()" % (tgt, e),
                "reduce([1], (a5, q5) => %s = q5, 0)" % tgt,
            ])
        if k == 27:
            # nested assignment in assorted expression positions (binds in the CURRENT frame)
            nm = self.fresh(sc)
            self.note("nested-assign2")
            e = self.num(sc2(sc, nm), 1)
            s_ = r.choice(["abs(%s = %s)" % (nm, e), "{k: %s = %s}" % (nm, e), "(%s = %s) + 1" % (nm, e),
                           "if true then %s = %s else 0" % (nm, e), "[0, 1][%s = 1]" % nm, "-(%s = %s)" % (nm, e)])
            sc.vars[nm] = "num"
            return s_
        if k == 22:
            self.note("comment")
            return "// " + r.choice(["note", "x = 1", ""])
        return self.anyexpr(sc, d)

    def program(self, nstmts):
        sc = Scope()
        sc.vars["inputs"] = "rec"
        out = []
        for _ in range(nstmts):
            out.append(self.statement(sc))
        return out


def sc2(sc, exclude):
    """scope view that hides the name being defined (so initialisers do not use it)"""
    v = Scope(sc.parent)
    v.vars = {k: t for k, t in sc.vars.items() if k != exclude}
    return v
