"""C20 — displayed numbers are well-formed and accurate to 15 significant digits.
See notes/C20.md and DESIGN.md section 6 (C20)."""
import json
import os
import re
import math
import struct
import sys
from fractions import Fraction

import common as c

PID = "C20"
MANIFEST = {
    "text": "38 Coq theorems, 16 over ALL doubles, all library-oracle behaviours meeting stated hypotheses: the display "
            "text matches the numeral grammar (sign, integer digits grouped in threes, fraction | mantissa e exponent | "
            "NaN/Infinity/-Infinity) for every valid double (shape hypotheses on {:.N}/{:.14e}/parse + coarse bounds on "
            "log10/powi; Flocq no-overflow proof); grouping/trimming/separator insertion change no value; integers in "
            "the standard range (< 2^53) are shown exactly with no oracle; no overflow panic; 15-significant-digit "
            "accuracy proved for every valid finite non-zero double (C20_accuracy) under explicit correctness "
            "specifications of the library calls (integers: error 0; scientific range: <= 1/2 unit; standard "
            "non-integers, repaired code: <= 5/8 unit, Flocq real analysis); the executable library models the DISPLAY "
            "correspondence runs (fmt_prec_exec, fmt_exp14_exec, parse_f64_exec, powi_exec) are PROVED to satisfy those "
            "specifications (C20_fmt_prec_model_shape/_value/_half_even/_accurate: {:.N} = round-half-even of the exact binary "
            "expansion at N digits, every N; C20_e10_model_exact + C20_fmt_exp14_model_correct: {:.14e} = 15 correctly "
            "rounded significant digits incl. carry, for valid doubles; C20_parse_model_nearest/_close: parse = IEEE "
            "nearest-even of N/10^k, equal to C16's reference rn_decimal (C20_parse_model_is_C16_reference); "
            "C20_powi_model_*), so the former Prop C20_accuracy_full is the theorem "
            "C20_accuracy_exec (only hypothesis: log10_sane on libm's log10, shown satisfiable; the *_exec_pos variants "
            "need it on positive arguments only - log10_sane_pos, which is what the real f64::log10 can meet and "
            "what LOG10SANE evaluates: log10 of a negative number is NaN and the code only takes log10 of absolute "
            "values) and "
            "C20_accuracy_exact_library has no hypothesis (exact floor-log10 model); likewise well-formedness and "
            "absence of panics for the executable model under log10_sane alone (C20_wellformed_exec, C20_total_exec; "
            "summary C20_exec_complete); what stays trusted is that Rust's std/libm behave like these models (ORACLE "
            "streams) and that libm's log10 satisfies log10_sane (LOG10SANE stream: the real f64::log10 at 10^k +- ulps "
            "for every k and a seeded mix); model tied to the code by the "
            "DISPLAY correspondence (vm_compute vs Rust on bit patterns and boundaries); implementation-level "
            "exact-rational search of the property itself (found C20-F1, fixed in /repo 60da55e)",
    "note": "trusted: Coq kernel + vm_compute; hand transcription of format_display_number and helpers (validated by "
            "DISPLAY); library oracles log10/powi/{:.N}/{:.14e}/parse::<f64> are Section variables in the theorems "
            "(shape / correctness hypotheses stated in each theorem) and exact Z implementations when running "
            "(validated by ORACLE streams; log10 by lookup of the real function's values); axioms: none for 16 "
            "theorems, the Flocq/Reals axioms of the allow-list for C20_wellformed_total, "
            "C20_accuracy_partial_standard, C20_accuracy, C20_powi_model_*, C20_fmt_prec_model_accurate, "
            "C20_e10_model_exact, C20_fmt_exp14_model_correct/_shape, C20_parse_model_*, C20_powi_model_bounds, "
            "C20_wellformed_exec(_pos), C20_total_exec, C20_exec_complete(_pos), C20_accuracy_exec(_pos), "
            "C20_accuracy_exact_library",
    "design_ref": "DESIGN.md section 6 C20; notes/C20.md",
}

REQ = ["Blots.Num", "Blots.Outcome", "Blots.DisplayNum"]


# --------------------------------------------------------------------------- f64 helpers
def f2b(x):
    return struct.unpack("<Q", struct.pack("<d", x))[0]


def b2f(b):
    return struct.unpack("<d", struct.pack("<Q", b & 0xFFFFFFFFFFFFFFFF))[0]


def hx(b):
    return "%016x" % (b & 0xFFFFFFFFFFFFFFFF)


def is_nan_bits(b):
    return (b >> 52) & 0x7FF == 0x7FF and (b & ((1 << 52) - 1)) != 0


def is_inf_bits(b):
    return (b >> 52) & 0x7FF == 0x7FF and (b & ((1 << 52) - 1)) == 0


def frac_of_bits(b):
    """exact rational value of a finite double given by its bits"""
    s = -1 if b >> 63 else 1
    e = (b >> 52) & 0x7FF
    m = b & ((1 << 52) - 1)
    if e == 0:
        return s * Fraction(m, 1 << 1074)
    return s * Fraction(m + (1 << 52)) * Fraction(2) ** (e - 1075)


def e10(fr):
    """floor(log10 |fr|), exact"""
    f = abs(fr)
    k = len(str(f.numerator)) - len(str(f.denominator))
    while Fraction(10) ** (k + 1) <= f:
        k += 1
    while Fraction(10) ** k > f:
        k -= 1
    return k


# --------------------------------------------------------------------------- the independent numeral grammar
# optional sign; integer digits grouped in threes by commas, optional fraction; or mantissa 'e' exponent.
NUMERAL = re.compile(r"^(-?)(?:(0|[1-9][0-9]{0,2}(?:,[0-9]{3})*)(\.[0-9]+)?|([0-9](?:\.[0-9]+)?)e(-?[0-9]+))$")


def denote(t):
    """(kind, exact value) of a display text, or None when it is not a well-formed numeral"""
    if t == "NaN":
        return ("nan", None)
    if t == "Infinity":
        return ("inf", 1)
    if t == "-Infinity":
        return ("inf", -1)
    m = NUMERAL.match(t)
    if not m:
        return None
    if m.group(2) is not None:
        v = Fraction(m.group(2).replace(",", "") + (m.group(3) or ""))
        kind = "std"
    else:
        v = Fraction(m.group(4)) * Fraction(10) ** int(m.group(5))
        kind = "sci"
    return (kind, -v if m.group(1) else v)


def known_class(b):
    """Mirror of the Coq predicate known_C20 (DisplayNum proofs): |x| lies within 3 units of its
    15th significant digit below a power of ten 10^k, 1 <= k <= 15 (the only place where
    floor(log10) as computed by f64::log10 exceeds the true decimal exponent by one and the
    resulting 14-digit rounding is visible)."""
    if is_nan_bits(b) or is_inf_bits(b):
        return False
    a = abs(frac_of_bits(b))
    if a == 0:
        return False
    k = e10(a) + 1
    if not (1 <= k <= 15):
        return False
    p = Fraction(10) ** k
    return p - a <= 3 * Fraction(10) ** (k - 15)


def property_failure(b, text):
    """The property itself on one (input bits, implementation text) pair.  Returns None when it
    holds, else a short description."""
    d = denote(text)
    if d is None:
        return "not a well-formed numeral"
    kind, v = d
    if is_nan_bits(b):
        return None if kind == "nan" else "NaN not shown by name"
    if is_inf_bits(b):
        want = -1 if b >> 63 else 1
        return None if (kind == "inf" and v == want) else "infinity not shown by name"
    if kind in ("nan", "inf"):
        return "finite value shown as %s" % text
    x = frac_of_bits(b)
    if x == 0:
        if v != 0:
            return "zero shown as a non-zero numeral"
        if (text.startswith("-")) != bool(b >> 63):
            return "sign of zero not preserved"
        return None
    if (v < 0) != (x < 0) and v != 0:
        return "wrong sign"
    unit = Fraction(10) ** (e10(x) - 14)
    err = abs(v - x)
    if kind == "std" and x.denominator == 1 and abs(x) < 2 ** 53 and v != x:
        return "integer below 2^53 in standard notation not shown exactly (off by %s)" % err
    if err >= unit:
        return "off by %.4f units of the 15th significant digit" % float(err / unit)
    return None


# --------------------------------------------------------------------------- generators
POW10 = [float("1e%d" % k) for k in range(-330, 310)]


def gen_boundaries(width=24):
    """deterministic boundary family (always included); width = ulps around 10^k"""
    out = []
    sp = [0.0, -0.0, float("inf"), float("-inf"), float("nan"), 5e-324, -5e-324, 2.2250738585072014e-308,
          2.225073858507201e-308, 1.7976931348623157e308, -1.7976931348623157e308, 2.0 ** 53, 2.0 ** 53 - 1,
          2.0 ** 53 + 2, -(2.0 ** 53), 2.0 ** 63, -(2.0 ** 63), 2.0 ** 64, 0.1, 0.2, 0.3, 1 / 3, 2 / 3, 1.5, -1.5,
          1234.5, 1234.56, 3.7432, 123456789.123456789, 0.000123456789012345678, 1e21, 1e22, 1e23, 1.5e15,
          123456789012345.6, 12345678901234.56, 999999999999999.0, 999999999999999.9, 0.5, 0.05, 0.005, 0.0005,
          0.00005, 100.0, 1000.0, 999.0, 1e3 + 0.5, 1e6 + 0.5, 0.30000000000000004, 1e-7, 1.5e-7]
    out += [f2b(x) for x in sp]
    # thresholds 0.0001 and 1e15 +- ulps, and 2^53
    for t in (0.0001, 1e15, 2.0 ** 53, 1.0, 0.001):
        tb = f2b(t)
        for j in range(-12, 13):
            out.append(tb + j)
            out.append((tb + j) | (1 << 63))
    # 10^k +- ulps, standard range densely, elsewhere sparsely
    for k in range(-6, 18):
        pb = f2b(float("1e%d" % k))
        for j in list(range(-width, width + 1)):
            out.append(pb + j)
    for k in list(range(-324, -6, 7)) + list(range(18, 309, 7)) + [-323, -308, -307, 308, 22, 23]:
        pb = f2b(float("1e%d" % k))
        for j in (-2, -1, 0, 1, 2):
            if pb + j > 0:
                out.append(pb + j)
    # 15-digit carry cases 9.999999999999995eK and 15-nines
    for k in range(-8, 20):
        for lit in ("9.999999999999995e%d", "9.99999999999999e%d", "9.9999999999999949e%d", "9.9999999999999951e%d",
                    "9.99999999999999e%d", "1.00000000000000e%d", "1.000000000000005e%d", "1.00000000000001e%d",
                    "4.999999999999995e%d", "1.234567890123445e%d", "1.234567890123455e%d"):
            out.append(f2b(float(lit % k)))
            out.append(f2b(-float(lit % k)))
    return out


def gen_random(rng, n):
    out = []
    for _ in range(n):
        t = rng.below(100)
        if t < 25:                                   # uniform over bit patterns
            out.append(rng.next())
        elif t < 55:                                 # standard range, random mantissa
            e = 1023 - 14 + rng.below(64)
            out.append((rng.below(2) << 63) | (e << 52) | rng.below(1 << 52))
        elif t < 65:                                 # short decimals (few significant digits)
            d = 1 + rng.below(15)
            m = rng.below(10 ** d)
            k = rng.below(24) - 8
            v = float("%de%d" % (m, k - d))
            out.append(f2b(-v if rng.below(2) else v))
        elif t < 75:                                 # integers below and around 2^53
            bits = 1 + rng.below(56)
            v = float(rng.below(1 << bits))
            out.append(f2b(-v if rng.below(2) else v))
        elif t < 85:                                 # near a power of ten in the standard range
            k = rng.below(21) - 5
            pb = f2b(float("1e%d" % k))
            out.append((pb + rng.below(2001) - 1000) | (rng.below(2) << 63))
        elif t < 92:                                 # carry: d.ddd...d5 at the 16th digit
            k = rng.below(24) - 6
            m = rng.below(9 * 10 ** 14) + 10 ** 14
            v = float("%d5e%d" % (m, k - 15))
            out.append(f2b(v) + rng.below(3) - 1)
        elif t < 96:                                 # subnormals / tiny
            out.append((rng.below(2) << 63) | rng.below(1 << (1 + rng.below(54))))
        else:                                        # huge
            e = 1023 + 50 + rng.below(974)
            out.append((rng.below(2) << 63) | (e << 52) | rng.below(1 << 52))
    return out


def canon(b):
    return 0x7ff8000000000000 if is_nan_bits(b) else b & 0xFFFFFFFFFFFFFFFF


# --------------------------------------------------------------------------- oracle validation
def oracle_streams(h, rng, res, n):
    """The executable Gallina library models against the real std functions."""
    mism = {}
    total = 0
    # {:.N}
    cases = []
    base = [f2b(x) for x in (0.0, -0.0, 0.5, 1.5, 2.5, -2.5, 0.125, 1e15, 0.1, 999.9995, -0.001, 1e-20, 5e-324,
                             float("inf"), float("-inf"), float("nan"), 9.5, 0.95, 123456789.5, 1e22)]
    for b in base:
        for p in (0, 1, 3, 14):
            cases.append((b, p))
    while len(cases) < n:
        t = rng.below(3)
        if t == 0:
            b = rng.next()
            if (b >> 52) & 0x7FF > 1023 + 70:      # keep the digit strings short
                b &= ~(1 << 62)
        elif t == 1:
            e = 1023 - 14 + rng.below(64)
            b = (rng.below(2) << 63) | (e << 52) | rng.below(1 << 52)
        else:
            d = 1 + rng.below(17)
            b = f2b(float("%de%d" % (rng.below(10 ** d), rng.below(20) - 18)))
        cases.append((canon(b), rng.below(20)))
    rust = c.harness_lines_resilient(h, "c20-fmtprec", ["%s %d" % (hx(b), p) for b, p in cases])
    model = c.coq_eval_batch(REQ, "", ["show_text (fmt_prec_exec (num_of_bits %d) %d)" % (b, p) for b, p in cases],
                             "c20fp")
    mism["fmt_prec"] = [(cs, r, m) for cs, r, m in zip(cases, rust, model) if r != m]
    total += len(cases)
    # {:.14e}
    ecases = [canon(b) for b in gen_random(rng, n)] + base
    rust = c.harness_lines_resilient(h, "c20-fmtexp", [hx(b) for b in ecases])
    model = c.coq_eval_batch(REQ, "", ["show_text (fmt_exp14_exec (num_of_bits %d))" % b for b in ecases], "c20fe")
    mism["fmt_exp14"] = [(cs, r, m) for cs, r, m in zip(ecases, rust, model) if r != m]
    total += len(ecases)
    # parse::<f64> on mantissa-shaped text (and a few rejects)
    pcases = ["", "-", "+", ".", "abc", "1,0", "1.5", "-1.5", "+2", "10.00000000000000", "0.1", "-0.0", "007", "1.", ".5",
              "9.99999999999999", "1.00000000000000", "4.94065645841247", "1.79769313486232"]
    while len(pcases) < n // 2:
        m = rng.below(9 * 10 ** 14) + 10 ** 14
        s = str(m)
        pcases.append(("-" if rng.below(2) else "") + s[0] + "." + s[1:])
    rust = c.harness_lines_resilient(h, "c20-parse", [c.hexs(s) for s in pcases])
    model = c.coq_eval_batch(REQ, "", ['show_onum (parse_f64_exec (tx (hx "%s")))' % c.hexs(s) for s in pcases], "c20pf")
    mism["parse_f64"] = [(cs, r, m) for cs, r, m in zip(pcases, rust, model) if r != m]
    total += len(pcases)
    # parse::<i32>
    icases = ["", "-", "+", "0", "-0", "+5", "15", "-5", "-324", "308", "2147483647", "2147483648", "-2147483648",
              "-2147483649", "1e5", "1.0", " 1", "00012", "99999999999999999999"]
    rust = c.harness_lines_resilient(h, "c20-parsei32", [c.hexs(s) for s in icases])
    model = c.coq_eval_batch(REQ, "", ['show_oZ (parse_i32 (tx (hx "%s")))' % c.hexs(s) for s in icases], "c20pi")
    mism["parse_i32"] = [(cs, r, m) for cs, r, m in zip(icases, rust, model) if r != m]
    total += len(icases)
    # powi
    wcases = [(f2b(10.0), k) for k in range(-30, 31)]
    while len(wcases) < n // 2:
        wcases.append((canon(f2b(b2f((1023 - 2 + rng.below(5)) << 52 | rng.below(1 << 52)))), rng.below(81) - 40))
    rust = c.harness_lines_resilient(h, "c20-powi", ["%s %d" % (hx(b), k) for b, k in wcases])
    model = c.coq_eval_batch(REQ, "", ["show_num (powi_exec (num_of_bits %d) (%d))" % (b, k) for b, k in wcases], "c20pw")
    mism["powi"] = [(cs, r, m) for cs, r, m in zip(wcases, rust, model) if r != m]
    total += len(wcases)
    for name, ms in mism.items():
        if ms:
            cs, r, m = ms[0]
            res.tie_broken("correspondence C20/ORACLE-%s: executable library model and Rust std disagree on %d cases"
                           % (name, len(ms)), "first: input=%r rust=%s model=%s" % (cs, r, m))
    res.streams["ORACLE"] = {"cases": total, "mismatches": {k: len(v) for k, v in mism.items()},
                             "sizes": {"fmt_prec": len(cases), "fmt_exp14": len(ecases), "parse_f64": len(pcases),
                                       "parse_i32": len(icases), "powi": len(wcases)}}
    return total - sum(len(v) for v in mism.values())


# --------------------------------------------------------------------------- the last hypothesis, on the real libm
def log10_sane_stream(h, seed, res, thorough):
    """LOG10SANE: the one hypothesis left in C20_accuracy_exec_pos / C20_wellformed_exec_pos / C20_exec_complete_pos
    (log10_sane_pos: positive arguments, the only ones the code passes to log10), evaluated on
    the real f64::log10:  k <= floor(log10 a) as i32 <= k + 1  where 10^k <= a < 10^(k+1) (k exact, by rational
    arithmetic).  Own Rng (the other streams' inputs do not move).  A failure is a broken tie: the theorem's
    hypothesis does not hold of the implementation's library."""
    rng = c.Rng(seed ^ 0xC2010610)
    width = 64 if thorough else 8
    fam = {"pow10_neighbourhood": 0, "uniform_positive_bits": 0, "subnormal": 0, "standard_range": 0,
           "powers_of_two": 0}
    args = set()
    for k in range(-323, 309):
        pb = f2b(float("1e%d" % k))
        for j in range(-width, width + 1):
            b = pb + j
            if 0 < b < 0x7ff0000000000000 and b not in args:
                args.add(b)
                fam["pow10_neighbourhood"] += 1
    n = 40000 if thorough else 4000
    for _ in range(n):
        t = rng.below(4)
        if t == 0:
            b = rng.below(0x7ff0000000000000 - 1) + 1
            key = "uniform_positive_bits"
        elif t == 1:
            b = rng.below((1 << 52) - 1) + 1
            key = "subnormal"
        elif t == 2:
            b = ((1023 - 14 + rng.below(64)) << 52) | rng.below(1 << 52)
            key = "standard_range"
        else:
            b = (rng.below(2046) + 1) << 52
            key = "powers_of_two"
        if b not in args:
            args.add(b)
            fam[key] += 1
    args = sorted(args)
    out = c.harness_lines_resilient(h, "c20-log10", [hx(b) for b in args])
    bad = []
    over = 0
    for b, l in zip(args, out):
        try:
            v = b2f(int(l, 16))
        except ValueError:
            bad.append((hx(b), l, None))
            continue
        k = e10(frac_of_bits(b))
        if v != v or v in (float("inf"), float("-inf")):
            bad.append((hx(b), l, k))
            continue
        est = max(-2 ** 31, min(2 ** 31 - 1, math.floor(v)))
        if not (k <= est <= k + 1):
            bad.append((hx(b), l, k))
        elif est == k + 1:
            over += 1
    if bad:
        res.tie_broken("hypothesis log10_sane_pos of C20_accuracy_exec_pos / C20_exec_complete_pos fails on the real "
                       "f64::log10 for %d of %d arguments" % (len(bad), len(args)),
                       "first: arg bits=%s log10 bits=%s exact decade=%s" % bad[0])
    res.streams["LOG10SANE"] = {"args": len(args), "families": fam, "failures": len(bad),
                                "floor_is_decade_plus_one": over,
                                "rule": "k <= floor(f64::log10(a)) <= k+1, k = exact floor(log10 a) by rationals; "
                                        "10^k +- %d ulps for every k in -323..308 + seeded mix" % width}
    return len(args) - len(bad)


# --------------------------------------------------------------------------- DISPLAY correspondence
def model_display(h, inputs):
    """Run the model on the inputs (list of bit patterns). Returns list of (unfixed, fixed) hex texts."""
    l1 = c.harness_lines_resilient(h, "c20-log10", [hx(b & ~(1 << 63)) for b in inputs])
    tab1 = [(b & ~(1 << 63), int(l, 16)) for b, l in zip(inputs, l1)]

    def tabtxt(entries):
        return "[" + "; ".join("(%d, %d)" % e for e in entries) + "]"
    # phase A: inputs that never call log10 are answered at once ("D..."); the others report the
    # second log10 argument (|rounded|) under both variants ("R<bits>|<bits>")
    exprs = ["show_phase_a %s (num_of_bits %d)" % (tabtxt([t]), b) for b, t in zip(inputs, tab1)]
    pa = c.coq_eval_batch(REQ, "", exprs, "c20a")
    need = []
    for r in pa:
        if r and r.startswith("R"):
            for part in r[1:].split("|"):
                if re.fullmatch(r"[0-9a-f]{16}", part):
                    need.append(int(part, 16))
    need = sorted(set(need))
    l2 = dict(zip(need, [int(l, 16) for l in c.harness_lines_resilient(h, "c20-log10", [hx(b) for b in need])]))
    exprs = []
    idx = []
    for i, (b, t, r) in enumerate(zip(inputs, tab1, pa)):
        if not (r and r.startswith("R")):
            continue
        entries = [t]
        for part in r[1:].split("|"):
            if re.fullmatch(r"[0-9a-f]{16}", part):
                k = int(part, 16)
                if all(k != e[0] for e in entries):
                    entries.append((k, l2[k]))
        exprs.append("show_display %s (num_of_bits %d)" % (tabtxt(entries), b))
        idx.append(i)
    pb = c.coq_eval_batch(REQ, "", exprs, "c20b")
    out = [(None, None)] * len(inputs)
    for i, r in enumerate(pa):
        if r and r.startswith("D"):
            out[i] = tuple(r[1:].split("|"))
    for i, r in zip(idx, pb):
        if r:
            out[i] = tuple(r.split("|"))
    return out


def txt(hexs):
    try:
        return bytes.fromhex(hexs).decode("utf-8", "replace")
    except ValueError:
        return hexs


def main(argv):
    tier, seed, replay = c.tier_and_seed(argv)
    res = c.Result(PID, tier, seed)
    rng = c.Rng(seed ^ 0xC20)
    try:
        h = c.build_harness()
    except c.BrokenTie as e:
        res.tie_broken(e.what, e.detail)
        return res.finish()
    if replay:
        return do_replay(h, replay)

    c.proof_step(res, PID)
    known = c.open_known(PID)

    thorough = tier == "thorough"
    # ---- ORACLE streams
    validated = 0
    try:
        validated += oracle_streams(h, rng, res, 3000 if thorough else 300)
    except c.BrokenTie as e:
        res.tie_broken(e.what, e.detail)
    # ---- LOG10SANE: the remaining hypothesis of the *_exec theorems on the real libm log10
    try:
        validated += log10_sane_stream(h, seed, res, thorough)
    except c.BrokenTie as e:
        res.tie_broken(e.what, e.detail)

    # ---- inputs: corpus, boundaries, random
    corpus = load_corpus()
    bnd = gen_boundaries(200 if thorough else 24)
    n_model = 120000 if thorough else 2500
    rnd = gen_random(rng, n_model)
    seen = set()
    inputs = []
    for b in corpus + bnd + rnd:
        b = canon(b)
        if b not in seen:
            seen.add(b)
            inputs.append(b)

    # ---- implementation
    rust = c.harness_lines_resilient(h, "c20-display", [hx(b) for b in inputs])
    rust_fmt = c.harness_lines_resilient(h, "c20-format", [hx(b) for b in inputs])
    rust_lst = c.harness_lines_resilient(h, "c20-fmtlist", [hx(b) for b in inputs[:2000]])
    for b, r in zip(inputs, rust):
        if r.startswith("PANIC") or r.startswith("ABORT"):
            res.violation("format_display_number panics", replay_dict(b, r, "a display text"))
    # the `format` built-in shows exactly format_display_number (also inside lists and records)
    for b, r, f in zip(inputs, rust, rust_fmt):
        if r != f:
            res.violation("format(\"{}\", x) differs from format_display_number(x)",
                          dict(replay_dict(b, f, txt(r)), stream="c20-format"))
            break
    for b, r, f in zip(inputs, rust, rust_lst):
        want = c.hexs("[%s] {k: %s}" % (txt(r), txt(r)))
        if f != want:
            res.violation("format of a list/record element differs from format_display_number(x)",
                          dict(replay_dict(b, txt(f), txt(want)), stream="c20-fmtlist"))
            break

    # ---- history independence: the display text of a collection does not depend on whether the SAME object was
    # rendered before by another function (to_string / join / string concatenation render plainly, format renders
    # numbers in display form), for collections below and above small-size thresholds.  Round 4, seed C20-7: a
    # render cache for lists / records of 16 or more elements keyed without the display flag.
    def numsrc(b):
        x = b2f(b)
        if x != x:
            return "(0/0)"
        if x in (float("inf"), float("-inf")):
            return "(1/0)" if x > 0 else "(-1/0)"
        return "(%s)" % repr(x)
    hist = []
    pool = [b for b in (corpus + bnd)[:400]]
    for n in (1, 3, 15, 16, 17, 40):
        for k in range(3 if not thorough else 12):
            xs = [numsrc(pool[(7 * k + 13 * i + n) % len(pool)]) for i in range(n)]
            lit = "[" + ", ".join(xs) + "]"
            rec = "{" + ", ".join("k%d: %s" % (i, x) for i, x in enumerate(xs)) + "}"
            for obj in (lit, rec):
                hist.append(("plain-then-format", "v = %s\nfresh = format(\"{}\", %s)\ns1 = to_string(v)\ns2 = \"\" + v\n"
                             "after = format(\"{}\", v)\n[fresh == after, fresh, after]" % (obj, obj)))
                hist.append(("format-then-plain", "v = %s\nfresh = to_string(%s)\ns1 = format(\"{} {}\", v, v)\n"
                             "after = to_string(v)\n[fresh == after, fresh, after]" % (obj, obj)))
            hist.append(("join-then-format", "v = %s\nfresh = format(\"{}\", %s)\ns1 = join(v, \";\")\nafter = format(\"{}\", v)\n"
                         "[fresh == after, fresh, after]" % (lit, lit)))
    houts = c.harness_lines_resilient(h, "eval", [c.hexs(p_) for _, p_ in hist])
    hbad = 0
    for (kind, prog), o in zip(hist, houts):
        r = o.split(";ENV:")[0].split("|")[-1]
        if r.startswith("OK:L[T,"):
            continue
        if r.startswith("ERR"):
            continue            # e.g. "" + record is a type error: nothing was rendered twice
        hbad += 1
        if hbad <= 3:
            res.violation("the text of a collection depends on how the same object was rendered before (%s)" % kind,
                          {"kind": "impl-law", "program": prog, "observed": r, "expected": "OK:L[T,..] (fresh == after)"})
    res.streams["HISTORY"] = {"programs": len(hist), "violations": hbad,
                              "kinds": {k_: sum(1 for kk, _ in hist if kk == k_) for k_ in sorted({kk for kk, _ in hist})},
                              "sizes": [1, 3, 15, 16, 17, 40]}

    # ---- model
    mism = []
    in_class = 0
    variant = {"unfixed": 0, "fixed": 0, "both": 0}
    try:
        model = model_display(h, inputs)
    except c.BrokenTie as e:
        res.tie_broken(e.what, e.detail)
        model = [(None, None)] * len(inputs)
    compared = 0
    for b, r, (mu, mf) in zip(inputs, rust, model):
        if mu is None:
            continue
        compared += 1
        if known_class(b):
            in_class += 1
        if known and known_class(b):
            # OPEN known-finding class: the code before and after the proposed repair are both accepted
            if r == mu and r == mf:
                variant["both"] += 1
            elif r == mu:
                variant["unfixed"] += 1
            elif r == mf:
                variant["fixed"] += 1
            else:
                mism.append((b, r, mu, mf))
        else:
            # strict: the model is the repaired code (fx = true, /repo commit 60da55e); outside the
            # class of C20-F1 the pre-repair variant must give the same text
            if mu != mf and not known_class(b):
                res.tie_broken("model: the repaired and unrepaired flog10 differ outside the class of C20-F1",
                               "bits=%s unfixed=%s fixed=%s" % (hx(b), txt(mu), txt(mf)))
            if r != mf:
                mism.append((b, r, mu, mf))
            elif known_class(b):
                variant["fixed" if mu != mf else "both"] += 1
    if mism:
        b, r, mu, mf = mism[0]
        res.tie_broken("correspondence C20/DISPLAY: model and implementation disagree on %d of %d inputs"
                       % (len(mism), compared),
                       "first: bits=%s (%r) impl=%s model(pre-60da55e)=%s model=%s"
                       % (hx(b), b2f(b), txt(r), txt(mu), txt(mf)))
    validated += compared - len(mism)

    # ---- the property itself on the implementation (exact rationals), larger sample
    n_search = 1500000 if thorough else 40000
    sinputs = list(inputs)
    for b in gen_random(rng, n_search):
        b = canon(b)
        if b not in seen:
            seen.add(b)
            sinputs.append(b)
    extra = sinputs[len(inputs):]
    srust = rust + c.harness_lines_resilient(h, "c20-display", [hx(b) for b in extra])
    fails_known = 0
    fails = []
    kinds = {"std": 0, "sci": 0, "name": 0, "illformed": 0}
    for b, r in zip(sinputs, srust):
        if r.startswith("PANIC") or r.startswith("ABORT"):
            continue
        t = txt(r)
        d = denote(t)
        kinds["illformed" if d is None else ("name" if d[0] in ("nan", "inf") else d[0])] += 1
        f = property_failure(b, t)
        if f is None:
            continue
        if known and known_class(b) and f.startswith("off by") :
            fails_known += 1
        else:
            fails.append((b, t, f))
    for b, t, f in fails[:5]:
        res.violation("display form violates C20: %s" % f, replay_dict(b, t, "a numeral within one unit of the 15th digit"))

    # ---- known findings (open ones are reported; the witness data of fixed ones is still validated)
    for e in c.load_known(PID):
        w = e["witness"]
        b = int(w["bits"], 16)
        if e.get("status") == "open":
            out = c.harness_lines_resilient(h, "c20-display", [hx(b)])[0]
            f = property_failure(b, txt(out))
            line = "%s %s" % (e["id"], e["what"])
            if f is None:
                line += " (no longer reproduces)"
            res.known(line)
        # the log10 values used by the Coq lemmas C20_F1_before_repair / C20_F1_repaired are those of
        # the real function
        for arg, val in w.get("log10_table", []):
            got = c.harness_lines_resilient(h, "c20-log10", [arg])[0]
            if got != val:
                res.tie_broken("C20_F1 lemmas: f64::log10(%s) is %s, the lemmas' table says %s" % (arg, got, val))

    res.coverage["evaluations"] = len(sinputs) + len(inputs) + len(rust_lst) + res.streams.get("ORACLE", {}).get("cases", 0)
    res.coverage["distinct_nontrivial"] = sum(1 for b in sinputs if not is_nan_bits(b) and not is_inf_bits(b)
                                              and (b & ~(1 << 63)) != 0)
    res.coverage["rule"] = ("f64 bit patterns: fixed boundary family (thresholds 0.0001/1e15/2^53 +-12 ulps, 10^k +-24 (thorough: +-200) "
                            "ulps for k in -6..17, sparse 10^k elsewhere, 15-digit carry literals, specials) + seeded "
                            "random mix (uniform bits, standard-range mantissas, short decimals, integers, near powers of "
                            "ten, 16th-digit-5 carries, subnormals, huge); non-trivial = distinct finite non-zero inputs "
                            "(they reach the rounding/formatting code; zeros, NaN, infinities take the early returns)")
    res.coverage["samples"] = [{"bits": hx(b), "value": repr(b2f(b)), "impl": txt(r)}
                               for b, r in [(inputs[i], rust[i]) for i in
                                            [rng.below(len(inputs)) for _ in range(6)]]]
    res.coverage["traces_validated_against_impl"] = validated
    res.streams["DISPLAY"] = {"inputs": len(inputs), "compared": compared, "mismatches": len(mism),
                              "boundary_family": len(bnd), "corpus": len(corpus), "random": len(rnd),
                              "in_known_class": in_class, "known_class_variant": variant}
    res.streams["SEARCH"] = {"inputs": len(sinputs), "notation": kinds, "failures_in_known_class": fails_known,
                             "failures_outside": len(fails)}
    res.assumptions = [
        "library oracles (f64::log10, powi, {:.N}, {:.14e}, parse::<f64>) are Section variables in the theorems; "
        "their executable Gallina models are proved to meet the stated specifications (C20_*_model_*) and are "
        "compared with the Rust std functions by the ORACLE streams - that Rust's std/libm behave like the models is "
        "tested, not proved",
        "15-significant-digit accuracy is proved for the executable model (C20_accuracy_exec: only hypothesis "
        "log10_sane on libm's log10; C20_accuracy_exact_library: none) and, for arbitrary oracles, relative to "
        "correctness specifications of the library calls (C20_accuracy); on the implementation it is decided by "
        "exact-rational search",
    ]
    return res.finish()


def replay_dict(b, observed, expected):
    return {"kind": "impl", "bits": hx(b), "value": repr(b2f(b)), "observed": observed, "expected": expected,
            "rerun": "./check C20 --replay <this file>  (harness: echo %s | verif-harness c20-display)" % hx(b)}


def load_corpus():
    d = os.path.join(c.VERIF, "corpus", PID)
    out = []
    if os.path.isdir(d):
        for fn in sorted(os.listdir(d)):
            with open(os.path.join(d, fn)) as f:
                for line in f:
                    line = line.split("#")[0].strip()
                    if line:
                        out.append(int(line, 16))
    return out


def do_replay(h, path):
    with open(path) as f:
        rp = json.load(f)
    print(json.dumps(rp, indent=1))
    if "bits" not in rp:
        return 0
    b = int(rp["bits"], 16)
    sub = rp.get("stream", "c20-display")
    out = c.harness_lines_resilient(h, sub, [hx(b)])[0]
    print("implementation now returns:", txt(out))
    if sub != "c20-display":
        base = c.harness_lines_resilient(h, "c20-display", [hx(b)])[0]
        if sub == "c20-format":
            return 0 if out == base else 1
        return 0 if out == c.hexs("[%s] {k: %s}" % (txt(base), txt(base))) else 1
    f = property_failure(b, txt(out))
    print("property:", f or "holds")
    return 0 if f is None else 1


if __name__ == "__main__":
    sys.exit(main(sys.argv[1:]))
