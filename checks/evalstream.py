"""EVAL correspondence: the same program text is (a) parsed by the real parser into an AST that
is printed in Gallina syntax (harness `parse`), evaluated by the model evaluator (coq/Eval.v,
vm_compute) and (b) evaluated by the real evaluator (harness `eval`); the two canonical result
lines (per-statement outcomes + final root bindings) are compared."""
import json

import common as c
from gen_values import N, S, L, R, V

# serde_json::Map is a BTreeMap here (no preserve_order): keys arrive sorted by bytes
DEFAULT_INPUTS = R(("l", L(N(1), N(2), N(3))), ("n", N(5)), ("s", S("str")))
DEFAULT_INPUTS_JSON = json.dumps({"n": 5, "s": "str", "l": [1, 2, 3]})

REQUIRES = ["Blots.Num", "Blots.gen.Builtins", "Blots.Ast", "Blots.Value", "Blots.Outcome", "Blots.Env",
            "Blots.Eval", "Blots.Program", "Blots.EvalInst", "Blots.EvalFull"]


def parse_to_coq(h, srcs):
    """list of program sources -> list of Gallina `list stmt` terms (None = parser rejected)."""
    outs = c.harness_lines_resilient(h, "parse", [c.hexs(s) for s in srcs])
    res = []
    for o in outs:
        if o in ("REJECT", "GLUEERR", "BADUTF8") or o.startswith("PANIC") or o.startswith("ABORT"):
            res.append(None)
            continue
        items = []
        ok = True
        for part in (o.split(" ;; ") if o else []):
            if part.startswith("E "):
                items.append("SExpr (%s)" % part[2:])
            elif part.startswith("O "):
                items.append("SOut (%s)" % part[2:])
            elif part.startswith("C "):
                items.append("SComment")
            else:
                ok = False
        res.append("[" + "; ".join(items) + "]" if ok else None)
    return res, outs


def rust_eval(h, srcs, inputs_json=DEFAULT_INPUTS_JSON):
    lines = [c.hexs(s) + ("\t" + c.hexs(inputs_json) if inputs_json is not None else "") for s in srcs]
    return c.harness_lines_resilient(h, "eval", lines)


def model_eval(coq_progs, inputs=DEFAULT_INPUTS, tag="eval", fn="run_program_full"):
    """coq_progs: list of Gallina terms (or None).  Returns list of result strings / None."""
    inp = "[" + "; ".join('((hx "%s"), %s)' % (c.hexs(k), v.coq()) for k, v in inputs.p) + "]" if inputs else "[]"
    idx = [i for i, p in enumerate(coq_progs) if p is not None]
    exprs = ["(%s INP %s)" % (fn, coq_progs[i]) for i in idx]
    outs = c.coq_eval_batch(REQUIRES, "Definition INP : list (string * value) := %s." % inp, exprs, tag, shard=250)
    res = [None] * len(coq_progs)
    for i, o in zip(idx, outs):
        res[i] = o
    return res


def compare(srcs, rust, model):
    """-> (agree, mismatches[(i, rust, model)], skipped_unmodelled, rejected)"""
    agree, mism, skipped, rejected = 0, [], 0, 0
    for i, (r, m) in enumerate(zip(rust, model)):
        if m is None:
            rejected += 1
            continue
        if "UNMODELLED" in m:
            skipped += 1
            continue
        if r == m:
            agree += 1
        else:
            mism.append((i, r, m))
    return agree, mism, skipped, rejected


# ====================================================================================================
# ALL stream (extension round): programs over the built-ins that are library-backed in the Rust code —
# sin cos tan asin acos atan log log10 exp, `^` (powf), trim uppercase lowercase, format, print,
# time_now, to_string / join of values containing functions — run by the model coq/EvalAll.v with its
# ORACLE record instantiated by lookup tables (coq/AllRun.v) that the harness dumps for exactly the calls
# the batch makes (harness/src/s_all.rs: the same std functions blots-core calls).  The generator only
# applies an oracle function to an argument whose value it computed itself (literals, IEEE arithmetic on
# them — Python floats are binary64 —, and up to two nested oracle applications looked up through the
# harness), so that every call of the batch is in the tables; a miss would surface as the sentinel of
# AllRun.v and is counted, never compared.
import struct as _struct

ALL_REQUIRES = REQUIRES + ["Blots.EvalAll", "Blots.AllRun"]
LIBM = ["sin", "cos", "tan", "asin", "acos", "atan", "log", "log10", "exp"]        # blots names, table ids 0..8
LIBM_RUST = {"log": "ln"}
STRFN = ["trim", "uppercase", "lowercase"]                                          # table ids 0..2
STRFN_H = {"trim": "trim", "uppercase": "upper", "lowercase": "lower"}
MISS_NUM = "7fe0dead0000beef"
MISS_STR = "014d495353"
NEWLY_MODELLED = LIBM + STRFN + ["format", "print", "time_now", "to_string", "join"]


def _bits(x):
    if x != x:
        return 0x7ff8000000000000
    return _struct.unpack(">Q", _struct.pack(">d", x))[0]


def _unbits(b):
    return _struct.unpack(">d", _struct.pack(">Q", b))[0]


class NumE:
    """a numeric expression whose value the generator knows: (source text, value)"""
    __slots__ = ("src", "val", "depth")

    def __init__(self, src, val, depth=0):
        self.src, self.val, self.depth = src, val, depth


NUM_LITS = [("0", 0.0), ("1", 1.0), ("2", 2.0), ("0.5", 0.5), ("3.25", 3.25), ("10", 10.0), ("100", 100.0), ("1000", 1000.0),
            ("0.001", 0.001), ("1e10", 1e10), ("123456.789", 123456.789), ("0.1", 0.1), ("2.5", 2.5), ("0.75", 0.75),
            ("1e300", 1e300), ("1e-300", 1e-300), ("1e15", 1e15), ("999999999999999.5", 999999999999999.5), ("0.0001", 0.0001),
            ("3.141592653589793", 3.141592653589793), ("2.718281828459045", 2.718281828459045), ("1e-7", 1e-7),
            ("0.30000000000000004", 0.30000000000000004), ("9007199254740993", 9007199254740992.0), ("1234.5", 1234.5),
            ("5e-324", 5e-324), ("1.7976931348623157e308", 1.7976931348623157e308), ("710", 710.0), ("-745.2", None),
            ("0.9999999999999999", 0.9999999999999999), ("1.0000000000000002", 1.0000000000000002), ("45", 45.0), ("1e22", 1e22)]


def _arith(op, a, b):
    try:
        if op == "+":
            return a + b
        if op == "-":
            return a - b
        if op == "*":
            return a * b
        if op == "/":
            if b == 0.0:
                return None
            return a / b
    except OverflowError:
        return None
    return None


class AllGen:
    def __init__(self, rng, h, quick):
        self.rng, self.h, self.quick = rng, h, quick
        self.libm = {}     # (fn name, arg bits) -> result bits
        self.powf = {}     # (x bits, y bits) -> result bits
        self.strt = {}     # (fn name, arg str) -> result str
        self.lam = []      # (lambda source, text)
        self.now_bits = None
        self.dist = {}     # built-in -> programs mentioning it
        # ---- level 0 numbers: literals, negations, specials, IEEE arithmetic on two literals
        L0 = []
        for s, v in NUM_LITS:
            if v is None:
                continue
            L0.append(NumE(s, v))
        L0 += [NumE("(-%s)" % e.src, -e.val) for e in L0[:14]]
        L0 += [NumE("inf", float("inf")), NumE("(-inf)", float("-inf")), NumE("(0/0)", float("nan")), NumE("(-0)", -0.0)]
        ar = []
        for _ in range(24 if quick else 120):
            a, b, op = rng.choice(L0[:33]), rng.choice(L0[:33]), rng.choice(["+", "-", "*", "/"])
            v = _arith(op, a.val, b.val)
            if v is not None:
                ar.append(NumE("(%s %s %s)" % (a.src, op, b.src), v))
        self.L0 = L0 + ar
        # ---- level 1 / 2: oracle applications, values through the harness
        self._query_libm([(f, e.val) for f in LIBM for e in self.L0])
        self.L1 = [NumE("%s(%s)" % (f, e.src), _unbits(self.libm[(f, _bits(e.val))]), 1) for f in LIBM for e in self.L0]
        pp = [(a, b) for a in self.L0[:40] for b in self.L0[:40]]
        pp = pp if not quick else rng.shuffle(pp)[:500]
        self._query_powf([(a.val, b.val) for a, b in pp])
        self.P1 = [NumE("(%s ^ %s)" % (a.src, b.src), _unbits(self.powf[(_bits(a.val), _bits(b.val))]), 1) for a, b in pp]
        l1s = rng.shuffle(self.L1 + self.P1)[: (120 if quick else 900)]
        self._query_libm([(f, e.val) for f in LIBM for e in l1s])
        self.L2 = [NumE("%s(%s)" % (f, e.src), _unbits(self.libm[(f, _bits(e.val))]), 2) for f in LIBM for e in l1s]
        pq = [(rng.choice(l1s), rng.choice(self.L0)) for _ in range(60 if quick else 400)]
        pq += [(b, a) for a, b in pq[:30]]
        self._query_powf([(a.val, b.val) for a, b in pq])
        self.P2 = [NumE("(%s ^ %s)" % (a.src, b.src), _unbits(self.powf[(_bits(a.val), _bits(b.val))]), 2) for a, b in pq]
        # ---- strings
        S0 = ["", "abc", "  hello  ", "\tTab\n", "Stra\u00dfe", "\u01c6", "\u0130stanbul", "\u00a0x\u2003", "\u03a3\u0391\u03a3", "\u03c3\u03c2",
              "\ufb01n", "MiXeD 123", "\u3000wide\u3000", "e\u0301", "\U0001F600 ok ", "a,b , c", "\u1e9e", "\u0149", "  ", "x\u200by",
              "\u0085nel\u0085", "\u1680og\u1680", "\u0345", "\u03b0", "Ab", "aB", "  Q q ", "str", "{}", "a{}b", "m", "km", ", ", "k"]
        S0 += [a + b for a, b in [(rng.choice(S0), rng.choice(S0)) for _ in range(10)]]
        self.S0 = list(dict.fromkeys(S0))
        self._query_str([(f, s) for f in STRFN for s in self.S0])
        self.S1 = [(f, s, self.strt[(f, s)]) for f in STRFN for s in self.S0]
        s1vals = list(dict.fromkeys(r for _, _, r in self.S1))
        self._query_str([(f, s) for f in STRFN for s in s1vals])
        self.now_bits = int(c.harness_oneshot(h, "all-now").strip(), 16)

    # ---- harness oracle queries
    def _query_libm(self, items):
        items = [(f, v) for f, v in dict.fromkeys((f, _bits(v)) for f, v in items) if (f, v) not in self.libm]
        outs = c.harness_lines_resilient(self.h, "all-libm", ["%s %016x" % (LIBM_RUST.get(f, f), b) for f, b in items])
        for (f, b), o in zip(items, outs):
            self.libm[(f, b)] = int(o, 16)

    def _query_powf(self, items):
        items = [k for k in dict.fromkeys((_bits(x), _bits(y)) for x, y in items) if k not in self.powf]
        outs = c.harness_lines_resilient(self.h, "all-powf", ["%016x %016x" % k for k in items])
        for k, o in zip(items, outs):
            self.powf[k] = int(o, 16)

    def _query_str(self, items):
        items = [k for k in dict.fromkeys(items) if k not in self.strt]
        outs = c.harness_lines_resilient(self.h, "all-str", ["%s %s" % (STRFN_H[f], c.hexs(s)) for f, s in items])
        for k, o in zip(items, outs):
            self.strt[k] = bytes.fromhex(o).decode("utf-8")

    # ---- program pieces
    def num(self, maxdepth=2):
        r = self.rng
        pools = [self.L0, self.L1 + self.P1, self.L2 + self.P2][: maxdepth + 1]
        return r.choice(r.choice(pools))

    @staticmethod
    def sq(s):
        return '"' + s.replace("\\", "\\\\").replace('"', '\\"').replace("\n", "\\n").replace("\t", "\\t") + '"'

    def strexpr(self):
        """-> source of a string expression all of whose oracle calls are in the tables"""
        r = self.rng
        k = r.below(6)
        s = r.choice(self.S0)
        if "\n" in s or "\t" in s or "\\" in s or '"' in s:      # escapes: keep the literal simple for the blots lexer
            s = s.replace("\n", " ").replace("\t", " ")
            if (STRFN[0], s) not in self.strt:
                self._query_str([(f, s) for f in STRFN])
                self._query_str([(g, self.strt[(f, s)]) for f in STRFN for g in STRFN])
        f, g = r.choice(STRFN), r.choice(STRFN)
        if k == 0:
            return self.sq(s)
        if k <= 3:
            return "%s(%s)" % (f, self.sq(s))
        return "%s(%s(%s))" % (g, f, self.sq(s))

    LAMS = ["x => x", "x => x + 1", "(x, y) => x * y", "(x, y?) => x", "(...r) => r", "(a, ...r) => [a, ...r]", "() => 1",
            "x => y => x + y", "x => x via (y => y * 2)", "n => if n > 0 then n else -n", "x => {a: x, \"b c\": [x]}",
            "x => x.a[0]", "(x) => do { y = x + 1\n return y }", "x => sin(x) ^ 2", "s => uppercase(s) + \"!\"", "x => -x!",
            "f => f(f)", "x => x ?? 0", "x => not x and true", "(x, i) => x .== i",
            "(x, i) => i", "(a, x) => a + x", "x => x > 1", "x => \"k\"", "x => x(x)"]
    FMTS = ["{}", "a{}b{}", "{{}}", "{{{}}}x{y}", "}{", "{", "}", "{}{}{}", "\u00e9{}\u00fc", "{}}", "{{}}x{{}{}}y{", "no braces", "",
            "{}} {{}", "{ }", "{{", "}}", "\U0001F600{}\U0001F600", "{}{", "}{}", "{x}{}"]

    def anyval(self, maxdepth=2):
        r = self.rng
        k = r.below(12)
        if k <= 3:
            return self.num(maxdepth).src
        if k == 4:
            return self.strexpr() if maxdepth >= 2 else self.sq(r.choice(self.S0[4:20]))
        if k == 5:
            return "(%s)" % r.choice(self.LAMS)
        if k == 6:
            return r.choice(["true", "false", "null", "sin", "format", "print", "time_now", "inputs.l", "inputs.s"])
        if k == 7:
            return "[%s, %s]" % (self.num().src, self.strexpr())
        if k == 8:
            return "{a: %s, \"k 2\": [(%s), %s]}" % (self.num().src, r.choice(self.LAMS), self.strexpr())
        if k == 9:
            return "[%s, [(%s), null], {f: cos}]" % (self.num(1).src, r.choice(self.LAMS))
        if k == 10:
            return "[...%s, 1]" % self.strexpr()
        return "[]"

    def direct_arg(self, bname):
        """an argument for the DIRECT stream: no spreads (the vector is a list literal), oracle functions only on level-0 values"""
        r = self.rng
        k = r.below(10)
        if k <= 2:
            return r.choice(self.L0).src
        if k == 3:
            return self.sq(r.choice(self.S0[4:20] + ["{}", "a{}b", "str", "Ab"]))
        if k == 4:
            return "[%s, %s]" % (r.choice(self.L0).src, r.choice(self.L0).src)
        if k == 5:
            return r.choice(["[]", "[\"Ab\", \"aB\"]", "[[1], [2, 3]]", "{a: 1}", "{}", "[true, false]"])
        if k == 6:
            return r.choice(["x => x", "(x, i) => i", "(a, x) => a + x", "x => x > 1", "x => \"k\"", "() => 1", "x => x(x)"])
        if k == 7:
            return r.choice(["true", "false", "null"])
        if k == 8:
            return r.choice(["abs", "typeof", "len", "uppercase", "to_string"])
        return r.choice(["1", "2", "0", "10", "100", "\"m\"", "\"km\"", "\", \""])     # numbers of level 0 only

    def programs(self, n):
        r = self.rng
        out = []
        num, st = self.num, self.strexpr

        def one():
            k = r.below(30)
            f, g = r.choice(LIBM), r.choice(LIBM)
            if k == 0:
                return num().src
            if k == 1:
                a, b = num(1), num(1)
                return "%s %s %s" % (a.src, r.choice(["+", "-", "*", "/", "<", ">=", "==", "%"]), b.src)
            if k == 2:
                return "%s(%s * 1000)" % (r.choice(["floor", "round", "trunc", "ceil", "abs", "sqrt"]), num().src)
            if k == 3:
                xs = [r.choice(self.L0) for _ in range(1 + r.below(4))]
                return "[%s] via %s" % (", ".join(e.src for e in xs), f)
            if k == 4:
                xs = [r.choice(self.L0) for _ in range(r.below(4))]
                return "map([%s], %s)" % (", ".join(e.src for e in xs), f)
            if k == 5:
                e = r.choice(self.L0)
                return "x = %s\n%s(x) + %s(x)\n[x into %s, %s(x)]" % (e.src, f, g, f, f)
            if k == 6:
                xs = [r.choice(self.L0[:40]) for _ in range(1 + r.below(3))]
                y = r.choice(self.L0[:40])
                self._query_powf([(e.val, y.val) for e in xs] + [(y.val, e.val) for e in xs])
                if r.chance(1, 2):
                    return "[%s] ^ %s" % (", ".join(e.src for e in xs), y.src)
                return "%s ^ [%s]" % (y.src, ", ".join(e.src for e in xs))
            if k == 7:
                return r.choice(["%s()", "%s(1, 2)", "%s(\"1\")", "%s([1])", "%s(null)", "%s(true)", "arity(%s)", "typeof(%s)", "%s"]) % f
            if k == 8:
                return st()
            if k == 9:
                return "len(%s) + len(%s)" % (st(), st())
            if k == 10:
                return "%s == %s" % (st(), st())
            if k == 11:
                if r.chance(1, 2):
                    return "[%s, %s] via %s" % (self.sq("  Q q "), self.sq("Ab"), r.choice(STRFN))
                return "split(%s, \" \")" % st()
            if k == 12:
                return r.choice(["%s()", "%s(1)", "%s(\"a\", \"b\")", "%s([\"a\"])", "%s(null)", "arity(%s)", "%s"]) % r.choice(STRFN)
            if k == 13:
                return "to_string(%s)" % self.anyval()
            if k == 14:
                return "join([%s, %s, %s], %s)" % (self.anyval(), self.anyval(), self.anyval(), self.sq(r.choice([", ", "", "-", "\u00b7"])))
            if k == 15:
                na = r.below(4)
                return "format(%s%s)" % (self.sq(r.choice(self.FMTS)), "".join(", " + self.anyval() for _ in range(na)))
            if k == 16:
                return r.choice(["format()", "format(1)", "format(null, 1)", "format([\"{}\"], 1)", "format(\"{}\", ...[1, 2])",
                                 "format(...[\"{}-{}\", 1, 2])", "[\"{}\"] via format", "\"{}!\" into format"])
            if k == 17:
                na = r.below(3)
                return "print(%s%s)" % (r.choice([self.sq(r.choice(self.FMTS)), self.anyval()]), "".join(", " + self.anyval() for _ in range(na)))
            if k == 18:
                return r.choice(["print()", "print(1, 2)", "print(null, \"x\")", "typeof(print(\"a\"))", "[1, 2] via print", "print(print(1))",
                                 "x = print(\"{}\", 2)\nx == null"])
            if k == 19:
                return r.choice(["typeof(time_now())", "time_now() > 1700000000", "time_now() < 1e11", "time_now(1)", "arity(time_now)",
                                 "floor(time_now() / 1e10)", "time_now() == (0/0)", "do { t = time_now()\n return t > 0 and t == t }", "[time_now] via arity",
                                 "to_string(time_now)", "time_now() >= %d" % int(_unbits(self.now_bits))])
            if k == 20:
                e = num(1)
                return "format(\"{} | {}\", %s, to_string(%s))" % (e.src, e.src)
            if k == 21:
                return "f = %s\nto_string(f)\njoin([f, f], \"|\")" % r.choice(self.LAMS)
            if k == 22:
                return "sort_by([%s, %s, %s], %s)" % (r.choice(self.L0).src, r.choice(self.L0).src, r.choice(self.L0).src, f)
            if k == 23:
                return "g = x => %s(x) * 2\ng(%s)" % (f, r.choice(self.L0).src)
            if k == 24:
                return "reduce([%s, %s], (a, x) => a + %s(x), 0)" % (r.choice(self.L0).src, r.choice(self.L0).src, f)
            if k == 25:
                return "filter([%s, %s, %s], x => %s(x) > 0)" % (r.choice(self.L0).src, r.choice(self.L0).src, r.choice(self.L0).src, f)
            if k == 26:
                return "group_by([%s, %s], %s)" % (self.sq("Ab"), self.sq("aB"), r.choice(STRFN))
            if k == 27:
                return "{v: %s, s: %s, t: to_string((%s))}" % (num().src, st(), r.choice(self.LAMS))
            if k == 28:
                return "if %s > %s then %s else %s" % (num(1).src, num(1).src, st(), "format(\"{}\", %s)" % num(1).src)
            return "output o = %s\no" % num().src
        for _ in range(n):
            out.append(one())
        return out

    # ---- tables as a Gallina definition
    def lam_table(self):
        """closed lambdas: (source, text of to_string) through the real evaluator"""
        srcs = list(self.LAMS)
        outs = rust_eval(self.h, ["to_string(%s)" % s for s in srcs], None)
        terms, _ = parse_to_coq(self.h, ["(%s)" % s for s in srcs])
        tab = []
        for s, o, t in zip(srcs, outs, terms):
            m = None
            if o.startswith("OK:S"):
                m = o[4:o.index(";")]
            if m is None or t is None or not t.startswith("[SExpr ("):
                continue
            tab.append((t[len("[SExpr ("):-2], m))
        self.lam = tab
        return tab

    def coq_tables(self):
        lid = {f: i for i, f in enumerate(LIBM)}
        sid = {f: i for i, f in enumerate(STRFN)}
        libm = "; ".join("(%d, 0x%016x, 0x%016x)" % (lid[f], b, r) for (f, b), r in sorted(self.libm.items()))
        powf = "; ".join("(0x%016x, 0x%016x, 0x%016x)" % (x, y, r) for (x, y), r in sorted(self.powf.items()))
        strs = "; ".join('(%d, hx "%s", hx "%s")' % (sid[f], c.hexs(s), c.hexs(r)) for (f, s), r in sorted(self.strt.items()))
        lam = "; ".join('(%s, hx "%s")' % (t, m) for t, m in self.lam_table())
        return ("Definition T : tables := {| t_libm := [%s]; t_powf := [%s]; t_str := [%s]; t_lam := [%s]; t_now := Some 0x%016x |}."
                % (libm, powf, strs, lam, self.now_bits))


def _mentions(src, name):
    import re as _re
    return _re.search(r"(?<![A-Za-z0-9_])%s(?![A-Za-z0-9_])" % name, src) is not None


def run_all_stream(h, rng, quick, res, cli=None, tag="all"):
    """ALL correspondence: model (EvalAll + table oracle) vs implementation.  Returns the stream's evidence dict."""
    g = AllGen(rng, h, quick)
    srcs = g.programs(900 if quick else 9000)
    # direct built-in x argument grid for the newly modelled built-ins (the BUILTIN-style cases)
    for b in NEWLY_MODELLED:
        # an oracle function is applied to level-0 arguments here: the tables hold every function on every level-0 value
        av = (lambda: g.anyval(0)) if b in LIBM + STRFN else g.anyval
        srcs.append("typeof(%s())" % b)
        for _ in range(6 if quick else 40):
            srcs.append("%s(%s)" % (b, av()))
            srcs.append("%s(%s, %s)" % (b, av(), av()))
        srcs.append("%s(%s, %s, %s)" % (b, av(), av(), av()))
    # C01V: percentile — its side condition is discharged from the validity invariant, so the nearest-rank index
    # `(p / 100 * (len - 1)).round() as usize` of the model is tied to the code here as well (C15 owns its laws):
    # literal lists of 1..7 numbers (incl. duplicates, negative, huge, tiny), p on and around the rank boundaries
    pct_pool = ["0", "1", "2", "0.5", "3.25", "10", "100", "-7", "1e300", "1e-300", "5e-324", "-0.0", "2.5", "1000"]
    pct_ps = ["0", "100", "50", "25", "75", "33.3", "66.7", "12.5", "99.9", "0.1", "49.999", "50.001", "-1", "100.5", "1e-300"]
    for _ in range(60 if quick else 600):
        n_ = 1 + rng.below(7)
        srcs.append("percentile([%s], %s)" % (", ".join(rng.choice(pct_pool) for _ in range(n_)), rng.choice(pct_ps)))
    srcs.append("percentile([], 50)")
    srcs.append("percentile([1, 0/0, 3], 50)")
    srcs.append("[3, 1, 2] into (l => percentile(l, 100))")
    defs = g.coq_tables()          # after programs(): the generator may have extended the tables
    inp = "[" + "; ".join('((hx "%s"), %s)' % (c.hexs(k), v.coq()) for k, v in DEFAULT_INPUTS.p) + "]"
    defs = "Definition INP : list (string * value) := %s.\n%s" % (inp, defs)
    coq, _ = parse_to_coq(h, srcs)
    idx = [i for i, p in enumerate(coq) if p is not None]
    # C01V: the same run, followed by "#V:<values checked>:<values passing valid_valueb>:<valid_prog && valid_inputs>"
    # (coq/ValidRun.v): the validity invariant of C01_program_no_panic_all observed on every value the model computes
    outs = c.coq_eval_batch(ALL_REQUIRES + ["Blots.Valid", "Blots.ValidRun"], defs,
                            ["(run_program_all_tab_v T INP %s)" % coq[i] for i in idx], tag, shard=120)
    model = [None] * len(srcs)
    v_checked, v_valid, v_hyp, v_bad = 0, 0, 0, []
    for i, o in zip(idx, outs):
        if o is not None and "#V:" in o:
            o, vt = o.rsplit("#V:", 1)
            try:
                n_, k_, h_ = [int(x) for x in vt.split(":")]
            except ValueError:
                n_, k_, h_ = 0, -1, 0
            v_checked += n_
            v_valid += max(k_, 0)
            v_hyp += h_
            if k_ != n_ or h_ != 1:
                v_bad.append((srcs[i], vt))
        model[i] = o
    rust = rust_eval(h, srcs)
    agree, mism, rejected, miss, unm, failed = 0, [], 0, 0, 0, 0
    reach = {b: 0 for b in NEWLY_MODELLED + ["^", "percentile"]}
    outcome = {}
    for s, r_, m_, cq in zip(srcs, rust, model, coq):
        if cq is None:
            rejected += 1
            continue
        if m_ is None:
            failed += 1
            continue
        if MISS_NUM in m_ or MISS_STR in m_:
            miss += 1
            continue
        if "UNMODELLED" in m_:
            unm += 1
            continue
        if r_ == m_:
            agree += 1
            for b in reach:
                if (b == "^" and "^" in s) or (b != "^" and _mentions(s, b)):
                    reach[b] += 1
            k = "ERR" if "ERR" in r_.split(";ENV:")[0].split("|")[-1] else "OK"
            outcome[k] = outcome.get(k, 0) + 1
        else:
            mism.append((s, r_, m_))
    if failed:
        res.tie_broken("correspondence C01/ALL: the model did not evaluate %d programs (coqc failed)" % failed)
    if unm:
        res.tie_broken("correspondence C01/ALL: the complete model answered Unmodelled on %d programs, contradicting "
                       "C01_program_never_unmodelled_all" % unm)
    if mism:
        res.tie_broken("correspondence C01/ALL: model (EvalAll + oracle tables) and implementation disagree on %d of %d programs"
                       % (len(mism), len(srcs)), "first: %r\nimpl : %s\nmodel: %s" % mism[0])
    if v_bad:
        res.tie_broken("correspondence C01/ALL-VALID: the validity invariant (coq/Valid.v) does not hold of a value the model computed, "
                       "or a parsed program / the inputs hold a non-canonical number literal, on %d of %d programs — contradicting "
                       "C01_program_no_panic_all / C01_table_oracle_valid" % (len(v_bad), len(idx)),
                       "first: %r  checked:valid:hypotheses = %s" % v_bad[0])
    ev = {"programs": len(srcs), "agree": agree, "mismatches": len(mism), "parser_rejected": rejected, "oracle_table_miss_skipped": miss,
          "validity_invariant": {"values_checked_valid_valueb(statement results + final environment, by vm_compute)": v_checked,
                                 "values_valid": v_valid, "programs_with_valid_prog_and_valid_inputs": v_hyp,
                                 "programs_violating": len(v_bad)},
          "unmodelled": unm, "programs_reaching_each_builtin(agreeing programs that mention it)": reach, "last_statement_outcome": outcome,
          "oracle_tables": {"libm": len(g.libm), "powf": len(g.powf), "str": len(g.strt), "lambda_text": len(g.lam)},
          "numeric_argument_pool": {"level0": len(g.L0), "level1": len(g.L1) + len(g.P1), "level2": len(g.L2) + len(g.P2)},
          "string_pool": len(g.S0)}
    # ---- PRINT: the line handed to eprintln! — model vs the harness mirror of the Print arm vs the real binary's stderr
    psrcs = []
    for _ in range(150 if quick else 1500):
        na = rng.below(4)
        first = rng.choice([g.sq(rng.choice(g.FMTS)), g.anyval()])
        psrcs.append("[%s%s]" % (first, "".join(", " + g.anyval() for _ in range(na))))
    psrcs = [p for p in psrcs if "time_now()" not in p]
    pdefs = "Definition INP : list (string * value) := %s.\n%s" % (inp, g.coq_tables())
    pcoq, _ = parse_to_coq(h, psrcs)
    pidx = [i for i, p in enumerate(pcoq) if p is not None]
    pouts = c.coq_eval_batch(ALL_REQUIRES, pdefs, ["(show_print T INP %s)" % pcoq[i] for i in pidx], tag + "p", shard=120)
    pmodel = [None] * len(psrcs)
    for i, o in zip(pidx, pouts):
        pmodel[i] = o
    pimpl = c.harness_lines_resilient(h, "all-print", [c.hexs(s) + "\t" + c.hexs(DEFAULT_INPUTS_JSON) for s in psrcs])
    pag, pmis, pmiss = 0, [], 0
    for s, a, b in zip(psrcs, pimpl, pmodel):
        if b is None:
            continue
        if MISS_STR in b or MISS_NUM in b:
            pmiss += 1
        elif a == b:
            pag += 1
        else:
            pmis.append((s, a, b))
    if pmis:
        res.tie_broken("correspondence C01/PRINT: model print_line and the implementation disagree on %d of %d argument lists"
                       % (len(pmis), len(psrcs)), "first: %r\nimpl : %s\nmodel: %s" % pmis[0])
    ev["PRINT"] = {"argument_lists": len(psrcs), "agree": pag, "mismatches": len(pmis), "oracle_table_miss_skipped": pmiss,
                   "ok_lines": sum(1 for a in pimpl if a.startswith("OK:"))}
    if cli is not None:
        import subprocess as _sp, tempfile as _tf, os as _os
        okp = [(s, a) for s, a in zip(psrcs, pimpl) if a.startswith("OK:") and b"\n" not in bytes.fromhex(a[3:])][: (60 if quick else 400)]
        text = "\n".join("print(%s)" % s[1:-1] for s, _ in okp) + "\n"
        fd, path = _tf.mkstemp(prefix="xall_", suffix=".blots")
        with _os.fdopen(fd, "wb") as f:
            f.write(text.encode("utf-8"))
        try:
            p = _sp.run([cli, path, "-i", DEFAULT_INPUTS_JSON], stdin=_sp.DEVNULL, stdout=_sp.PIPE, stderr=_sp.PIPE, timeout=120)
            lines = p.stderr.decode("utf-8", "replace").split("\n")
            if lines and lines[-1] == "":
                lines.pop()
            exp = [bytes.fromhex(a[3:]).decode("utf-8") for _, a in okp]
            bad = [(s, e, l) for (s, _), e, l in zip(okp, exp, lines) if e != l]
            if p.returncode != 0 or len(lines) != len(exp) or bad:
                res.tie_broken("correspondence C01/PRINT-cli: stderr of the real binary differs from the mirrored Print arm",
                               "exit %s, %d lines for %d prints; first difference: %r" % (p.returncode, len(lines), len(exp), bad[:1]))
            ev["PRINT"]["real_binary_stderr_lines_compared"] = len(exp)
            ev["PRINT"]["real_binary_stderr_equal"] = (p.returncode == 0 and len(lines) == len(exp) and not bad)
        finally:
            _os.remove(path)
    # ---- DIRECT: BuiltInFunction::call WITHOUT the arity check (every built-in x argument vectors of length
    #      0 .. max arity + 1): the model's explicit Panic arms and the order of args[i] / type checks in each arm
    dump = c.harness_oneshot(h, "dump-builtins").strip().split("\n")
    dcases = []
    for ln in dump:
        nm, kind, a, b = ln.split("\t")[:4]
        hi = int(a) if kind != "between" else int(b)
        hi = max(hi, 1) + 1
        for n in range(0, hi + 1):
            for _ in range(1 if n == 0 else (3 if quick else 12)):
                dcases.append((nm, "[%s]" % ", ".join(g.direct_arg(nm) for _ in range(n))))
    ddefs = "Definition INP : list (string * value) := %s.\n%s" % (inp, g.coq_tables())
    dcoq, _ = parse_to_coq(h, [s_ for _, s_ in dcases])
    didx = [i for i, p in enumerate(dcoq) if p is not None]
    douts = c.coq_eval_batch(ALL_REQUIRES, ddefs, ["(show_direct T INP B_%s %s)" % (dcases[i][0], dcoq[i]) for i in didx],
                             tag + "d", shard=120)
    dmodel = [None] * len(dcases)
    for i, o in zip(didx, douts):
        dmodel[i] = o
    dimpl = c.harness_lines_resilient(h, "all-direct", ["%s\t%s\t%s" % (nm, c.hexs(s_), c.hexs(DEFAULT_INPUTS_JSON)) for nm, s_ in dcases])
    dag, dmis, dmiss, dpanic, dkinds = 0, [], 0, 0, {}
    for (nm, s_), a, b in zip(dcases, dimpl, dmodel):
        if b is None:
            continue
        a = "PANIC" if a.startswith("PANIC") else a
        if nm == "time_now" and a.startswith("OK:N") and b.startswith("OK:N"):
            a = b                      # the clock moved on between the two runs
        if MISS_STR in b or MISS_NUM in b:
            dmiss += 1
        elif a == b:
            dag += 1
            dpanic += a == "PANIC"
            k = a.split(":")[0]
            dkinds[k] = dkinds.get(k, 0) + 1
        else:
            dmis.append(("%s %s" % (nm, s_), a, b))
    if dmis:
        res.tie_broken("correspondence C01/DIRECT: BuiltInFunction::call without the arity check — model and implementation "
                       "disagree on %d of %d argument vectors" % (len(dmis), len(dcases)), "first: %r\nimpl : %s\nmodel: %s" % dmis[0])
    ev["DIRECT"] = {"argument_vectors": len(dcases), "agree": dag, "mismatches": len(dmis), "oracle_table_miss_skipped": dmiss,
                    "agreeing_outcomes": dkinds, "panics_agreed(model Panic arm = Rust panic)": dpanic}
    res.coverage["traces_validated_against_impl"] = res.coverage.get("traces_validated_against_impl", 0) + agree + pag + dag
    return ev
