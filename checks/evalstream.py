"""EVAL correspondence: the same program text is (a) parsed by the real parser into an AST that
is printed in Gallina syntax (harness `parse`), evaluated by the model evaluator (coq/Eval.v,
vm_compute) and (b) evaluated by the real evaluator (harness `eval`); the two canonical result
lines (per-statement outcomes + final root bindings) are compared."""
import json

import common as c
from gen_values import N, S, L, R, V

# serde_json::Map is a BTreeMap here (no preserve_order): keys arrive sorted by bytes
DEFAULT_INPUTS = R(("l", L(N(1), N(2), N(3))), ("n", N(5)), ("s", S("str")))
DEFAULT_INPUTS_JSON = json.dumps({"n": 5, "s": "str", "l": [1, 2, 3]})

REQUIRES = ["Blots.Num", "Blots.gen.Builtins", "Blots.Ast", "Blots.Value", "Blots.Outcome", "Blots.Env",
            "Blots.Eval", "Blots.Program", "Blots.EvalInst", "Blots.EvalFull"]


def parse_to_coq(h, srcs):
    """list of program sources -> list of Gallina `list stmt` terms (None = parser rejected)."""
    outs = c.harness_lines_resilient(h, "parse", [c.hexs(s) for s in srcs])
    res = []
    for o in outs:
        if o in ("REJECT", "GLUEERR", "BADUTF8") or o.startswith("PANIC") or o.startswith("ABORT"):
            res.append(None)
            continue
        items = []
        ok = True
        for part in (o.split(" ;; ") if o else []):
            if part.startswith("E "):
                items.append("SExpr (%s)" % part[2:])
            elif part.startswith("O "):
                items.append("SOut (%s)" % part[2:])
            elif part.startswith("C "):
                items.append("SComment")
            else:
                ok = False
        res.append("[" + "; ".join(items) + "]" if ok else None)
    return res, outs


def rust_eval(h, srcs, inputs_json=DEFAULT_INPUTS_JSON):
    lines = [c.hexs(s) + ("\t" + c.hexs(inputs_json) if inputs_json is not None else "") for s in srcs]
    return c.harness_lines_resilient(h, "eval", lines)


def model_eval(coq_progs, inputs=DEFAULT_INPUTS, tag="eval", fn="run_program_full"):
    """coq_progs: list of Gallina terms (or None).  Returns list of result strings / None."""
    inp = "[" + "; ".join('((hx "%s"), %s)' % (c.hexs(k), v.coq()) for k, v in inputs.p) + "]" if inputs else "[]"
    idx = [i for i, p in enumerate(coq_progs) if p is not None]
    exprs = ["(%s INP %s)" % (fn, coq_progs[i]) for i in idx]
    outs = c.coq_eval_batch(REQUIRES, "Definition INP : list (string * value) := %s." % inp, exprs, tag, shard=250)
    res = [None] * len(coq_progs)
    for i, o in zip(idx, outs):
        res[i] = o
    return res


def compare(srcs, rust, model):
    """-> (agree, mismatches[(i, rust, model)], skipped_unmodelled, rejected)"""
    agree, mism, skipped, rejected = 0, [], 0, 0
    for i, (r, m) in enumerate(zip(rust, model)):
        if m is None:
            rejected += 1
            continue
        if "UNMODELLED" in m:
            skipped += 1
            continue
        if r == m:
            agree += 1
        else:
            mism.append((i, r, m))
    return agree, mism, skipped, rejected
