"""Input generators for the C01 crash search.  Every random choice derives from one c.Rng.

  (a) WildGen      grammar-based source text over the WHOLE surface syntax (every operator, every
                   built-in name, lambdas with optional / rest parameters, records with dynamic /
                   shorthand / spread keys, do-blocks, comments in every position the grammar allows,
                   number literals in every radix / separator / exponent form), expression nesting
                   up to 64 by construction (nesting budget is threaded through every production);
                   plus the typed generator of gen_programs.py (programs that evaluate deep).
  (b) corpus_mutations   token deletion / duplication / swap / splice over the repository's own
                   examples, benches and test sources.
  (c) raw_text     random valid UTF-8 (all planes, controls, BOM, combining, RTL) and token soup.
  (d) builtin_tuples     every built-in x argument tuples from the boundary pool of the property.
  JSON documents incl. {"__blots_function": ...} objects: json_inputs.
"""
import glob
import json
import os
import re

import gen_programs as gp

# ------------------------------------------------------------------ vocabulary
BINOPS = ["+", "-", "*", "/", "%", "^", "==", "!=", "<", "<=", ">", ">=", ".==", ".!=", ".<", ".<=", ".>", ".>=",
          "&&", "||", "??"]
NATOPS = ["and", "or", "via", "into", "where"]
NUM_LITS = ["0", "1", "2", "3", "10", "-1", "0.5", "2.5", "1e3", "1E-3", "1_000", "0x1F", "0b101", "-0x10", "+5",
            "1e308", "1e-320", "9007199254740992", "1e30", ".5", "100", "7", "255", "1e15", "0xFFFFFFFF",
            "9223372036854775807", "12345678901234567890", "0.1", "1e400", "0b1_0", "0x_1"]
# integer-valued literals between 1e7 and 2^64: their factorial loops that many times
BIG_LITS = ["1e15", "9007199254740992", "0xFFFFFFFF", "9223372036854775807", "12345678901234567890", "1e308", "1e30", "1e400"]
STR_LITS = ['""', "''", '"a"', "'b'", '"héllo"', '"日本語"', '"a b"', "'it\"s'", '"{}"', '"{} and {}"', '"{0}"', '"{"',
            '"}"', '"{{}}"', '"km"', '"c"', '"1"', '" 12 "', '"1e5"', '"nan"', '"inf"', '"\t"', '"🙂"', '"e\u0301"',
            '"//x"', '"a,b,,c"']
IDENTS = ["a", "b", "c", "x", "y", "z", "n", "f", "g", "acc", "item", "_", "_1", "x1", "iffy", "android", "trueish",
          "nullable", "do_it", "returned", "outputs", "inputs", "constants", "inf", "infinity", "note", "via_x"]
COMMENTS = ["// c", "//", "// x = 1", "// 日本", "// }", "// ]"]


def load_builtin_names(harness_dump):
    return [l.split("\t")[0] for l in harness_dump.strip().split("\n")]


class WildGen:
    """Grammar-directed text generator.  `budget` = remaining expression nesting."""

    def __init__(self, rng, builtins, max_nesting=64):
        self.r = rng
        self.builtins = builtins
        self.max_nesting = max_nesting
        self.stats = {}

    def note(self, k):
        self.stats[k] = self.stats.get(k, 0) + 1

    def ws(self):
        return self.r.choice([" ", " ", " ", "", "  ", "\t"])

    def nl(self):
        return self.r.choice(["\n", "\n", "\r\n", "\n\n", " // c\n", "\n  "])

    def ident(self):
        r = self.r
        if r.chance(1, 6):
            return r.choice(self.builtins)
        return r.choice(IDENTS)

    def atom(self):
        r = self.r
        k = r.below(10)
        if k <= 2:
            return r.choice(NUM_LITS)
        if k == 3:
            return r.choice(STR_LITS)
        if k == 4:
            return r.choice(["true", "false", "null"])
        if k == 5:
            return "#" + r.choice(["n", "s", "l", "f", "missing", "_x"])
        if k == 6:
            return r.choice(self.builtins)
        if k == 7:
            return r.choice(["[]", "{}", "inf", "constants", "inputs", "constants.pi"])
        return r.choice(IDENTS)

    def args_list(self):
        r = self.r
        k = r.below(8)
        if k == 0:
            return r.choice(IDENTS)
        names = r.shuffle(["x", "y", "z", "rest", "acc", "i"])[: r.below(4)]
        out = []
        for i, n in enumerate(names):
            m = r.below(6)
            out.append(n + "?" if m == 0 else "..." + n if m == 1 else n)
        return "(" + ", ".join(out) + ")"

    def expr(self, budget, size):
        """an expression of nesting <= budget; `size` bounds the breadth"""
        r = self.r
        if budget <= 1 or size <= 0:
            return self.atom()
        b = budget - 1
        k = r.below(30)
        if k <= 3:
            return self.atom()
        if k <= 7:
            self.note("binop")
            op = r.choice(BINOPS)
            sp = self.ws()
            return "%s%s%s%s%s" % (self.expr(b, size // 2), sp, op, sp, self.expr(b, size // 2))
        if k <= 9:
            self.note("natop")
            return "%s %s %s" % (self.expr(b, size // 2), r.choice(NATOPS), self.expr(b, size // 2))
        if k == 10:
            self.note("prefix")
            return r.choice(["-", "!", "not ", "-", "- "]) + self.expr(b, size - 1)
        if k == 11:
            self.note("paren")
            return "(" + self.ws() + self.expr(b, size - 1) + self.ws() + ")"
        if k == 12:
            self.note("factorial")
            return self.small_for_fact(b) + "!"
        if k <= 14:
            self.note("call")
            n = r.below(4)
            f = r.choice(self.builtins) if r.chance(2, 3) else self.postfixable(b, size // 2)
            args = [("..." if r.chance(1, 10) else "") + self.expr(b, size // (n + 1)) for _ in range(n)]
            return "%s(%s)" % (f, ", ".join(args))
        if k == 15:
            self.note("access")
            return "%s[%s]" % (self.postfixable(b, size // 2), self.expr(b, size // 2))
        if k == 16:
            self.note("dot")
            return "%s.%s" % (self.postfixable(b, size - 1), r.choice(["a", "k", "pi", "len", "x1"]))
        if k <= 18:
            self.note("list")
            n = r.below(4)
            items = [("..." if r.chance(1, 8) else "") + self.expr(b, size // (n + 1)) for _ in range(n)]
            if r.chance(1, 8) and items:
                return "[\n  " + ",\n  ".join(i + (" // c" if r.chance(1, 3) else "") for i in items) + "\n]"
            return "[" + ", ".join(items) + ("," if items and r.chance(1, 10) else "") + "]"
        if k <= 20:
            self.note("record")
            n = r.below(4)
            items = []
            for _ in range(n):
                m = r.below(6)
                if m == 0:
                    items.append(r.choice(IDENTS))
                elif m == 1:
                    items.append("..." + self.expr(b, size // (n + 1)))
                elif m == 2:
                    items.append("[%s]: %s" % (self.expr(b, size // (2 * n + 2)), self.expr(b, size // (2 * n + 2))))
                elif m == 3:
                    items.append("%s: %s" % (r.choice(STR_LITS), self.expr(b, size // (n + 1))))
                else:
                    items.append("%s: %s" % (r.choice(IDENTS), self.expr(b, size // (n + 1))))
            if r.chance(1, 8) and items:
                return "{\n  " + ",\n  ".join(items) + "\n}"
            return "{" + ", ".join(items) + "}"
        if k <= 22:
            self.note("lambda")
            return "%s%s=>%s%s" % (self.args_list(), self.ws(), self.ws(), self.expr(b, size - 1))
        if k == 23:
            self.note("conditional")
            return "if %s then %s else %s" % (self.expr(b, size // 3), self.expr(b, size // 3), self.expr(b, size // 3))
        if k == 24:
            self.note("do")
            n = r.below(3)
            lines = []
            for _ in range(n):
                m = r.below(5)
                if m == 0:
                    lines.append(r.choice(COMMENTS))
                elif m == 1:
                    lines.append(self.expr(b, size // (n + 2)))
                else:
                    lines.append("%s = %s" % (r.choice(IDENTS), self.expr(b, size // (n + 2))) +
                                 (" // c" if r.chance(1, 6) else ""))
            sep = r.choice(["\n  ", "\n", "; ", "\n\n  "])
            body = "".join(l + (sep if not l.startswith("//") or "\n" in sep else "\n") for l in lines)
            return "do {\n  %sreturn %s\n}" % (body, self.expr(b, size // (n + 2)))
        if k == 25:
            self.note("assign")
            return "%s = %s" % (self.ident(), self.expr(b, size - 1))
        if k == 26:
            self.note("iife")
            return "(%s => %s)(%s)" % (r.choice(IDENTS), self.expr(b - 1, size // 2), self.expr(b, size // 2))
        if k == 27:
            self.note("multiline-binop")
            return "%s\n  %s %s" % (self.expr(b, size // 2), r.choice(BINOPS + NATOPS), self.expr(b, size // 2))
        return self.atom()

    def small_for_fact(self, b):
        return self.r.choice(["0", "1", "5", "20", "170", "171", "(-1)", "2.5", "x", "n", '"a"', "(3)", "[3, 4]", "null"])

    def postfixable(self, b, size):
        r = self.r
        k = r.below(5)
        if k == 0:
            return "(" + self.expr(b, size) + ")"
        if k == 1:
            return r.choice(IDENTS)
        if k == 2:
            return r.choice(["[1, 2, 3]", '"héllo"', "{a: 1}", "[[1], [2]]", "inputs"])
        if k == 3:
            return r.choice(self.builtins)
        return r.choice(IDENTS)

    def deep(self, depth):
        """a chain nested `depth` deep of one shape (or a mix), around an atom"""
        r = self.r
        shapes = [
            lambda e: "(" + e + ")",
            lambda e: "[" + e + "]",
            lambda e: "{a: " + e + "}",
            lambda e: "-" + e,
            lambda e: "!" + e,
            lambda e: "not " + e,
            lambda e: "1 + " + e,
            lambda e: e + " + 1",
            lambda e: "2 ^ " + e,
            lambda e: "x => " + e,
            lambda e: "f(" + e + ")",
            lambda e: "abs(" + e + ")",
            lambda e: "if true then " + e + " else 0",
            lambda e: "if " + e + " then 1 else 0",
            lambda e: "do { return " + e + " }",
            lambda e: e + "[0]",
            lambda e: e + ".a",
            lambda e: e + "(1)",
            lambda e: e + "!",
            lambda e: "a = " + e,
            lambda e: "[..." + e + "]",
            lambda e: "{[" + e + "]: 1}",
            lambda e: "null ?? " + e,
            lambda e: e + " via (q => q)",
            lambda e: "(" + e + " into (q => q))",
        ]
        # shapes whose formatting cost doubles per level while the known finding
        # `formatter-exponential` is open (see known/C01.json): used at most 9 times in a chain then
        slow = (9, 13)
        mode = r.below(3)
        one_i = r.below(len(shapes))
        e = self.atom()
        used_slow = 0
        for _ in range(depth):
            i = one_i if mode == 0 else r.below(len(shapes))
            if i in slow and getattr(self, "avoid_slow", False):
                used_slow += 1
                if used_slow > 9:
                    i = 0
            if i == 18 and e.strip("() -+") in BIG_LITS:
                i = 0           # (big literal)! is an n-iteration loop: resource class, not generated
            e = shapes[i](e)
        self.note("deep")
        return e

    def statement(self):
        r = self.r
        k = r.below(16)
        if k == 0:
            return r.choice(COMMENTS)
        if k == 1:
            return "output %s" % r.choice(IDENTS)
        if k == 2:
            return "output %s = %s" % (r.choice(IDENTS), self.expr(6, 12))
        if k <= 6:
            return "%s = %s" % (r.choice(IDENTS), self.expr(2 + r.below(7), 16))
        if k == 7:
            d = r.choice([8, 16, 32, 48, 60, self.max_nesting - 2])
            return self.deep(d)
        if k == 8:
            return self.expr(2 + r.below(self.max_nesting - 2), 24)
        e = self.expr(2 + r.below(8), 20)
        if r.chance(1, 8):
            e += " " + r.choice(COMMENTS)
        return e

    def program(self):
        n = 1 + self.r.below(6)
        return "".join(self.statement() + (self.nl() if i < n - 1 or self.r.chance(1, 2) else "") for i in range(n))


def typed_program(rng, nst=None):
    g = gp.Gen(rng, allow_fail=True, max_depth=3)
    return "\n".join(g.program(nst or (2 + rng.below(6))))


# ------------------------------------------------------------------ (b) corpus + mutation
TOKEN_RE = re.compile(
    r"//[^\n]*|\"[^\"\n]*\"|'[^'\n]*'|0x[0-9a-fA-F_]+|0b[01_]+|\d[\d_]*(?:\.\d+)?(?:[eE][+-]?\d+)?|#?[A-Za-z_][A-Za-z0-9_]*"
    r"|\.\.\.|=>|\.==|\.!=|\.<=|\.>=|\.<|\.>|==|!=|<=|>=|&&|\|\||\?\?|\r\n|\n|[ \t]+|.", re.S)


def tokenize(s):
    return TOKEN_RE.findall(s)


def load_corpus(repo):
    """Blots sources found in the repository: example / bench files and the string literals of the
    Rust test suites that parse as programs are kept verbatim (no filtering by the real parser here)."""
    texts = []
    for pat in ("examples/*.blots", "benches/*.blots", "blots/tests/**/*.blots", "**/*.blots"):
        for p in sorted(glob.glob(os.path.join(repo, pat), recursive=True)):
            if "/target/" in p or "/node_modules/" in p:
                continue
            try:
                t = open(p, encoding="utf-8").read()
            except (OSError, UnicodeDecodeError):
                continue
            if "/benches/" in p:
                # the benchmark programs are heavy by design; their sizes are scaled down
                t = re.sub(r"\b\d{4,}\b", "40", t)
            if t not in texts:
                texts.append(t)
    lit = re.compile(r'r#"(.*?)"#|"((?:[^"\\\n]|\\.)*)"', re.S)
    for p in sorted(glob.glob(os.path.join(repo, "blots-core/src/*.rs")) + glob.glob(os.path.join(repo, "blots/tests/*.rs"))
                    + glob.glob(os.path.join(repo, "blots-wasm/src/*.rs"))):
        try:
            src = open(p, encoding="utf-8").read()
        except (OSError, UnicodeDecodeError):
            continue
        i = src.find("#[cfg(test)]")
        body = src[i:] if i >= 0 and not p.endswith("tests.rs") else src
        if not (p.endswith("tests.rs") or i >= 0 or "/tests/" in p):
            continue
        for m in lit.finditer(body):
            s = m.group(1) if m.group(1) is not None else m.group(2)
            if s is None or len(s) < 3 or len(s) > 3000:
                continue
            if m.group(1) is None:
                s = s.replace('\\n', "\n").replace('\\"', '"').replace("\\t", "\t").replace("\\\\", "\\")
            if re.search(r"[=(\[{+*]|=>| via | if |do ", s) and not s.startswith("expected") and "{:?}" not in s:
                if s not in texts:
                    texts.append(s)
    return texts


def nesting_measure(s):
    """A cheap OVER-approximation of the expression nesting of a text: bracket depth plus the
    longest run of prefix operators plus the number of right-nesting constructs on one statement.
    Used only to decide whether a stack overflow is inside the property's bound (<= 64)."""
    depth = best = 0
    for ch in s:
        if ch in "([{":
            depth += 1
            best = max(best, depth)
        elif ch in ")]}":
            depth = max(0, depth - 1)
    run = longest = 0
    for t in tokenize(s):
        if t in ("-", "!", "not", "+"):
            run += 1
            longest = max(longest, run)
        elif t.strip() == "":
            continue
        else:
            run = 0
    per_stmt = 0
    for line in re.split(r"\n(?=\S)", s):
        per_stmt = max(per_stmt, len(re.findall(r"=>|\bthen\b|\belse\b|\^|\?\?|=(?!=)|\bdo\b", line)))
    ops = max((len(re.findall(r"[-+*/%<>]|\band\b|\bor\b|\bvia\b|\bwhere\b|\binto\b", line)) for line in s.split("\n")),
              default=0)
    return best + longest + per_stmt + ops // 4


def mutate(rng, text, other=None):
    toks = tokenize(text)
    if not toks:
        return text
    n = 1 + rng.below(4)
    for _ in range(n):
        if not toks:
            break
        k = rng.below(9)
        i = rng.below(len(toks))
        if k == 0:
            del toks[i]
        elif k == 1:
            toks.insert(i, toks[i])
        elif k == 2:
            j = rng.below(len(toks))
            toks[i], toks[j] = toks[j], toks[i]
        elif k == 3 and other:
            ot = tokenize(other)
            if ot:
                a = rng.below(len(ot))
                b = min(len(ot), a + 1 + rng.below(12))
                toks[i:i] = ot[a:b]
        elif k == 4:
            toks[i] = rng.choice(["(", ")", "[", "]", "{", "}", ",", "=>", "=", "...", "!", "-", ".", ":", "\n", ";", "//",
                                  "\"", "'", "#", "?", "do", "return", "if", "then", "else", "output", "and", "not",
                                  "0x", "1e", "é", "\u200b", "\ufeff", "\r", "\x00"])
        elif k == 5:
            j = min(len(toks), i + 1 + rng.below(6))
            del toks[i:j]
        elif k == 6:
            # duplicate a short run a few times (bounded, so nesting stays moderate)
            j = min(len(toks), i + 1 + rng.below(3))
            toks[i:i] = toks[i:j] * (1 + rng.below(6))
        elif k == 7:
            toks[i] = rng.choice(NUM_LITS + STR_LITS + IDENTS)
        else:
            toks = toks[:i]
    return "".join(toks)[:6000]


# ------------------------------------------------------------------ (c) raw text
def random_codepoint(rng):
    k = rng.below(20)
    if k < 8:
        return 0x20 + rng.below(0x5f)
    if k < 10:
        return rng.choice([0x09, 0x0a, 0x0d, 0x00, 0x1b, 0x7f, 0x0b, 0x0c])
    if k < 12:
        return 0x80 + rng.below(0x780)
    if k < 14:
        c = 0x800 + rng.below(0xF800)
        return c if not (0xD800 <= c <= 0xDFFF) else 0x4E2D
    if k < 15:
        return 0x10000 + rng.below(0x100000)
    if k < 16:
        return rng.choice([0xFEFF, 0x200B, 0x200D, 0x202E, 0x0301, 0x2028, 0x2029, 0xFFFD, 0x1F642, 0xFFFF, 0x10FFFF])
    return ord(rng.choice("()[]{}=>,.:;!#?\"'/\\-+*%^<>&|_"))


SOUP = BINOPS + NATOPS + ["(", ")", "[", "]", "{", "}", ",", ":", ";", "=>", "=", "...", "!", "-", ".", "\n", " ", " ", " ",
                          "//", "\"", "'", "#", "?", "do", "return", "if", "then", "else", "output", "not", "true", "false",
                          "null"] + NUM_LITS + STR_LITS + IDENTS


def raw_text(rng, builtins):
    k = rng.below(4)
    n = rng.choice([0, 1, 2, 3, 8, 20, 60, 200, 800, 2500])
    if k == 0:
        return "".join(chr(random_codepoint(rng)) for _ in range(n))
    if k == 1:
        return "".join(rng.choice(SOUP + builtins[:8]) + rng.choice(["", " ", " "]) for _ in range(min(n, 400)))
    if k == 2:
        # valid-looking program with raw characters sprinkled in
        base = typed_program(rng)
        out = list(base)
        for _ in range(1 + rng.below(5)):
            out.insert(rng.below(len(out) + 1), chr(random_codepoint(rng)))
        return "".join(out)
    return "".join(rng.choice([chr(random_codepoint(rng)), rng.choice(SOUP)]) for _ in range(min(n, 600)))


# ------------------------------------------------------------------ (d) built-ins x boundary pool
# the boundary pool of the property, as source text (each evaluates to the value named)
POOL = [
    ("nan", "(0/0)"), ("+inf", "inf"), ("-inf", "(-inf)"), ("+0", "0"), ("-0", "(-0)"), ("2^53", "9007199254740992"),
    ("1e30", "1e30"), ("-5", "(-5)"), ("-1e30", "(-1e30)"), ("0.5", "0.5"), ("-2.5", "(-2.5)"), ("1", "1"), ("3", "3"),
    ("100", "100"), ("u64max", "18446744073709551616"), ("tiny", "5e-324"),
    # display-notation thresholds and values whose rounding to 15 significant digits carries into a new digit
    ("carry15", "999999999999999.5"), ("-carry15", "(-999999999999999.875)"), ("below1e15", "999999999999998.9"),
    ("1e15", "1e15"), ("carry-frac", "99999.99999999999"), ("1e-4", "0.0001"), ("below1e-4", "0.00009999999999999999"),
    ("carry-small", "0.9999999999999999"), ("neg3digits", "(-123.45)"), ("max", "1.7976931348623157e308"),
    ("empty-str", '""'), ("non-ascii", '"héllo→🙂"'), ("str", '"abc"'), ("braces", '"{} {} {}"'), ("numstr", '"12"'),
    ("unit", '"km"'),
    ("long-nan-list", "[2, 3, 1, 0, 3, 1, 0/0, 1, 0/0, 2, 3, 0, 2, 1, 0/0, 0/0, 2, 1, 0, 2, 3, 7, 0/0, 1]"),
    ("long-hetero", '[2, "a", 1, null, 3, "b", true, 1, [1], 2, {k: 1}, 0, "c", 1, null, false, 2, "a", 0, 2, 3, [2], "z", 1]'),
    ("empty-list", "[]"), ("nums", "[3, 1, 2]"), ("nested", "[[1], [2, [3]]]"), ("hetero", '[1, "a", null, true, [2], {k: 1}]'),
    ("nan-list", "[0/0, 1, inf]"), ("strs", '["b", "a", "é"]'), ("bools", "[true, false]"),
    ("empty-rec", "{}"), ("rec", '{a: 1, "b c": [2], "é": null}'),
    ("lam1", "(x => x)"), ("lam2", "((a, b) => a)"), ("lam-opt", "((a, b?) => b)"), ("lam-rest", "((...r) => r)"),
    ("lam-str", '(x => "k")'), ("lam-err", "(x => x + nope)"), ("lam-bool", "(x => true)"), ("lam0", "(() => 1)"),
    ("builtin", "sum"), ("builtin-hof", "map"), ("true", "true"), ("null", "null"),
]
# the 24 values used for exhaustive 2-tuples in the quick tier
POOL_CORE = ["nan", "+inf", "-inf", "+0", "-0", "2^53", "1e30", "-5", "0.5", "3", "empty-str", "non-ascii", "braces",
             "empty-list", "nums", "nested", "hetero", "nan-list", "empty-rec", "rec", "lam1", "lam2", "builtin", "null"]


def pool(names=None):
    d = dict(POOL)
    return [(n, d[n]) for n in (names or [p[0] for p in POOL])]


def builtin_tuples(rng, builtins, arities, tier):
    """yield (label, source).  arities: name -> (kind, a, b)."""
    full = pool()
    core = pool(POOL_CORE)
    out = []
    for b in builtins:
        if b == "time_now":
            out.append(("time_now/0", "time_now()"))
        out.append((b + "/0", "%s()" % b))
        for n, s in full:
            out.append(("%s/1:%s" % (b, n), "%s(%s)" % (b, s)))
        kind, lo, hi = arities[b]
        maxar = hi if kind != "atleast" else lo + 2
        # arity -1 .. +2 around the accepted range: 2-tuples always (all built-ins), 3-tuples for those
        # that can take 3 (or reject 3: still run, sampled), 4-tuples sampled
        for (n1, s1) in core:
            for (n2, s2) in core:
                out.append(("%s/2:%s,%s" % (b, n1, n2), "%s(%s, %s)" % (b, s1, s2)))
        if maxar >= 3 or kind == "atleast":
            if tier == "thorough":
                for (n1, s1) in core:
                    for (n2, s2) in core:
                        for (n3, s3) in core:
                            out.append(("%s/3:%s,%s,%s" % (b, n1, n2, n3), "%s(%s, %s, %s)" % (b, s1, s2, s3)))
            else:
                for _ in range(700):
                    (n1, s1), (n2, s2), (n3, s3) = rng.choice(full), rng.choice(full), rng.choice(full)
                    out.append(("%s/3:%s,%s,%s" % (b, n1, n2, n3), "%s(%s, %s, %s)" % (b, s1, s2, s3)))
        else:
            for _ in range(12 if tier == "quick" else 200):
                (n1, s1), (n2, s2), (n3, s3) = rng.choice(full), rng.choice(full), rng.choice(full)
                out.append(("%s/3:%s,%s,%s" % (b, n1, n2, n3), "%s(%s, %s, %s)" % (b, s1, s2, s3)))
        for _ in range(6 if tier == "quick" else 100):
            t = [rng.choice(full) for _ in range(4 + rng.below(2))]
            out.append(("%s/%d:%s" % (b, len(t), ",".join(x[0] for x in t)), "%s(%s)" % (b, ", ".join(x[1] for x in t))))
        # spread arguments and the operator forms that reach the same call path
        for n, s in core:
            out.append(("%s/spread:%s" % (b, n), "%s(...%s)" % (b, s)))
            out.append(("%s/via:%s" % (b, n), "%s via %s" % (s, b)))
            out.append(("%s/into:%s" % (b, n), "%s into %s" % (s, b)))
            out.append(("%s/where:%s" % (b, n), "%s where %s" % (s, b)))
    return out


def operator_tuples():
    """every binary / unary / postfix operator and every indexing form x pool pairs"""
    core = pool(POOL_CORE)
    out = []
    for op in BINOPS + NATOPS:
        for n1, s1 in core:
            for n2, s2 in core:
                out.append(("op %s:%s,%s" % (op, n1, n2), "%s %s %s" % (s1, op, s2)))
    for n1, s1 in pool():
        for form in ("-%s", "!%s", "not %s", "%s!", "[...%s]", "{...%s}", "%s.a", "%s[0]", "%s[-1]", "%s[0/0]", "%s[inf]",
                     '%s["a"]', "%s()", "{[%s]: 1}", "if %s then 1 else 2", "do { q = %s\n return q }", "output o = %s",
                     "(x => x)(...%s)", "%s[9007199254740992]", "%s[-9007199254740992]", "%s[1e30]", "%s[0.5]"):
            if form == "%s!" and n1 in ("2^53", "u64max-guard"):
                continue        # (2^53)! is a 9e15-iteration loop: resource class, not run
            out.append(("form %s:%s" % (form, n1), form % s1))
    return out


# ------------------------------------------------------------------ JSON inputs
FUNC_SOURCES = [
    "(x) => x + 1", "x => x", "(a, b) => a * b", "(a, b?) => b", "(...r) => r", "() => 1", "(x) => x + nope",
    "(x) => nope", "(x) => x.a.b", "(x) => x(1)", "(x) => [x, ...x]", "(x) => {a: x, [x]: 1}", "(x) => do { y = x\n return y + zz }",
    "(x) => if x then 1 else qq", "(x) => x!", "(x) => -x", "(x) => (y => y + x + free)", "(x) => inputs.f(x)", "(x) => #k",
    "(x) => \"héllo\" + x", "(x) => 'a\"b'", "(x) => x via sum", "(x, x) => x", "(inputs) => inputs", "(sum) => sum",
    # malformed / non-lambda / several statements / comments
    "", " ", "x", "1 + 2", "x = 3", "f = x => x", "// c", "output x = 1", "x => x\ny => y", "x => ", "(x => x", "=> 1",
    "x => x // trailing", "(x) => x +", "((x) => x)", "\n(x) => x", "(x) =>\n x", "(x)=>x", "(é) => 1", "(x) => \u200b",
    "(x) => 1e400", "(x) => 0x", "(x) => \"unterminated", "(if) => 1", "(true) => 1", "(x?) => x", "(...x, y) => y",
    "(x?, y) => y", "x => x => x => x", "(x) => x\n// c", "(x) => x;", "\ufeff(x) => x",
    # built-in names and near misses
    "sum", "map", "time_now", "print", "Sum", "sum ", " sum", "sum()", "sqrt", "convert", "nosuchbuiltin", "inputs", "constants",
    "inf", "true", "null", "if",
]


def deep_function_source(rng, depth):
    w = WildGen(rng, ["sum", "map", "abs"], 64)
    return "(x) => " + w.deep(depth)


def random_json_value(rng, d, builtins):
    k = rng.below(14 if d > 0 else 8)
    if k == 0:
        return rng.choice([0, 1, -1, 0.5, 1e308, -1e308, 5e-324, 2 ** 53, 2 ** 64, -2 ** 63, 10 ** 30, 1e-7, 123456789012345678901234567890])
    if k == 1:
        return rng.choice(["", "a", "héllo", "{}", "\u0000", "a\"b", "a\\b", "line\nbreak", "🙂", "x" * 300, "__blots_function"])
    if k == 2:
        return rng.choice([True, False, None])
    if k <= 5:
        src = rng.choice(FUNC_SOURCES) if rng.chance(5, 6) else deep_function_source(rng, rng.choice([4, 16, 40, 60]))
        o = {"__blots_function": src}
        if rng.chance(1, 8):
            o["extra"] = 1
        if rng.chance(1, 10):
            o = {"__blots_function": rng.choice([1, None, True, ["x => x"], {"a": 1}, 1.5])}
        return o
    if k == 6:
        return {"__blots_function": rng.choice(builtins)}
    if k == 7:
        return rng.below(100)
    if k <= 9:
        return [random_json_value(rng, d - 1, builtins) for _ in range(rng.below(4))]
    keys = ["a", "b", "k", "", "é", "b c", "0", "__blots_function", "constants", "inputs", "x" * 40]
    return {rng.choice(keys): random_json_value(rng, d - 1, builtins) for _ in range(rng.below(4))}


INPUT_PROGRAMS = [
    "inputs.f(1)", "inputs.f(1, 2)", "inputs.f()", "inputs.f(...[1, 2, 3])", "[1, 2] via inputs.f", "map([1, 2], inputs.f)",
    "[1, 2] where inputs.f", "3 into inputs.f", "output o = inputs.f", "output all = inputs", "typeof(inputs.f)",
    "arity(inputs.f)", "inputs.f == inputs.f", "to_string(inputs.f)", "inputs.f(inputs.f)", "inputs.f(\"s\")", "inputs.f({a: {b: 1}})",
    "g = inputs.f\ng(1)\noutput g", "reduce([1, 2], inputs.f, 0)", "sort_by([2, 1], inputs.f)", "group_by([1], inputs.f)",
    "h = x => inputs.f(x)\noutput h\nh(2)", "inputs", "#f", "#f(1)", "inputs.a", "inputs.value_1", "keys(inputs)", "entries(inputs)",
    "inputs.f(1) + 1", "do { r = inputs.f(2)\n return r }", "format(\"{}\", inputs.f)", "[inputs.f] via (q => q(1))",
]


def json_inputs(rng, builtins):
    """(json text, program) pairs"""
    mode = rng.below(10)
    if mode <= 5:
        doc = {"f": random_json_value(rng, 0, builtins) if rng.chance(1, 5) else
               {"__blots_function": rng.choice(FUNC_SOURCES) if rng.chance(4, 5) else
                deep_function_source(rng, rng.choice([4, 16, 40, 60]))}}
        if rng.chance(1, 3):
            doc[rng.choice(["a", "k", "g"])] = random_json_value(rng, 2, builtins)
        text = json.dumps(doc, ensure_ascii=rng.chance(1, 2))
    elif mode <= 7:
        text = json.dumps(random_json_value(rng, 3, builtins), ensure_ascii=rng.chance(1, 2))
    elif mode == 8:
        # not an object at top level / numbers serde handles specially / malformed
        text = rng.choice(["[1, 2]", "1", "\"s\"", "null", "1e400", "-0", "{\"a\": 1e999}", "{\"a\": 1", "", "{", "[{\"__blots_function\": \"x => x\"}]",
                           "{\"__blots_function\": \"x => x\"}", "{\"f\": {\"__blots_function\": \"x => x\", \"__blots_function\": \"sum\"}}",
                           "{\"a\": \"\\ud83d\"}", "{\"a\": \"\\u0000\"}", "{\"\": 1}", "18446744073709551616", "{\"a\":1,\"a\":2}",
                           "\ufeff{}", "{\"a\": NaN}", "[" * 200 + "]" * 200])
    else:
        base = json.dumps({"f": {"__blots_function": rng.choice(FUNC_SOURCES)}})
        text = mutate(rng, base)
    return text, rng.choice(INPUT_PROGRAMS)


def unit_cases(rng, unit_names):
    weird = ["", " ", "km ", " km", "KM", "Km", "c", "C", "°C", "°", "µm", "μm", "㎞", "k m", "km\n", "\u0000", "é", "🙂", "m/s", "m^2",
             "square meters", "km2", "x" * 300, "İ", "ß", "ǅ", "kilometer", "kilometres", "1", "-", "'", "\"", "ﬁ", "Å", "Ω", "ω"]
    mags = [0x7ff8000000000000, 0x7ff0000000000000, 0xfff0000000000000, 0, 0x8000000000000000, 0x3ff0000000000000,
            0x4340000000000000, 0x46293e5939a08cea, 0xc014000000000000, 0x3fe0000000000000, 0x0000000000000001, 0x7fefffffffffffff]
    a = rng.choice(unit_names) if rng.chance(2, 3) else rng.choice(weird)
    b = rng.choice(unit_names) if rng.chance(2, 3) else rng.choice(weird)
    if rng.chance(1, 10):
        a = "".join(chr(random_codepoint(rng)) for _ in range(rng.below(6)))
    if rng.chance(1, 6):
        a = rng.choice([a.upper(), a.lower(), a.capitalize(), a + "s", a[:-1], " " + a])
    return a, b, rng.choice(mags)
