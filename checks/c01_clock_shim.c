#define _GNU_SOURCE
#include <time.h>
/* the system clock set before 1970-01-01: every CLOCK_REALTIME reading is -1000 s */
int clock_gettime(clockid_t id, struct timespec *ts) {
  ts->tv_sec = (id == CLOCK_REALTIME) ? -1000 : 1000;
  ts->tv_nsec = 0;
  return 0;
}
