"""C09 — PARSER HALF (text -> pair tree -> commented AST keeps every comment): coq/PegComments.v run on the
tree of coq/Peg.v + coq/gen/Grammar.v (vm_compute) against get_pairs + the drivers' statement loop +
pairs_to_expr_with_comments (harness streams `c09p`, `c09pc`).  Called from checks/c09.py; see notes/C09.md."""
import re

import common as c
import c09_contexts as X
import c10_peg as P

REQ = ["Blots.Num", "Blots.PegComments"]

HAND = ["[ // c\n]", "{ // c\n}", "x = [ // a\n // b\n]", "[1 // a\n // b\n]", "[1, // a\n // b\n 2 // c\n // d\n]",
        "[ // a\n 1]", "[1, 2, // a\n]", "{a: 1 // x\n // y\n}", "{ // a\n a, // b\n ...r // c\n}",
        "{[k]: [ // in\n 1]}", "do {\n // a\n return 1\n}", "do {\n x = 1 // a\n // b\n return x\n}",
        "do { // a\n x = 1; // b\n y = 2 // c\n // d\n return x }", "do {\n // a\n // b\n x = 1\n // c\n return x\n}",
        "x = 1 // e\n// own\ny = 2", "output x = [1 // a\n] // b", "output x // c", "// only", "//", "//\n//",
        "1 // a\n+ 2", "1 + // a\n 2", "(// a\n1)", "f(1, // a\n 2)", "if a // x\nthen b else c", "y => // a\n y",
        "{a: // x\n 1}", "a[ // x\n 0]", "[[ // in\n], 1 // out\n]", "[[ // in\n 1] // out\n]", "x = [ // a\r\n 1 // b\r\n]",
        "[1 // a \r b\n]", "f([1 // a\n])([2 // b\n])", "[1 // a\n][ [0 // b\n][0] ]", "{...[1 // a\n]}",
        "-[ // c\n a ]", "[1 // 'q' \" //\n]", "['// not' // yes\n]", "x = do {\n  return [ // c\n ]\n}"]


def dump_comments(dump):
    """comment texts (hex) of an implementation dump `OK stmt ;; stmt`, in AST order = Formatter.program_comments of
    the AST the REAL parser built (a trailing field is split at line feeds, as Formatter.trailing_comments does)"""
    out = []
    if not dump.startswith("OK"):
        return out
    body = dump[3:]
    if not body:
        return out
    for st in body.split(" ;; "):
        parts = st.split(" ")
        kind = parts[1] if len(parts) > 1 else ""
        if kind.startswith("c"):
            out.append(kind[1:])
        else:
            for m in re.finditer(r"(?:(?<=[{,])l([0-9a-f]*),)|(?:\|t([0-9a-f]*)\})", kind):
                if m.group(1) is not None:
                    out.append(m.group(1))
                else:
                    out.extend(x.hex() for x in bytes.fromhex(m.group(2)).split(b"\n"))
        if len(parts) > 2 and parts[2].startswith("E"):
            out.append(parts[2][1:])
    return out


def scan_hex(py_scan, t):
    return [x.encode("utf-8").hex() for x in py_scan(t)]


def parser_half(h, res, rng, tier, py_scan):
    """-> number of texts on which model and implementation agreed"""
    import c0809_gen as g89
    ok_build, log = c.coq_make(["PegComments.vo"])
    if not ok_build:
        res.tie_broken("coq/PegComments.v no longer compiles", log[-1500:])
        return 0
    quick = tier == "quick"
    tagged = [("hand", t) for t in HAND] + [("hand-peg", t) for t in P.HAND]
    for (src, _case, _w) in X.programs(rng, 150 if quick else 4000):
        tagged.append(("context", src))
    fg = g89.FmtGen(rng)
    k = 0
    n = 300 if quick else 4000
    while k < n:
        src, _case = fg.program()
        if len(src) <= 1200:
            tagged.append(("c0809", src))
            k += 1
    tagged += [("corpus", t) for t in P.corpus_texts()]
    base = [t for _, t in tagged if "//" in t]
    tagged += [("malformed-" + kk, t) for kk, t in P.malformed(rng, base, 300 if quick else 5000)]
    seen = {}
    for kk, t in tagged:
        try:
            t.encode("utf-8")
        except UnicodeEncodeError:
            continue
        if len(t) <= 1500 and t not in seen:
            seen[t] = kk
    texts = list(seen)
    hexes = [c.hexs(t) for t in texts]
    impl = c.harness_lines_resilient(h, "c09p", hexes)
    implc = c.harness_lines_resilient(h, "c09pc", hexes)
    try:
        model = c.coq_eval_batch(REQ, "", ['show_all_c (hx "%s")' % x for x in hexes], "c09p", shard=150)
    except c.BrokenTie as e:
        res.tie_broken(e.what, e.detail)
        return 0
    kinds = {}
    mism = []
    shape_bad = []
    thm_bad = []
    st = {"cases": len(texts), "impl_rejects": 0, "impl_glue_errors": 0, "impl_panics": 0, "model_out_of_fuel": 0,
          "accepted": 0, "accepted_with_comment_pairs": 0, "comment_pairs": 0, "ast_comments": 0,
          "excluded_empty_container": 0, "comments_lost_in_empty_container": 0,
          "texts_with_swallowed_comment_F20": 0, "comments_swallowed_by_NEWLINE_F20": 0,
          "statements": 0, "roles": {"leading": 0, "trailing": 0, "statement_own": 0, "statement_eol": 0}}
    lost_unknown = 0
    for i, t in enumerate(texts):
        kinds[seen[t]] = kinds.get(seen[t], 0) + 1
        o = impl[i] or ""
        m = model[i] or ""
        if o == "REJECT":
            st["impl_rejects"] += 1
        elif o == "GLUEERR":
            st["impl_glue_errors"] += 1
        elif o.startswith(("PANIC", "ABORT")):
            st["impl_panics"] += 1
        if m == "FUEL":
            st["model_out_of_fuel"] += 1
        mdump, _, facts = m.partition(" @@ ")
        if mdump != o:
            mism.append(i)
            continue
        if not o.startswith("OK"):
            continue
        st["accepted"] += 1
        st["statements"] += (o.count(" ;; ") + 1) if len(o) > 3 else 0
        st["roles"]["leading"] += len(re.findall(r"(?<=[{,])l[0-9a-f]*,", o))
        st["roles"]["trailing"] += len(re.findall(r"\|t[0-9a-f]*\}", o))
        st["roles"]["statement_own"] += len(re.findall(r"(?:^OK |;; )\d+:\d+ c", o))
        st["roles"]["statement_eol"] += len(re.findall(r" E[0-9a-f]*(?= ;;|$)", o))
        f = facts.split(" ## ")
        tc = [x for x in f[0].split(",") if x != ""] if f[0] != "" else []
        # an empty comment text cannot occur (a comment starts with //), so "" fields are separators only
        pc = [x for x in f[1].split(",") if x != ""] if len(f) > 1 and f[1] != "" else []
        flags = f[2] if len(f) > 2 else ""
        if (implc[i] or "") != f[0]:
            mism.append(i)
            continue
        st["comment_pairs"] += len(tc)
        st["accepted_with_comment_pairs"] += 1 if tc else 0
        ac = dump_comments(o)
        st["ast_comments"] += len(ac)
        if "S" not in flags or "V" not in flags:
            shape_bad.append(i)
        if flags == "SNV" and tc != pc:
            thm_bad.append(i)
        # the property on the implementation alone: comments of the AST the real parser built = comment pairs
        if ac != tc:
            if "n" in flags:
                st["excluded_empty_container"] += 1
                st["comments_lost_in_empty_container"] += len(tc) - len(ac)
            else:
                lost_unknown += 1
                if lost_unknown <= 3:
                    res.violation("pairs_to_expr_with_comments loses / reorders a comment pair outside the known class "
                                  "C09-empty-container",
                                  {"kind": "parser-half", "source": t, "comment_pairs": [bytes.fromhex(x).decode("utf-8", "replace") for x in tc],
                                   "ast_comments": [bytes.fromhex(x).decode("utf-8", "replace") for x in ac], "ast": o,
                                   "expected": "comments of the commented AST == comment / eol_comment pairs of the tree",
                                   "rerun": "harness c09p / c09pc < hex(source)"})
        elif "n" in flags:
            st["excluded_empty_container"] += 1
        sc = scan_hex(py_scan, t)
        if len(sc) > len(tc):
            st["texts_with_swallowed_comment_F20"] += 1
            st["comments_swallowed_by_NEWLINE_F20"] += len(sc) - len(tc)
    st["mismatches"] = len(mism)
    # F20 at the grammar level, on the implementation: the 6-byte witness of C09_f20_witness_swallowed, and an
    # exhaustive search showing that no shorter text over the alphabet below is accepted with a swallowed comment
    wit = "(//\n1)"
    wp = c.harness_lines_resilient(h, "c09pc", [c.hexs(wit)])[0]
    wd = c.harness_lines_resilient(h, "c09p", [c.hexs(wit)])[0]
    alpha = "1(/\n)+,[f"
    small = [""]
    allsmall = []
    for _ in range(5):
        small = [x + ch for x in small for ch in alpha]
        allsmall += [x for x in small if "//" in x]
    sp = c.harness_lines_resilient(h, "c09pc", [c.hexs(x) for x in allsmall])
    shorter = [x for x, o in zip(allsmall, sp) if o is not None and o != "-" and
               len([y for y in o.split(",") if y]) < len(py_scan(x))]
    st["F20_witness"] = {"text": wit, "impl_pairs": wp, "impl_ast": wd,
                         "reproduces": wp == "" and (wd or "").startswith("OK") and "2f2f" not in (wd or ""),
                         "exhaustive_shorter_search": {"alphabet": alpha, "max_bytes": 5, "texts_with_//": len(allsmall),
                                                       "accepted_with_swallowed_comment": len(shorter),
                                                       "first": shorter[:3]}}
    if not st["F20_witness"]["reproduces"]:
        res.tie_broken("C09P: the F20 witness of C09_f20_witness_swallowed no longer behaves on the real parser as the "
                       "model says", "pairs=%r ast=%r" % (wp, wd))
    st["kinds"] = dict(sorted(kinds.items()))
    st["shape_predicate_false_on_interpreter_tree"] = len(shape_bad)
    res.streams["C09P-parser-half"] = st
    if st["model_out_of_fuel"]:
        res.tie_broken("C09P: the PEG / Pratt model ran out of fuel on %d texts" % st["model_out_of_fuel"])
    if mism:
        i = mism[0]
        res.tie_broken("correspondence C09P: text -> pairs -> commented AST (Peg.v, PegToItems.v, PegComments.v) and the real "
                       "get_pairs / statement loop / pairs_to_expr_with_comments disagree on %d of %d texts"
                       % (len(mism), len(texts)),
                       "first: text=%r model=%s impl=%s pairs=%s" % (texts[i], (model[i] or "")[:700], (impl[i] or "")[:500],
                                                                      (implc[i] or "")[:200]))
    if shape_bad:
        res.tie_broken("C09P: PegComments.forest_shape_ok / forest_view_ok (the well-formedness hypotheses of "
                       "C09_parse_keeps_comments) is false on a tree the PEG interpreter produced: the grammar no longer has the "
                       "assumed shape",
                       "first: text=%r" % texts[shape_bad[0]])
    if thm_bad:
        res.tie_broken("C09P: model instance contradicts C09_parse_keeps_comments (stale .vo?)", repr(texts[thm_bad[0]]))
    return len(texts) - len(mism)


# --------------------------------------------------------------------------- added in round C09P2
def regen_tables(h, res):
    """coq/gen/Grammar.v (grammar.pest as pest compiles it) and coq/gen/PrecTable.v (the Pratt table of the built crate)
    are inputs of the parser-half theorems (C09_shape_*, C09_newline_never_yields_a_pair, C08_reparse_*): regenerate them
    from the working tree BEFORE the proof step, so that those theorems are re-checked against the grammar that is there."""
    import c10
    try:
        gi = c10.regen_grammar()
        c10.regen_prec(h)
    except c.BrokenTie as e:
        res.tie_broken(e.what, e.detail)
        return None
    return gi


def strip_positions(dump):
    """`OK 1:2 e.. ;; 4:4 c..` -> the statement contents without the start:end lines (= Formatter.stmt_content)"""
    if not dump.startswith("OK"):
        return dump
    body = dump[3:]
    if not body:
        return "OK"
    return "OK " + " ;; ".join(st.split(" ", 1)[1] if " " in st else st for st in body.split(" ;; "))


def reparse_stream(h, res, rng, tier, clir):
    """REPARSE stream (C08): the texts the FORMATTER prints (library driver at sampled widths, its second pass, the real
    `blots --format` binary) re-parsed by the parser model (Peg.v -> PegToItems -> PegComments.parse_program_c, one
    vm_compute each) and by the implementation (get_pairs + statement loop + pairs_to_expr_with_comments): commented-AST
    skeleton with every comment's role, statement start/end lines, comment pairs, shape flags.  This is the hypothesis
    `q = parse_program_c (render d)` of C08_reparse_second_pass_lib / _cli compared with the code, and the grammar step
    "the layout's text has the layout's pairs" observed end to end: re-parsing the first output must give the statement
    CONTENTS (expressions with comment attachment, end-of-line comments) of re-parsing the second output.
    -> number of texts on which model and implementation agreed"""
    import c0809_gen as G
    import c0809_lib as L
    ok_build, log = c.coq_make(["PegComments.vo"])
    if not ok_build:
        res.tie_broken("coq/PegComments.v no longer compiles", log[-1500:])
        return 0
    quick = tier == "quick"
    n = 160 if quick else 2500
    gen = G.FmtGen(rng, comment_rate=(1, 3), max_depth=3)
    progs = []
    while len(progs) < n:
        src, case = gen.program()
        if len(src) <= 1200:
            progs.append((src, case, L.pick_width(rng)))
    o1 = L.impl_format(h, [(s, w, "lib") for s, _, w in progs])
    o2 = L.impl_format(h, [((t if tg == "OK" else ""), w, "lib") for (tg, t), (_, _, w) in zip(o1, progs)])
    ncli = max(1, n // 4)
    oc = [clir.format(s) for s, _, _ in progs[:ncli]]
    tagged = {}
    widths = {}
    for (tg, t), (_, _, w) in zip(o1, progs):
        if tg == "OK" and len(t) <= 1500:
            tagged.setdefault(t, "lib-first-pass")
            widths["default" if w is None else ("<=20" if w <= 20 else "<=60" if w <= 60 else "<=120")] = \
                widths.get("default" if w is None else ("<=20" if w <= 20 else "<=60" if w <= 60 else "<=120"), 0) + 1
    for tg, t in o2:
        if tg == "OK" and t is not None and len(t) <= 1500:
            tagged.setdefault(t, "lib-second-pass")
    for tg, t in oc:
        if tg == "OK" and len(t) <= 1500:
            tagged.setdefault(t, "cli-binary")
    texts = [t for t in tagged if t != ""]
    hexes = [c.hexs(t) for t in texts]
    impl = c.harness_lines_resilient(h, "c09p", hexes)
    implc = c.harness_lines_resilient(h, "c09pc", hexes)
    try:
        model = c.coq_eval_batch(REQ, "", ['show_all_c (hx "%s")' % x for x in hexes], "c08r", shard=150)
    except c.BrokenTie as e:
        res.tie_broken(e.what, e.detail)
        return 0
    by_text = {}
    kinds = {}
    mism = []
    shape_bad = []
    st = {"programs": len(progs), "formatted_texts": len(texts), "first_pass_widths": dict(sorted(widths.items())),
          "impl_rejects_own_output": 0, "model_out_of_fuel": 0, "accepted": 0, "statements": 0, "comment_pairs": 0,
          "texts_with_comment_pairs": 0, "multi_line_texts": 0,
          "roles": {"leading": 0, "trailing": 0, "statement_own": 0, "statement_eol": 0},
          "flags": {}}
    for i, t in enumerate(texts):
        kinds[tagged[t]] = kinds.get(tagged[t], 0) + 1
        o = impl[i] or ""
        m = model[i] or ""
        if m == "FUEL":
            st["model_out_of_fuel"] += 1
        mdump, _, facts = m.partition(" @@ ")
        by_text[t] = o
        if not o.startswith("OK"):
            st["impl_rejects_own_output"] += 1
        if mdump != o:
            mism.append(i)
            continue
        if not o.startswith("OK"):
            continue
        f = facts.split(" ## ")
        if (implc[i] or "") != f[0]:
            mism.append(i)
            continue
        st["accepted"] += 1
        st["multi_line_texts"] += 1 if "\n" in t.strip("\n") else 0
        st["statements"] += (o.count(" ;; ") + 1) if len(o) > 3 else 0
        st["roles"]["leading"] += len(re.findall(r"(?<=[{,])l[0-9a-f]*,", o))
        st["roles"]["trailing"] += len(re.findall(r"\|t[0-9a-f]*\}", o))
        st["roles"]["statement_own"] += len(re.findall(r"(?:^OK |;; )\d+:\d+ c", o))
        st["roles"]["statement_eol"] += len(re.findall(r" E[0-9a-f]*(?= ;;|$)", o))
        tc = [x for x in f[0].split(",") if x != ""]
        st["comment_pairs"] += len(tc)
        st["texts_with_comment_pairs"] += 1 if tc else 0
        flags = f[2] if len(f) > 2 else ""
        st["flags"][flags] = st["flags"].get(flags, 0) + 1
        if "S" not in flags or "V" not in flags:
            shape_bad.append(i)
    # the fixed point of comment attachment, on the real parser (and, the dumps being equal, on the model): the statement
    # contents re-parsed from the first output = those re-parsed from the second output
    moved = []
    compared = 0
    for (tg1, t1), (tg2, t2), (s, _, w) in zip(o1, o2, progs):
        if tg1 != "OK" or tg2 != "OK" or t1 not in by_text or t2 not in by_text:
            continue
        a, b = by_text[t1], by_text[t2]
        if not a.startswith("OK") or not b.startswith("OK"):
            continue
        compared += 1
        if strip_positions(a) != strip_positions(b):
            moved.append((s, w, t1, a, b))
    # the hypothesis `map stmt_content q = map stmt_content p` of C08_reparse_second_pass_lib with p = the program the
    # real parser builds from the SOURCE and q = the one it builds from the first output (q is also the model's, the
    # dumps being equal): formatting and re-parsing keeps every expression skeleton and every comment's item and role
    src_dumps = c.harness_lines_resilient(h, "c09p", [c.hexs(s) for s, _, _ in progs])
    hyp_compared = 0
    hyp_bad = []
    for (tg1, t1), sd, (s, _, w) in zip(o1, src_dumps, progs):
        if tg1 != "OK" or t1 not in by_text or not (sd or "").startswith("OK") or not by_text[t1].startswith("OK"):
            continue
        hyp_compared += 1
        if strip_positions(sd) != strip_positions(by_text[t1]):
            hyp_bad.append((s, w, t1, sd, by_text[t1]))
    st["content_hypothesis_compared"] = hyp_compared
    st["content_hypothesis_failures"] = len(hyp_bad)
    if hyp_bad:
        s, w, t1, sd, d1 = hyp_bad[0]
        res.tie_broken("REPARSE: the hypothesis `map stmt_content q = map stmt_content p` of C08_reparse_second_pass_lib is false "
                       "on %d of %d programs: re-parsing the formatter's output gives a different expression skeleton or comment "
                       "attachment than parsing the source" % (len(hyp_bad), hyp_compared),
                       "first: source=%r width=%r output=%r parse(source)=%s parse(output)=%s" % (s, w, t1, sd[:400], d1[:400]))
    st["attachment_fixed_point_compared"] = compared
    st["attachment_fixed_point_failures"] = len(moved)
    st["kinds"] = dict(sorted(kinds.items()))
    st["mismatches"] = len(mism)
    st["shape_predicate_false_on_interpreter_tree"] = len(shape_bad)
    res.streams["REPARSE-formatted-output"] = st
    if st["model_out_of_fuel"]:
        res.tie_broken("REPARSE: the PEG / Pratt model ran out of fuel on %d formatted texts" % st["model_out_of_fuel"])
    if mism:
        i = mism[0]
        res.tie_broken("correspondence REPARSE: the parser model (Peg.v, PegToItems.v, PegComments.v) and the real parser "
                       "disagree on %d of %d texts printed by the formatter" % (len(mism), len(texts)),
                       "first: text=%r model=%s impl=%s pairs=%s" % (texts[i], (model[i] or "")[:700], (impl[i] or "")[:500],
                                                                      (implc[i] or "")[:200]))
    if shape_bad:
        res.tie_broken("REPARSE: forest_shape_ok / forest_view_ok is false on the interpreter tree of a formatted text",
                       "first: text=%r" % texts[shape_bad[0]])
    for s, w, t1, a, b in moved[:3]:
        res.violation("re-parsing the formatter's output attaches a comment to a different item / role than re-parsing its "
                      "second output (comment placement is not a fixed point after one pass)",
                      {"kind": "impl-law", "source": s, "width": w, "driver": "lib", "first_output": t1,
                       "observed": {"reparse(format(p))": a, "reparse(format(format(p)))": b},
                       "expected": "equal statement contents", "rerun": "./check C08 --replay <this file>"})
    return len(texts) - len(mism)
