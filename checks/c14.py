"""C14 — indexing, spreading and the list/string/record built-ins satisfy their laws.
See notes/C14.md (DESIGN.md section 6 C14)."""
import json
import math
import os
import sys

import common as c
from gen_values import V, N, S, B, NULL, L, R, f2bits, bits2f

PID = "C14"
MANIFEST = {
    "text": "Coq theorems over the transcribed built-ins (sort/sort_by permutation+stability+sortedness, unique, "
            "reverse, concat, flatten/chunk, zip, slice/head/tail, range, keys/values/entries, group_by/count_by "
            "partition, count_by's counter exact for every n < 2^53 (C14_count_num_exact, Flocq Bplus_correct), join/split, indexing, field access, spreading, string/character consistency, no panic in "
            "range/sort), model tied to the code by the BUILTIN and EVAL correspondence streams "
            "and by the laws re-evaluated on the implementation's own serialised results; round 7: LONG-SORT family in the law search (sort / sort_by stability on lists of 33..96 elements drawn from pools of equal-but-distinguishable members such as 0 / -0) after seed C14-11",
    "note": "trusted: Coq kernel + vm_compute; hand transcription of 26 built-in arms and of the Access/DotAccess/"
            "Spread arms and of the repo's own stable merge sort (validated by correspondence every run); "
            "str::split/replace/contains as naive search, str::trim/to_uppercase/to_lowercase and f64 Display as oracles; "
            "C14_count_num_exact and C14_count_by_counts_exact alone use Flocq's real-number layer (the four "
            "allow-listed classical axioms)",
    "design_ref": "notes/C14.md (DESIGN.md section 6 C14)",
}
REQS = ["Blots.Num", "Blots.gen.Builtins", "Blots.Ast", "Blots.Value", "Blots.Outcome", "Blots.Show",
        "Blots.Access", "Blots.BuiltinsList", "Blots.C14Run"]


# =========================================================================== values
class Raw:
    """An argument given as (Blots source, Gallina term) — lambdas, spreads."""

    def __init__(self, src, coq, kind="raw"):
        self._src = src
        self._coq = coq
        self.k = kind

    def src(self):
        return self._src

    def coq(self):
        return self._coq


ASCII_ALPHA = ["a", "b", "c", "A", "B", "z", "0", "1", " ", ",", "-", "x", "ab", "ba"]
NONASCII_ALPHA = ["é", "ü", "ß", "€", "中", "\U0001F600", "ñ", "a", "b", " ", ",",
                  # characters whose code point ALIASES an ASCII character when truncated to 8 or 16 bits, next to
                  # that ASCII character (round 4, seed C14-8: a per-heap cache of one-character strings keyed by
                  # `c as u8`): U+0141/A, U+017A/z, U+672C/",", U+0432/2, U+0120/space, U+10041/A, U+0100/NUL
                  "\u0141", "A", "\u017a", "z", "\u672c", "\u0432", "2", "\u0120", "\U00010041", "\u0100"]
SMALL_NUMS = [0.0, 1.0, 2.0, 3.0, -1.0, -2.0, 5.0, 10.0, 7.0, 4.0]
ODD_NUMS = [-0.0, 0.5, -0.5, 1.5, 2.5, -1.5, 1e30, -1e30, math.inf, -math.inf, math.nan, 2.0 ** 53, 2.0 ** 63,
            -2.0 ** 63, 2.0 ** 64, 1e19, -1e19, 4294967295.0, 4294967296.0, 0.9999999, -0.9999999, 1e-300, 39.0, 40.0,
            41.0, -40.0, -41.0]


def gen_ascii(rng, maxlen=8):
    return "".join(rng.choice(ASCII_ALPHA) for _ in range(rng.below(maxlen + 1)))


def gen_text(rng, maxlen=8):
    """valid UTF-8 text; ~half the time contains non-ASCII characters; one in sixteen has a length on a
    boundary an implementation might treat specially (inline storage, interning, SIMD chunks)"""
    if maxlen >= 4 and rng.chance(1, 16):
        n = rng.choice([15, 16, 17, 31, 32, 33, 63, 64, 65, 127, 128, 129])
        unit = rng.choice(["a", "ab", "\u00e9", "a\u20ac", ",a"])
        return (unit * n)[:n]
    if rng.chance(1, 2):
        return gen_ascii(rng, maxlen)
    return "".join(rng.choice(NONASCII_ALPHA) for _ in range(rng.below(maxlen + 1)))


def gen_num(rng):
    r = rng.below(10)
    if r < 6:
        return N(rng.choice(SMALL_NUMS))
    if r < 8:
        return N(rng.choice(ODD_NUMS))
    return N(float(rng.below(41)) - 20)


def gen_atom(rng):
    r = rng.below(10)
    if r < 4:
        return gen_num(rng)
    if r < 7:
        return S(gen_text(rng, 4))
    if r < 8:
        return B(rng.chance(1, 2))
    if r < 9:
        return NULL
    return L(*[gen_num(rng) for _ in range(rng.below(3))])


def gen_record(rng, depth=1):
    keys = []
    for _ in range(rng.below(5)):
        k = rng.choice(["a", "b", "k", "key", "0", "1", "", "é", "x y", "tag"])
        if k not in keys:
            keys.append(k)
    return R(*[(k, gen_value(rng, depth - 1)) for k in keys])


def gen_value(rng, depth=2):
    if depth <= 0:
        return gen_atom(rng)
    r = rng.below(10)
    if r < 5:
        return gen_atom(rng)
    if r < 8:
        return L(*[gen_value(rng, depth - 1) for _ in range(rng.below(4))])
    return gen_record(rng, depth)


def gen_len(rng):
    """list length 0..40, biased to the interesting ones (0,1,2, around the insertion-sort limit 20, 40)"""
    r = rng.below(10)
    if r < 2:
        return rng.below(3)
    if r < 6:
        return rng.below(12)
    if r < 8:
        return 18 + rng.below(6)
    return rng.below(41)


def gen_list(rng, mode=None):
    n = gen_len(rng)
    mode = mode if mode is not None else rng.below(9)
    if mode == 0:        # small integers with many duplicates
        return L(*[N(float(rng.below(5))) for _ in range(n)])
    if mode == 1:        # numbers, comparable (no NaN), with -0/0 and near-equal values
        pool = [0.0, -0.0, 1.0, 1.0, 2.0, 0.5, -1.0, 1e30, math.inf, -math.inf, 3.0]
        return L(*[N(rng.choice(pool)) for _ in range(n)])
    if mode == 2:        # strings
        return L(*[S(gen_text(rng, 3)) for _ in range(n)])
    if mode == 3:        # lists of numbers (lexicographic compare, duplicates)
        return L(*[L(*[N(float(rng.below(3))) for _ in range(rng.below(3))]) for _ in range(n)])
    if mode == 4:        # numbers with NaN (not a total order)
        return L(*[N(rng.choice([1.0, 2.0, math.nan, 0.0, 3.0])) for _ in range(n)])
    if mode == 5:        # mixed types
        return L(*[gen_atom(rng) for _ in range(n)])
    if mode == 6:        # booleans / nulls
        return L(*[rng.choice([B(True), B(False), NULL, B(True)]) for _ in range(n)])
    if mode == 8:        # members of a few .== classes written differently, long enough for a bucketed / hashed path
        return gen_class_list(rng)
    return L(*[gen_value(rng, 1) for _ in range(min(n, 12))])


def gen_class_list(rng):
    """a list of 20..80 elements drawn from a handful of .== classes, each class with several SPELLINGS that are
    equal but not identical: records with permuted key order (also nested), 0 and -0, a list holding either, equal
    strings (every literal is its own heap cell).  Round 4, seed C14-7: `unique` bucketed by a fingerprint that
    depended on record key order for lists of 32 or more elements; the generator's long lists held no records."""
    classes = []
    for i in range(2 + rng.below(4)):
        a, b_ = N(float(i)), S("t%d" % (i % 2))
        inner = [R(("p", a), ("q", b_)), R(("q", b_), ("p", a))]
        kind = rng.below(5)
        if kind == 0:
            classes.append([R(("id", a), ("tag", b_)), R(("tag", b_), ("id", a))])
        elif kind == 1:
            classes.append([R(("k", inner[0]), ("z", N(0.0))), R(("z", N(-0.0)), ("k", inner[1])), R(("k", inner[1]), ("z", N(0.0)))])
        elif kind == 2:
            classes.append([L(inner[0], N(0.0)), L(inner[1], N(-0.0))])
        elif kind == 3:
            classes.append([N(0.0), N(-0.0)] if i == 0 else [N(float(i)), N(float(i))])
        else:
            classes.append([S("s%d" % i), S("s%d" % i)])
    n = rng.choice([20, 31, 32, 33, 40, 63, 64, 65, 80])
    return L(*[rng.choice(rng.choice(classes)) for _ in range(n)])


def gen_index(rng, n):
    """index argument for a sequence of length n: in range, negative, boundary, fractional, NaN, huge"""
    r = rng.below(12)
    if r < 4:
        return N(float(rng.below(n + 2)))
    if r < 7:
        return N(-float(rng.below(n + 3)))
    if r < 9:
        return N(rng.choice([0.5, -0.5, 1.9, -1.9, n - 0.5, -(n + 0.5), 0.999, n + 0.0, -n - 1.0]))
    return N(rng.choice([math.nan, math.inf, -math.inf, 1e30, -1e30, 2.0 ** 63, -2.0 ** 63, 2.0 ** 64, -0.0]))


def wrong_typed(rng):
    return rng.choice([NULL, B(True), N(1.0), S("a"), L(), R(("a", N(1))), V("builtin", "len")])


# ---- callbacks (source, model term obtained from the harness's own parser)
CALLBACK_SRCS = ["x => x", "x => -x", "x => x[0]", "x => x[1]", "x => x.k", "x => x.tag", "x => typeof(x)",
                 "x => len(x)", "x => head(x)", "x => x[0][0]", "x => reverse(x)", "x => null", "x => \"same\"",
                 "x => x.missing", "x => typeof(x.k)", "x => head(x.tag)"]
CALLBACKS = {}


def load_callbacks(h):
    outs = c.harness_lines_resilient(h, "parse", [c.hexs(s) for s in CALLBACK_SRCS])
    for s, o in zip(CALLBACK_SRCS, outs):
        if not o.startswith("E (ELam "):
            raise c.BrokenTie("C14: cannot obtain the AST of callback %r from the parser" % s, o)
        body = o[len("E (ELam "):-1]
        CALLBACKS[s] = Raw(s, "(VLam 0%%nat %s [])" % body, "lam")
    for b in ("typeof", "len", "head", "tail", "reverse", "sort", "keys", "unique", "flatten"):
        CALLBACKS[b] = V("builtin", b)


# =========================================================================== canonical show parsing
def parse_show(s):
    """canonical value text -> tree: ('N',bits) ('T',) ('F',) ('U',) ('S',bytes) ('L',[..]) ('R',[(k,v)..])
    ('FN',text) ('B',name) ('X',v)"""
    v, i = _pv(s, 0)
    if i != len(s):
        raise ValueError("trailing text in %r" % s)
    return v


def _pv(s, i):
    ch = s[i]
    if ch == "N":
        return ("N", int(s[i + 1:i + 17], 16)), i + 17
    if ch in "TFU":
        return (ch,), i + 1
    if ch == "S":
        j = s.index(";", i)
        return ("S", bytes.fromhex(s[i + 1:j])), j + 1
    if ch == "L":
        assert s[i + 1] == "["
        i += 2
        items = []
        if s[i] == "]":
            return ("L", items), i + 1
        while True:
            v, i = _pv(s, i)
            items.append(v)
            if s[i] == ",":
                i += 1
            elif s[i] == "]":
                return ("L", items), i + 1
            else:
                raise ValueError(s)
    if ch == "R":
        assert s[i + 1] == "{"
        i += 2
        items = []
        if s[i] == "}":
            return ("R", items), i + 1
        while True:
            j = s.index(":", i)
            k = bytes.fromhex(s[i:j])
            v, i = _pv(s, j + 1)
            items.append((k, v))
            if s[i] == ",":
                i += 1
            elif s[i] == "}":
                return ("R", items), i + 1
            else:
                raise ValueError(s)
    if ch == "F":          # FN(args)[@name]
        j = s.index(")", i)
        k = j + 1
        if k < len(s) and s[k] == "@":
            k += 1
            while k < len(s) and s[k] not in ",]}":
                k += 1
        return ("FN", s[i:k]), k
    if ch == "B":
        j = s.index(";", i)
        return ("B", s[i + 1:j]), j + 1
    if ch == "X":
        v, i = _pv(s, i + 1)
        return ("X", v), i
    raise ValueError("cannot parse value text at %d: %r" % (i, s))


def tree_of(v):
    return parse_show(v.show())


def t_num(t):
    return bits2f(t[1])


def t_equals(a, b):
    """Value::equals on parsed trees"""
    if a[0] != b[0]:
        return (a[0] in "TF" and b[0] in "TF") and a[0] == b[0]
    k = a[0]
    if k == "N":
        return t_num(a) == t_num(b)
    if k in "TFU":
        return True
    if k == "S":
        return a[1] == b[1]
    if k == "L":
        return len(a[1]) == len(b[1]) and all(t_equals(x, y) for x, y in zip(a[1], b[1]))
    if k == "R":
        if len(a[1]) != len(b[1]):
            return False
        d = dict(b[1])
        return all(kk in d and t_equals(vv, d[kk]) for kk, vv in a[1])
    if k == "B":
        return a[1] == b[1]
    return False


def t_compare(a, b):
    """Value::compare on parsed trees: -1/0/1 or None"""
    ka = "B?" if a[0] in "TF" else a[0]
    kb = "B?" if b[0] in "TF" else b[0]
    if ka != kb:
        return None
    if ka == "N":
        x, y = t_num(a), t_num(b)
        if x != x or y != y:
            return None
        return (x > y) - (x < y)
    if ka == "B?":
        x, y = a[0] == "T", b[0] == "T"
        return (x > y) - (x < y)
    if ka == "S":
        return (a[1] > b[1]) - (a[1] < b[1])
    if ka == "L":
        for x, y in zip(a[1], b[1]):
            r = t_compare(x, y)
            if r is None or r != 0:
                return r
        return (len(a[1]) > len(b[1])) - (len(a[1]) < len(b[1]))
    return None


def t_mutually_comparable(items):
    return all(t_compare(a, b) is not None for a in items for b in items)


def t_chars(b):
    return [ch.encode("utf-8") for ch in b.decode("utf-8")]


def show_tree(t):
    k = t[0]
    if k == "N":
        return "N%016x" % t[1]
    if k in "TFU":
        return k
    if k == "S":
        return "S%s;" % t[1].hex()
    if k == "L":
        return "L[" + ",".join(show_tree(x) for x in t[1]) + "]"
    if k == "R":
        return "R{" + ",".join("%s:%s" % (kk.hex(), show_tree(vv)) for kk, vv in t[1]) + "}"
    if k == "FN":
        return t[1]
    if k == "B":
        return "B%s;" % t[1]
    return "X" + show_tree(t[1])


def v_is_ascii(v):
    """no non-ASCII string anywhere at the top level of the value (string itself)"""
    return v.k != "str" or all(ord(ch) < 128 for ch in v.p)


# =========================================================================== BUILTIN cases
class Case:
    __slots__ = ("name", "args", "checked", "tag", "known")

    def __init__(self, name, args, tag, checked=False):
        self.name = name
        self.args = args
        self.checked = checked
        self.tag = tag
        self.known = None

    def line(self):
        return "\t".join([c.hexs(self.name)] + [c.hexs(a.src()) for a in self.args])

    def coq(self):
        args = "[" + "; ".join(a.coq() for a in self.args) + "]"
        run = "run_bi_checked" if self.checked else "run_bi"
        call = "(%s B_%s %s)" % (run, self.name, args)
        return "(show_out %s)" % call

    def text(self):
        return "%s(%s)%s" % (self.name, ", ".join(a.src() for a in self.args), " [arity-checked]" if self.checked else "")


def keyed_records(rng):
    """records {k: key, id: i} with duplicate keys: stability of sort_by / group_by is observable"""
    n = gen_len(rng)
    mode = rng.below(4)
    out = []
    for i in range(n):
        if mode == 0:
            k = N(float(rng.below(4)))
        elif mode == 1:
            k = S(rng.choice(["a", "b", "é", "", "ab"]))
        elif mode == 2:
            k = rng.choice([N(1.0), S("a"), NULL, N(math.nan), N(2.0), B(True)])
        else:
            k = L(N(float(rng.below(2))), N(float(rng.below(2))))
        out.append(R(("k", k), ("tag", S(rng.choice(["p", "q", "r", "é"]))), ("id", N(float(i)))))
    return L(*out)


def pair_list(rng):
    n = gen_len(rng)
    return L(*[L(N(float(rng.below(4))), N(float(i))) for i in range(n)])


def gen_builtin_case(rng):
    """one structured, mostly valid case"""
    name = rng.choice(["range", "len", "head", "tail", "slice", "slice", "concat", "unique", "sort", "sort", "sort_by",
                       "sort_by", "reverse", "split", "split", "join", "replace", "trim", "uppercase", "lowercase",
                       "includes", "keys", "values", "entries", "group_by", "count_by", "flatten", "zip", "chunk",
                       "chunk"])
    if name == "range":
        r = rng.below(10)
        if r < 5:
            a = float(rng.below(30)) - 15
            b = a + rng.below(25)
            args = [N(a), N(b)] if rng.chance(3, 4) else [N(abs(a))]
        elif r < 8:
            a = rng.choice([0.5, -0.5, 1.9, -1.9, 2.5, -0.0, 0.0, 3.999])
            args = [N(a), N(a + rng.choice([0.0, 0.4, 1.0, 2.6, 5.5]))]
        else:
            args = [N(rng.choice([math.nan, math.inf, -math.inf, 5.0, 1e19, -1e19, 1e10, 0.0])),
                    N(rng.choice([math.nan, math.inf, -math.inf, 3.0, 7.0, 1e19, -1e19, 1e10, 4294967296.0]))]
        return Case(name, args, "range")
    if name in ("len", "head", "tail"):
        a = gen_list(rng) if rng.chance(1, 2) else S(gen_text(rng, 6))
        return Case(name, [a], name + ("-str" if a.k == "str" else "-list"))
    if name == "slice":
        if rng.chance(1, 2):
            a = gen_list(rng)
            n = len(a.p)
        else:
            a = S(gen_text(rng, 6))
            n = len(a.p.encode("utf-8"))
        r = rng.below(10)
        if r < 6:
            i = rng.below(n + 1)
            j = i + rng.below(n - i + 1)
            idx = [N(float(i)), N(float(j))]
        elif r < 8:
            idx = [N(float(rng.below(n + 3))), N(float(rng.below(n + 3)))]
        else:
            idx = [gen_index(rng, n), gen_index(rng, n)]
        return Case(name, [a] + idx, "slice" + ("-str" if a.k == "str" else "-list"))
    if name == "concat":
        args = []
        for _ in range(rng.below(4)):
            r = rng.below(8)
            if r < 5:
                args.append(gen_list(rng))
            elif r < 6:
                args.append(gen_atom(rng))
            else:
                inner = rng.choice([gen_list(rng, 0), S(gen_text(rng, 4)), gen_record(rng, 1)])
                args.append(Raw("..." + inner.src(), "(VSpread %s)" % inner.coq(), "spread"))
        return Case(name, args, "concat")
    if name in ("unique", "reverse", "flatten"):
        a = gen_list(rng, 7 if (name == "flatten" and rng.chance(1, 2)) else None)
        if name == "flatten" and rng.chance(1, 2):
            a = L(*[rng.choice([gen_list(rng, 0), gen_atom(rng), L(L(N(1)))]) for _ in range(rng.below(6))])
        return Case(name, [a], name)
    if name == "sort":
        return Case(name, [gen_list(rng)], "sort")
    if name == "sort_by":
        r = rng.below(4)
        if r == 0:
            return Case(name, [keyed_records(rng), CALLBACKS[rng.choice(["x => x.k", "x => x.tag", "x => x.missing",
                                                                         "x => typeof(x.k)"])]], "sort_by-records")
        if r == 1:
            return Case(name, [pair_list(rng), CALLBACKS[rng.choice(["x => x[0]", "x => x[1]", "x => -x[0]"
                                                                     if False else "x => x[0]", "head"])]], "sort_by-pairs")
        if r == 2:
            return Case(name, [gen_list(rng, rng.choice([0, 1, 4])), CALLBACKS[rng.choice(["x => -x", "x => x", "x => null"])]],
                        "sort_by-nums")
        return Case(name, [gen_list(rng), CALLBACKS[rng.choice(["typeof", "len", "x => len(x)", "x => typeof(x)",
                                                               "x => x[0]", "x => \"same\""])]], "sort_by-mixed")
    if name == "split":
        if rng.chance(1, 2):
            d = rng.choice([",", " ", "ab", "", "a", "--", "é", "aa"])
            parts = [gen_text(rng, 3) for _ in range(rng.below(5))]
            s = d.join(parts) if d else "".join(parts)
        else:
            s = gen_text(rng, 8)
            d = rng.choice([",", "", "a", "ab", "é", " ", "€", "aa", s[:1], s[1:3]])
        return Case(name, [S(s), S(d)], "split" + ("-empty-delim" if d == "" else ""))
    if name == "join":
        n = rng.below(6)
        r = rng.below(3)
        if r == 0:
            items = [S(gen_text(rng, 3)) for _ in range(n)]
        elif r == 1:
            items = [rng.choice([S(gen_text(rng, 2)), N(float(rng.below(100)) - 50), B(True), B(False), NULL, N(-0.0),
                                 N(1e21), N(math.inf), N(math.nan), L(N(1), S("a")), L(), R(("a", N(1)), ("b", S("x")))])
                     for _ in range(n)]
        else:
            items = [S(gen_ascii(rng, 2)) for _ in range(n)]
        return Case(name, [L(*items), S(rng.choice([",", "", ", ", "é", "-"]))], "join")
    if name == "replace":
        s = gen_text(rng, 8)
        old = rng.choice(["a", "", "ab", "é", ",", s[:2], s[1:2], "aa", " "])
        return Case(name, [S(s), S(old), S(rng.choice(["", "X", "é", "ab", old + old]))], "replace")
    if name in ("trim", "uppercase", "lowercase"):
        s = gen_ascii(rng, 6)
        if name == "trim":
            s = rng.choice(["", " ", "  ", "\t"]) + s + rng.choice(["", " ", " \t ", "  "])
        return Case(name, [S(s)], name)
    if name == "includes":
        if rng.chance(1, 2):
            l = gen_list(rng)
            needle = rng.choice(l.p) if (l.p and rng.chance(2, 3)) else gen_atom(rng)
            return Case(name, [l, needle], "includes-list")
        s = gen_text(rng, 8)
        return Case(name, [S(s), S(rng.choice(["", "a", "ab", "é", s[1:3], s[-2:], "zz"]))], "includes-str")
    if name in ("keys", "values", "entries"):
        return Case(name, [gen_record(rng, 2)], name)
    if name in ("group_by", "count_by"):
        r = rng.below(3)
        if r == 0:
            return Case(name, [keyed_records(rng), CALLBACKS[rng.choice(["x => x.tag", "x => typeof(x.k)", "x => x.k",
                                                                         "x => head(x.tag)"])]], name + "-records")
        if r == 1:
            return Case(name, [gen_list(rng), CALLBACKS[rng.choice(["typeof", "x => typeof(x)", "x => \"same\""])]],
                        name + "-typeof")
        return Case(name, [gen_list(rng, 2), CALLBACKS[rng.choice(["x => x", "head", "x => head(x)", "x => x[0]",
                                                                  "x => null"])]], name + "-strings")
    if name == "zip":
        k = 2 + rng.below(3)
        return Case(name, [gen_list(rng, rng.choice([0, 5, 2])) for _ in range(k)], "zip")
    if name == "chunk":
        l = gen_list(rng)
        n = len(l.p)
        r = rng.below(10)
        if r < 6:
            sz = N(float(1 + rng.below(n + 2)))
        elif r < 8:
            sz = N(rng.choice([0.0, -1.0, 0.5, 1.5, 2.9, -0.0, 0.999]))
        else:
            sz = N(rng.choice([math.nan, math.inf, 1e30, 2.0 ** 64, -math.inf]))
        return Case(name, [l, sz], "chunk")
    raise AssertionError(name)


ALL_NAMES = ["range", "len", "head", "tail", "slice", "concat", "unique", "sort", "sort_by", "reverse", "split", "join",
             "replace", "trim", "uppercase", "lowercase", "includes", "keys", "values", "entries", "group_by", "count_by",
             "flatten", "zip", "chunk"]


def gen_malformed_case(rng):
    """wrong-typed arguments and wrong argument counts (the latter both straight into the arm, where a short
    vector is an index panic, and through the arity check)"""
    name = rng.choice(ALL_NAMES)
    base = gen_builtin_case_named(rng, name)
    args = list(base.args)
    r = rng.below(6)
    if r < 3 and args:
        i = rng.below(len(args))
        args[i] = wrong_typed(rng)
        return Case(name, args, "wrongtype")
    if r == 3 and args:
        args.pop()
        return Case(name, args, "short", checked=rng.chance(1, 2))
    if r == 4:
        args.append(wrong_typed(rng))
        return Case(name, args, "long", checked=rng.chance(1, 2))
    return Case(name, [], "noargs", checked=rng.chance(1, 2))


def gen_builtin_case_named(rng, name):
    for _ in range(2000):
        cs = gen_builtin_case(rng)
        if cs.name == name:
            return cs
    raise AssertionError(name)


def has_nonintegral_or_lambda(v):
    """join prints numbers through f64 Display: the run-time stand-in covers integral values only"""
    if isinstance(v, Raw):
        return True
    if v.k == "num":
        return not (v.p != v.p or math.isinf(v.p) or v.p == math.floor(v.p))
    if v.k == "list":
        return any(has_nonintegral_or_lambda(x) for x in v.p)
    if v.k == "rec":
        return any(has_nonintegral_or_lambda(x) for _, x in v.p)
    return v.k in ("lam", "builtin")


def range_too_long(cs):
    """never ask either side to build a list of more than 100000 numbers"""
    a = cs.args
    if cs.name != "range" or not a or not all(getattr(x, "k", "") == "num" for x in a) or len(a) > 2:
        return False
    lo, hi = (0.0, a[0].p) if len(a) == 1 else (a[0].p, a[1].p)
    if not (math.isfinite(lo) and math.isfinite(hi) and lo <= hi):
        return False
    cl = lambda x: max(-2 ** 63, min(2 ** 63 - 1, int(x)))
    d = cl(hi) - cl(lo)
    return 100000 < d <= 2 ** 32 - 1


def unmodelled_input(cs):
    if cs.name == "join" and cs.args and getattr(cs.args[0], "k", "") == "list":
        return any(has_nonintegral_or_lambda(x) for x in cs.args[0].p)
    if cs.name in ("trim", "uppercase", "lowercase") and cs.args and getattr(cs.args[0], "k", "") == "str":
        return not v_is_ascii(cs.args[0])
    return False


def norm_rust(o):
    if o.startswith("PANIC"):
        return "PANIC"
    return o


def multiset_of_list_text(t):
    tr = parse_show(t)
    if tr[0] != "L":
        return None
    return sorted(show_tree(x) for x in tr[1])


# =========================================================================== EVAL cases (indexing, spreading)
class ECase:
    __slots__ = ("prog", "coq", "tag", "known")

    def __init__(self, prog, coq, tag, known=None):
        self.prog = prog
        self.coq = coq
        self.tag = tag
        self.known = known

    def line(self):
        return c.hexs(self.prog)

    def text(self):
        return self.prog


def seq_len(v):
    if v.k == "list":
        return len(v.p)
    if v.k == "str":
        return len(v.p)
    return 0


def gen_eval_case(rng):
    r = rng.below(12)
    if r < 4:      # v[i]
        v = rng.choice([gen_list(rng), S(gen_text(rng, 8)), gen_record(rng, 1)])
        if v.k == "rec":
            ks = [k for k, _ in v.p]
            idx = S(rng.choice(ks)) if (ks and rng.chance(2, 3)) else rng.choice([S("nope"), S(""), N(0.0), NULL])
        else:
            idx = gen_index(rng, seq_len(v)) if rng.chance(9, 10) else wrong_typed(rng)
        return ECase("v = %s\nv[%s]" % (v.src(), idx.src()),
                     "(show_out (access_value %s %s))" % (v.coq(), idx.coq()), "index-" + v.k)
    if r < 5:      # wrong container
        v = rng.choice([N(1.0), NULL, B(True), V("builtin", "len")])
        idx = rng.choice([N(0.0), S("a")])
        return ECase("v = %s\nv[%s]" % (v.src(), idx.src()),
                     "(show_out (access_value %s %s))" % (v.coq(), idx.coq()), "index-wrong")
    if r < 7:      # v.field
        v = gen_record(rng, 1) if rng.chance(5, 6) else wrong_typed(rng)
        ks = [k for k, _ in v.p] if v.k == "rec" else []
        ks = [k for k in ks if k.isidentifier() and k.isascii()]
        f = rng.choice(ks) if (ks and rng.chance(2, 3)) else rng.choice(["nope", "a", "zz"])
        return ECase("v = %s\nv.%s" % (v.src(), f),
                     '(show_out (dot_access %s (hx "%s")))' % (v.coq(), c.hexs(f)), "dot")
    if r < 10:     # list literal with spreads
        items = []
        for _ in range(rng.below(5)):
            q = rng.below(6)
            if q < 3:
                inner = rng.choice([gen_list(rng, rng.choice([0, 2, 5])), S(gen_text(rng, 5)), gen_record(rng, 1)])
                if rng.chance(1, 12):
                    inner = rng.choice([N(1.0), NULL, B(False)])
                items.append((True, inner))
            else:
                items.append((False, gen_atom(rng)))
        src = "[" + ", ".join(("..." if sp else "") + v.src() for sp, v in items) + "]"
        binds = []
        names = []
        for i, (sp, v) in enumerate(items):
            if sp:
                binds.append("do s%d <- spread_of %s; " % (i, v.coq()))
                names.append("s%d" % i)
            else:
                names.append(v.coq())
        coq = "(show_out (%slist_literal [%s]))" % ("".join(binds), "; ".join(names))
        return ECase(src, coq, "list-spread")
    if r < 11:     # record literal with spreads
        items = []
        for _ in range(rng.below(5)):
            q = rng.below(6)
            if q < 3:
                inner = rng.choice([gen_record(rng, 1), gen_record(rng, 1), gen_list(rng, 0) if rng.chance(1, 2) else L(N(1), N(2)),
                                    S(gen_text(rng, 4))])
                if inner.k == "list" and len(inner.p) > 12:
                    inner = L(*inner.p[:12])
                items.append(("spread", inner))
            else:
                items.append(("pair", rng.choice(["a", "b", "k", "0", "1", "z"]), gen_atom(rng)))
        parts = []
        binds = []
        names = []
        for i, it in enumerate(items):
            if it[0] == "spread":
                parts.append("..." + it[1].src())
                binds.append("do s%d <- spread_of %s; " % (i, it[1].coq()))
                names.append("RISpread s%d" % i)
            else:
                parts.append('"%s": %s' % (it[1], it[2].src()))
                names.append('RIPair (hx "%s") %s' % (c.hexs(it[1]), it[2].coq()))
        src = "{" + ", ".join(parts) + "}" if parts else "{}"
        coq = "(show_out (%srecord_literal [%s]))" % ("".join(binds), "; ".join(names))
        return ECase(src, coq, "record-spread")
    # call arguments with spreads: concat(...a, ...b) through the evaluator
    a = rng.choice([gen_list(rng, 5), L(gen_list(rng, 0), gen_list(rng, 2)), S(gen_text(rng, 4)), gen_record(rng, 1)])
    b = gen_list(rng, rng.choice([0, 3]))
    src = "concat(...%s, %s)" % (a.src(), b.src())
    coq = ("(show_out (do s <- spread_of %s; do args <- flatten_spreads [s; %s]; "
           "if arity_ok B_concat (length args) then bi_concat args else Err))" % (a.coq(), b.coq()))
    return ECase(src, coq, "call-spread")


def last_result(o):
    if o.startswith("PANIC"):
        return "PANIC"
    body = o.split(";ENV:")[0]
    return body.split("|")[-1] if body else body


def all_results(o):
    if o.startswith("PANIC") or o.startswith("ABORT"):
        return None
    body = o.split(";ENV:")[0]
    return body.split("|")


# =========================================================================== implementation-level laws
class Law:
    """a program whose statement results are checked by `pred(list of result texts)`; pred returns None when the
    law holds, else a description"""
    __slots__ = ("name", "prog", "pred", "known")

    def __init__(self, name, prog, pred, known=None):
        self.name = name
        self.prog = prog
        self.pred = pred
        self.known = known


def ok_tree(t):
    if t is None or not t.startswith("OK:"):
        return None
    return parse_show(t[3:])


def same(a, b):
    return show_tree(a) == show_tree(b)


def is_perm(a, b):
    return sorted(show_tree(x) for x in a) == sorted(show_tree(x) for x in b)


def sorted_stable(inp, out, keyf):
    """out must be inp reordered so that keys are non-decreasing and equal keys keep the input order"""
    keys = [keyf(x) for x in out]
    for i in range(len(keys) - 1):
        cmpv = t_compare(keys[i], keys[i + 1])
        if cmpv is None or cmpv > 0:
            return "not sorted at position %d" % i
    # stability: for every class of equal keys the subsequence is the input's
    used = [False] * len(inp)
    pos = []
    for x in out:
        sx = show_tree(x)
        for j, y in enumerate(inp):
            if not used[j] and show_tree(y) == sx:
                used[j] = True
                pos.append(j)
                break
        else:
            return "element not from the input"
    for i in range(len(out) - 1):
        if t_compare(keys[i], keys[i + 1]) == 0 and pos[i] > pos[i + 1]:
            # identical-looking elements may be matched in either order; only distinct ones show instability
            if show_tree(out[i]) != show_tree(out[i + 1]):
                return "equal keys reordered at position %d" % i
    return None


def long_sort_law(rng, k):
    n = 33 + rng.below(64)
    if k % 2 == 0:
        pool = [0.0, -0.0, 1.0, -1.0, 2.0] if k % 4 == 0 else [0.0, -0.0, 0.0, -0.0, 5.0, -3.0, 0.5]
        l = L(*[N(rng.choice(pool)) for _ in range(n)])

        def pred(res, l=l):
            out = ok_tree(res[1])
            inp = tree_of(l)
            if out is None or out[0] != "L":
                return "sort did not return a list"
            if not is_perm(inp[1], out[1]):
                return "sort result is not a permutation of its input"
            return sorted_stable(inp[1], out[1], lambda x: x)
        return Law("sort: stable permutation, non-decreasing (long list holding both zeros)",
                   "l = %s\nsort(l)" % l.src(), pred)
    l = L(*[R(("k", N(rng.choice([0.0, -0.0, 1.0, 2.0]))), ("id", N(float(i)))) for i in range(n)])

    def pred2(res, l=l):
        out = ok_tree(res[1])
        inp = tree_of(l)
        if out is None or out[0] != "L":
            return "sort_by did not return a list"
        if not is_perm(inp[1], out[1]):
            return "sort_by result is not a permutation of its input"
        return sorted_stable(inp[1], out[1], lambda x: dict(x[1])[b"k"])
    return Law("sort_by: stable permutation ordered by key (long list, keys 0 / -0)",
               "l = %s\nsort_by(l, x => x.k)" % l.src(), pred2)


def gen_law(rng):
    r = rng.below(20)
    if r == 0:
        l = gen_list(rng)

        def pred(res, l=l):
            out = ok_tree(res[1])
            inp = tree_of(l)
            if out is None or out[0] != "L":
                return "sort did not return a list"
            if not is_perm(inp[1], out[1]):
                return "sort result is not a permutation of its input"
            if t_mutually_comparable(inp[1]):
                return sorted_stable(inp[1], out[1], lambda x: x)
            return None
        return Law("sort: stable permutation, non-decreasing when mutually comparable",
                   "l = %s\nsort(l)" % l.src(), pred)
    if r == 1:
        l = keyed_records(rng)
        field = rng.choice(["k", "tag"])

        def pred(res, l=l, field=field):
            out = ok_tree(res[1])
            inp = tree_of(l)
            if out is None or out[0] != "L":
                return "sort_by did not return a list"
            if not is_perm(inp[1], out[1]):
                return "sort_by result is not a permutation of its input"
            keyf = lambda x: dict(x[1])[field.encode()]
            if t_mutually_comparable([keyf(x) for x in inp[1]]):
                return sorted_stable(inp[1], out[1], keyf)
            return None
        return Law("sort_by: stable permutation ordered by key", "l = %s\nsort_by(l, x => x.%s)" % (l.src(), field), pred)
    if r == 2:
        l = gen_list(rng)

        def pred(res, l=l):
            out = ok_tree(res[1])
            inp = tree_of(l)[1]
            exp = []
            for x in inp:
                if not any(t_equals(x, y) for y in exp):
                    exp.append(x)
            if out is None or not same(out, ("L", exp)):
                return "unique must keep the first member of each .== class in order"
            return None
        return Law("unique keeps the first of each .== class", "l = %s\nunique(l)" % l.src(), pred)
    if r == 3:
        l = gen_list(rng)

        def pred(res, l=l):
            a, b = ok_tree(res[1]), ok_tree(res[2])
            inp = tree_of(l)
            if a is None or b is None or not same(b, inp) or not same(a, ("L", inp[1][::-1])):
                return "reverse is not the reversal / not an involution"
            return None
        return Law("reverse involutive", "l = %s\nreverse(l)\nreverse(reverse(l))" % l.src(), pred)
    if r == 4:
        a, b = gen_list(rng), gen_list(rng)

        def pred(res, a=a, b=b):
            x, y = ok_tree(res[2]), ok_tree(res[3])
            exp = ("L", tree_of(a)[1] + tree_of(b)[1])
            if x is None or y is None or not same(x, exp) or not same(y, exp):
                return "concat(a, b) / [...a, ...b] is not a followed by b"
            return None
        return Law("concat = append = [...a, ...b]", "a = %s\nb = %s\nconcat(a, b)\n[...a, ...b]" % (a.src(), b.src()), pred)
    if r == 5:
        l = gen_list(rng)
        n = 1 + rng.below(len(l.p) + 2)

        def pred(res, l=l, n=n):
            ch, fl = ok_tree(res[1]), ok_tree(res[2])
            inp = tree_of(l)
            if ch is None or fl is None:
                return "chunk / flatten failed"
            if all(x[0] != "L" for x in inp[1]) and not same(fl, inp):
                return "flatten(chunk(l, n)) differs from l"
            flat = [y for x in ch[1] for y in x[1]]
            if not same(("L", flat), inp):
                return "the chunks do not concatenate to l"
            lens = [len(x[1]) for x in ch[1]]
            if any(k != n for k in lens[:-1]) or (lens and not (1 <= lens[-1] <= n)):
                return "chunk lengths are wrong: %r" % lens
            return None
        return Law("flatten(chunk(l,n)) = l and chunk lengths", "l = %s\nchunk(l, %d)\nflatten(chunk(l, %d))" % (l.src(), n, n), pred)
    if r == 6:
        ls = [gen_list(rng, rng.choice([0, 2, 5])) for _ in range(2 + rng.below(3))]

        def pred(res, ls=ls):
            z = ok_tree(res[0])
            ts = [tree_of(l)[1] for l in ls]
            if z is None or len(z[1]) != max(len(t) for t in ts):
                return "zip length is not the maximum length"
            for i, tup in enumerate(z[1]):
                exp = [t[i] if i < len(t) else ("U",) for t in ts]
                if not same(tup, ("L", exp)):
                    return "zip tuple %d is wrong" % i
            return None
        return Law("zip length = max, padding null", "zip(%s)" % ", ".join(l.src() for l in ls), pred)
    if r == 7:
        l = gen_list(rng)
        n = len(l.p)
        i = rng.below(n + 1)
        j = i + rng.below(n - i + 1)

        def pred(res, l=l, i=i, j=j):
            s = ok_tree(res[1])
            inp = tree_of(l)[1]
            if s is None or not same(s, ("L", inp[i:j])):
                return "slice(l, i, j) is not the elements i..j-1"
            if inp:
                h, t = res[2], ok_tree(res[3])
                if h != "OK:" + show_tree(inp[0]) or t is None or not same(t, ("L", inp[1:])):
                    return "head / tail do not rebuild the list"
            return None
        return Law("slice / head / tail rebuild", "l = %s\nslice(l, %d, %d)\nhead(l)\ntail(l)" % (l.src(), i, j), pred)
    if r == 8:
        a = float(rng.below(60) - 30)
        b = a + rng.below(40)
        fa = a + rng.choice([0.0, 0.0, 0.25, 0.75]) if a >= 0 else a - rng.choice([0.0, 0.0, 0.25])
        if fa > b:
            fa = a

        def pred(res, a=a, b=b, fa=fa):
            out = ok_tree(res[0])
            exp = ("L", [("N", f2bits(float(x))) for x in range(int(fa), int(b))])
            if out is None or not same(out, exp):
                return "range(a, b) is not [trunc a .. trunc b - 1]"
            return None
        return Law("range(a,b) lists a..b-1", "range(%s, %s)" % (N(fa).src(), N(b).src()), pred)
    if r == 9:
        rec = gen_record(rng, 2)

        def pred(res, rec=rec):
            ks, vs, es = ok_tree(res[1]), ok_tree(res[2]), ok_tree(res[3])
            tr = tree_of(rec)[1]
            if ks is None or vs is None or es is None:
                return "keys/values/entries failed"
            if not same(ks, ("L", [("S", k) for k, _ in tr])) or not same(vs, ("L", [v for _, v in tr])):
                return "keys/values differ from the record's fields in order"
            if not same(es, ("L", [("L", [("S", k), v]) for k, v in tr])):
                return "entries differ from [key, value] pairs"
            acc = ok_tree(res[4])
            if acc is None or not same(acc, vs):
                return "r[k] for k in keys(r) differs from values(r)"
            sp = ok_tree(res[5])
            if sp is None or not same(sp, es):
                return "[...r] differs from entries(r)"
            return None
        return Law("keys/values/entries agree with field access and spreading",
                   "r = %s\nkeys(r)\nvalues(r)\nentries(r)\nmap(keys(r), k => r[k])\n[...r]" % rec.src(), pred)
    if r in (10, 11):
        l = keyed_records(rng)

        def pred(res, l=l):
            g, cn = ok_tree(res[1]), ok_tree(res[2])
            inp = tree_of(l)[1]
            if g is None or cn is None or g[0] != "R" or cn[0] != "R":
                return "group_by / count_by failed"
            tag = lambda x: dict(x[1])[b"tag"][1]
            first = []
            for x in inp:
                if tag(x) not in first:
                    first.append(tag(x))
            if [k for k, _ in g[1]] != first or [k for k, _ in cn[1]] != first:
                return "group keys are not in first-occurrence order"
            for k, grp in g[1]:
                exp = [x for x in inp if tag(x) == k]
                if not same(grp, ("L", exp)):
                    return "group %r is not the stable sub-list of items with that key" % k
            tot = 0
            for (k, cv), (_, grp) in zip(cn[1], g[1]):
                if cv[0] != "N" or t_num(cv) != len(grp[1]):
                    return "count_by disagrees with the group size"
                tot += int(t_num(cv))
            if tot != len(inp):
                return "counts do not sum to the length"
            return None
        return Law("group_by / count_by partition the list",
                   "l = %s\ngroup_by(l, x => x.tag)\ncount_by(l, x => x.tag)" % l.src(), pred)
    if r in (12, 13):
        s = gen_text(rng, 10)
        d = rng.choice([",", "", "a", "ab", "é", " ", "aa", s[:1], s[1:3], "€"])

        def pred(res, s=s, d=d):
            parts, j, rp = ok_tree(res[0]), ok_tree(res[1]), ok_tree(res[2])
            if parts is None or j is None or j != ("S", s.encode()):
                return "join(split(s, d), d) differs from s"
            if d and [p[1] for p in parts[1]] != [x.encode() for x in s.split(d)]:
                return "split pieces differ from leftmost non-overlapping splitting"
            if rp is None or rp[0] != "S" or (d and rp[1] != s.replace(d, "<>").encode()):
                return "replace(s, d, x) differs from join(split(s, d), x)"
            return None
        return Law("join(split(s,d),d) = s", "split(%s, %s)\njoin(split(%s, %s), %s)\nreplace(%s, %s, \"<>\")"
                   % (S(s).src(), S(d).src(), S(s).src(), S(d).src(), S(d).src(), S(s).src(), S(d).src()), pred)
    if r in (14, 15):
        v = gen_list(rng) if rng.chance(1, 2) else S(gen_text(rng, 8))
        items = tree_of(v)[1] if v.k == "list" else [("S", x) for x in t_chars(v.p.encode())]
        n = len(items)
        idxs = [float(i) for i in range(-n - 2, n + 2)] + [0.5, -0.5, n - 0.5, 1.9, -1.9]

        def pred(res, items=items, idxs=idxs, n=n):
            out = ok_tree(res[1])
            if out is None or len(out[1]) != len(idxs):
                return "indexing failed"
            for x, got in zip(idxs, out[1]):
                i = int(x)
                if i < 0:
                    i += n
                exp = items[i] if 0 <= i < n else ("U",)
                if not same(got, exp):
                    return "v[%r] is wrong" % x
            sp = ok_tree(res[2])
            if sp is None or not same(sp, ("L", items)):
                return "[...v] differs from the elements / characters"
            return None
        return Law("indexing 0-based, negative from the end, null out of range; spreading yields elements/characters",
                   "v = %s\n[%s]\n[...v]" % (v.src(), ", ".join("v[%s]" % N(x).src() for x in idxs)), pred)
    if r == 16:
        rec = gen_record(rng, 1)

        def pred(res, rec=rec):
            if res[1] != "OK:U" or res[2] != "OK:U":
                return "absent field is not null"
            return None
        return Law("field access yields null for absent keys", "r = %s\nr.absent_key\nr[\"absent key\"]" % rec.src(), pred)
    # string / character consistency
    s = gen_text(rng, 8)
    chs = t_chars(s.encode())
    n = len(chs)
    i = rng.below(n + 1)
    j = i + rng.below(n - i + 1)

    def pred(res, s=s, chs=chs, i=i, j=j, n=n):
        ln, hd, tl, sl = res[1], res[2], res[3], res[4]
        if ln != "OK:" + N(float(n)).show():
            return "len(s) is not the number of characters that indexing and spreading expose"
        if hd != "OK:" + S(chs[0].decode() if chs else "").show():
            return "head(s) is not the first character"
        if tl != "OK:" + S(b"".join(chs[1:]).decode()).show():
            return "tail(s) is not the remaining characters"
        if sl != "OK:" + S(b"".join(chs[i:j]).decode()).show():
            return "slice(s, i, j) is not characters i..j-1"
        return None
    return Law("string functions see the same characters as indexing/spreading",
               "s = %s\nlen(s)\nhead(s)\ntail(s)\nslice(s, %d, %d)" % (S(s).src(), i, j), pred)


# =========================================================================== main
def run_replay(h, path):
    with open(path) as f:
        rp = json.load(f)
    print(json.dumps(rp, indent=1, ensure_ascii=False))
    if rp.get("kind") == "builtin":
        out = c.harness_lines_resilient(h, "c14-builtin", [rp["line"]], ["--checked"] if rp.get("checked") else [])
        print("implementation now returns:", out[0])
        return 0 if norm_rust(out[0]) == rp.get("expected") else 1
    if rp.get("program") is not None:
        out = c.harness_lines_resilient(h, "eval", [c.hexs(rp["program"])])
        now = out[0].split(";ENV:")[0]
        print("implementation now returns:", now)
        if rp.get("expected") is not None:
            return 0 if last_result(out[0]) == rp["expected"] else 1
        # a law failure: still failing iff the implementation still answers what was recorded
        return 1 if now == rp.get("observed") else 0
    return 0


def main(argv):
    tier, seed, replay = c.tier_and_seed(argv)
    res = c.Result(PID, tier, seed)
    rng = c.Rng(seed ^ 0xC14)
    try:
        h = c.build_harness()
        c.regen_builtins(h)
        load_callbacks(h)
    except c.BrokenTie as e:
        res.tie_broken(e.what, e.detail)
        return res.finish()
    if replay:
        return run_replay(h, replay)

    c.proof_step(res, PID, extra_targets=["C14Run.vo"])
    known = {e["id"]: e for e in c.open_known(PID)}

    # ------------------------------------------------------------------ witnesses of fixed findings (regression corpus)
    wpath = os.path.join(c.VERIF, "corpus", PID, "fixed_witnesses.jsonl")
    wit = [json.loads(l) for l in open(wpath) if l.strip()] if os.path.exists(wpath) else []
    wouts = c.harness_lines_resilient(h, "eval", [c.hexs(w["program"]) for w in wit])
    wbad = 0
    for w, o in zip(wit, wouts):
        got = last_result(o)
        if got != w["expected"]:
            wbad += 1
            res.violation("fixed finding %s is back: %s" % (w["id"], w["what"]),
                          {"kind": "impl", "program": w["program"], "observed": got, "expected": w["expected"],
                           "rerun": "./check C14 --replay <this file>"})
    res.streams["FIXED-WITNESSES"] = {"cases": len(wit), "failing": wbad}

    # ------------------------------------------------------------------ BUILTIN correspondence
    nb = 2600 if tier == "quick" else 40000
    nm = 500 if tier == "quick" else 8000
    cases = []
    corpus = os.path.join(c.VERIF, "corpus", PID, "builtin.jsonl")
    if os.path.exists(corpus):
        for l in open(corpus):
            if l.strip():
                d = json.loads(l)
                cases.append(Case(d["name"], [Raw(a["src"], a["coq"]) for a in d["args"]],
                                  "corpus", d.get("checked", False)))
    for _ in range(nb):
        cases.append(gen_builtin_case(rng))
    for _ in range(nm):
        cases.append(gen_malformed_case(rng))
    cases = [cs for cs in cases if not range_too_long(cs)]
    plain = [cs for cs in cases if not cs.checked]
    chk = [cs for cs in cases if cs.checked]
    outs = {}
    for group, args in ((plain, []), (chk, ["--checked"])):
        o = c.harness_lines_resilient(h, "c14-builtin", [cs.line() for cs in group], args)
        for cs, x in zip(group, o):
            outs[id(cs)] = norm_rust(x)
    tomodel = [cs for cs in cases if not unmodelled_input(cs)]
    try:
        model = c.coq_eval_batch(REQS, "", [cs.coq() for cs in tomodel], "c14b")
    except c.BrokenTie as e:
        res.tie_broken(e.what, e.detail)
        model = [None] * len(tomodel)
    mism = []
    validated = 0
    unmodelled = 0
    tags = {}
    outcome_hist = {}
    for cs, m in zip(tomodel, model):
        r = outs[id(cs)]
        tags[cs.tag] = tags.get(cs.tag, 0) + 1
        outcome_hist[r.split(":")[0]] = outcome_hist.get(r.split(":")[0], 0) + 1
        if m is None:
            continue
        if m == "UNMODELLED":
            unmodelled += 1
            continue
        if m == r:
            validated += 1
        else:
            mism.append((cs, m, r))
    if mism:
        cs, m, r = mism[0]
        res.tie_broken("correspondence C14/BUILTIN: model and implementation disagree on %d of %d cases"
                       % (len(mism), len(tomodel)),
                       "first: %s ; model=%s impl=%s" % (cs.text(), m, r))
        # a panic of the real code on an arity-respecting call is a concrete failing input of its own
        for cs, m, r in mism:
            if r == "PANIC" and (cs.checked or cs.tag not in ("short", "noargs", "long")):
                res.violation("built-in %s panics" % cs.name,
                              {"kind": "builtin", "line": cs.line(), "checked": cs.checked, "call": cs.text(),
                               "observed": r, "expected": m, "rerun": "./check C14 --replay <this file>"})
                break
    res.streams["BUILTIN"] = {"cases": len(cases), "modelled": len(tomodel), "validated": validated,
                              "mismatches": len(mism), "model_unmodelled": unmodelled,
                              "input_outside_oracle_domain": len(cases) - len(tomodel), "tags": tags,
                              "impl_outcomes": outcome_hist}

    # ------------------------------------------------------------------ EVAL correspondence
    ne = 900 if tier == "quick" else 15000
    ecases = [gen_eval_case(rng) for _ in range(ne)]
    eouts = [last_result(o) for o in c.harness_lines_resilient(h, "eval", [e.line() for e in ecases])]
    try:
        emodel = c.coq_eval_batch(REQS, "", [e.coq for e in ecases], "c14e")
    except c.BrokenTie as e:
        res.tie_broken(e.what, e.detail)
        emodel = [None] * len(ecases)
    emism = []
    evalid = 0
    etags = {}
    for e, m, r in zip(ecases, emodel, eouts):
        etags[e.tag] = etags.get(e.tag, 0) + 1
        if m is None or m == "UNMODELLED":
            continue
        if m == r:
            evalid += 1
        else:
            emism.append((e, m, r))
    if emism:
        e, m, r = emism[0]
        res.tie_broken("correspondence C14/EVAL: model and implementation disagree on %d of %d programs"
                       % (len(emism), len(ecases)), "first: %s ; model=%s impl=%s" % (e.text(), m, r))
        for e, m, r in emism:
            if r == "PANIC":
                res.violation("evaluation panics", {"kind": "impl", "program": e.prog, "observed": r, "expected": m})
                break
    res.streams["EVAL"] = {"cases": len(ecases), "validated": evalid, "mismatches": len(emism), "tags": etags}

    # ------------------------------------------------------------------ the laws on the implementation alone
    nl = 1500 if tier == "quick" else 30000
    if res.broken:
        nl *= 3
    laws = [gen_law(rng) for _ in range(nl)]
    # LONG-SORT family (round 7, after seed C14-11: a numeric fast path through an unstable sort shows only on lists of
    # 33 or more elements that hold both zeros): the sort / sort_by laws on lists of 33..96 elements drawn from pools
    # whose members are equal but distinguishable (0 / -0; records with equal keys), where stability is observable
    rl = c.Rng(seed + 1411)
    for k in range(40 if tier == "quick" else 600):
        laws.append(long_sort_law(rl, k))
    # a built-in passed by name as the callback behaves like the lambda that calls it (unary built-ins only: a
    # built-in that can take a second argument is also handed the index)
    ETA_LISTS = {"strs": '["ccc", "a", "dddd", "bb", "a"]', "nums": "[3, -1, -4, 1, -5, 9, 2.5]",
                 "mixed": '[1, "a", null, true, [2], {k: 1}, "b", 0]'}
    ETA = [("sort_by", "strs", "len"), ("sort_by", "nums", "abs"), ("sort_by", "nums", "floor"), ("sort_by", "mixed", "typeof"),
           ("group_by", "mixed", "typeof"), ("count_by", "mixed", "typeof"), ("group_by", "strs", "uppercase"),
           ("map", "nums", "abs"), ("map", "strs", "len"), ("map", "mixed", "typeof"), ("filter", "nums", "to_bool"),
           ("every", "nums", "to_bool"), ("some", "nums", "to_bool"), ("map", "mixed", "to_string")]
    for hof, lk, bi in ETA:
        def pred(res_, hof=hof, bi=bi):
            return None if res_[1] == res_[2] else "%s with the built-in %s by name differs from the lambda calling it" % (hof, bi)
        laws.append(Law("a built-in callback passed by name = the lambda that calls it",
                        "l = %s\n%s(l, %s)\n%s(l, q9 => %s(q9))" % (ETA_LISTS[lk], hof, bi, hof, bi), pred))
    louts = c.harness_lines_resilient(h, "eval", [c.hexs(l.prog) for l in laws])
    lawhist = {}
    law_known = {}
    nviol = 0
    for lw, o in zip(laws, louts):
        lawhist[lw.name] = lawhist.get(lw.name, 0) + 1
        rs = all_results(o)
        nstmts = lw.prog.count("\n") + 1
        if rs is None:
            why = "the evaluation aborted: %s" % o[:80]
        elif len(rs) < nstmts:
            why = "a statement failed: %s" % "|".join(rs)
        else:
            try:
                why = lw.pred(rs)
            except Exception as ex:          # a result of unexpected shape is a failure of the law
                why = "unexpected result shape (%s): %s" % (ex, "|".join(rs)[:200])
        if why is None:
            continue
        if lw.known and lw.known in known:
            law_known[lw.known] = law_known.get(lw.known, 0) + 1
            continue
        nviol += 1
        if nviol <= 5:
            res.violation("%s — %s" % (lw.name, why),
                          {"kind": "impl-law", "law": lw.name, "program": lw.prog, "observed": o.split(";ENV:")[0],
                           "why": why, "rerun": "./check C14 --replay <this file>"})
    res.streams["LAWS"] = {"programs": len(laws), "violations": nviol, "by_law": lawhist,
                           "failures_in_open_finding_classes": law_known}

    # ------------------------------------------------------------------ known findings
    for kid, e in sorted(known.items()):
        w = e["witness"]
        out = c.harness_lines_resilient(h, "eval", [c.hexs(w["program"])])
        got = last_result(out[0])
        still = (got != w["expected_if_fixed"]) if "expected_if_fixed" in w else (got == w.get("observed"))
        res.known("%s %s%s" % (kid, e["what"], "" if still else " (no longer reproduces)"))

    distinct = len({cs.line() + ("c" if cs.checked else "") for cs in cases if outs[id(cs)].startswith("OK:")}) + \
        len({e.prog for e, r in zip(ecases, eouts) if r.startswith("OK:")})
    res.coverage["evaluations"] = len(cases) + len(ecases) + len(laws)
    res.coverage["distinct_nontrivial"] = distinct
    res.coverage["rule"] = ("BUILTIN: structured argument tuples per built-in (lists of length 0..40 in 8 modes, ASCII and "
                            "non-ASCII strings, records, integer/fractional/negative/NaN/huge indices) + a malformed stream "
                            "(wrong types, wrong counts, with and without the arity check); EVAL: indexing, field access, "
                            "list/record/call spreading; LAWS: the property's laws evaluated on the implementation's "
                            "serialised results. non-trivial = distinct inputs on which the implementation returned a value "
                            "(error-arm cases are counted in evaluations only)")
    pick = [cases[rng.below(len(cases))] for _ in range(4)]
    res.coverage["samples"] = [{"call": cs.text(), "impl": outs[id(cs)]} for cs in pick] + \
        [{"program": ecases[rng.below(len(ecases))].prog}] + [{"law": laws[0].name, "program": laws[0].prog}]
    res.coverage["traces_validated_against_impl"] = validated + evalid
    res.assumptions = ["sort/sort_by: the repo's own merge sort is transcribed and compared exactly on every input",
                       "str::split/replace/contains equal naive leftmost search; trim/to_uppercase/to_lowercase and f64 "
                       "Display are oracles in the theorems and are compared on ASCII / integral inputs only"]
    return res.finish()


if __name__ == "__main__":
    sys.exit(main(sys.argv[1:]))
