#!/usr/bin/env python3
"""checks/peg_try.py — developer helper: run texts (one per line of a file, or built-in samples) through
the PEG model and the real parser and print mismatches.  usage: checks/peg_try.py [file-with-texts]"""
import os
import sys
import time

ROOT = os.path.dirname(os.path.dirname(os.path.abspath(__file__)))
sys.path.insert(0, os.path.join(ROOT, "checks"))
sys.path.insert(0, os.path.join(ROOT, "translate"))
import common as c  # noqa: E402
import pest2coq  # noqa: E402

SAMPLES = [
    "", "1", "1 + 2", "x = 1\ny = x + 2", "a  +  b * c", "f(1, 2)", "[1, 2, 3]", "{a: 1, b}", "\"str\"",
    "'it''s'", "if a then b else c", "x => x + 1", "(a, b?) => a", "do {\n  x = 1\n  return x\n}",
    "1 +", "(", "\"abc", "a // comment\nb", "// only comment", "x = [1, // c\n 2]", "a!", "a!=b", "not a",
    "a and b or c", "l via f", "output x = 1", "output y", "1.5e3", "0x1f", "-3", "a.b.c", "a[0]", "é", "\"é\"",
    "x = 1\r\ny = 2", "  x  ", "\t1\t+\t2\t", "f(\n1,\n2\n)", "[...a, b]", "{...a}", "#in + 1", "1_000",
    "trueish", "true", "null", "a ?? b", "a .== b", "((1))", "f(x)(y)", "1 2", "a\n\n\nb", "\n", " ", "a;b",
]


def main():
    texts = SAMPLES
    if len(sys.argv) > 1 and not sys.argv[1].startswith("-"):
        texts = [l.rstrip("\n").encode().decode("unicode_escape") for l in open(sys.argv[1])]
    txt, info = pest2coq.generate(c.REPO)
    c.write_if_changed(os.path.join(c.GEN, "Grammar.v"), txt)
    print("grammar:", info["rules"], "rules; fired:", info["fired"], "; builtins:", info["builtins"])
    ok, log = c.coq_make(["gen/Grammar.vo"])
    if not ok:
        print(log[-3000:])
        return 1
    h = c.build_harness()
    t0 = time.time()
    ast = "--ast" in sys.argv
    impl = c.harness_lines_resilient(h, "parse10" if ast else "pegtree", [c.hexs(t) for t in texts])
    t1 = time.time()
    if ast:
        ok, log = c.coq_make(["PegToItems.vo"])
        if not ok:
            print(log[-3000:])
            return 1
        exprs = ['parse_text (hx "%s")' % c.hexs(t) for t in texts]
        model = c.coq_eval_batch(["Blots.Num", "Blots.PegToItems"], "", exprs, "pegtry")
    else:
        exprs = ['show_res grule_name (parse blots_grammar (peg_fuel (hx "%s")) PG_input (hx "%s"))' % (c.hexs(t), c.hexs(t))
                 for t in texts]
        model = c.coq_eval_batch(["Blots.Num", "Blots.Peg", "Blots.gen.Grammar"], "", exprs, "pegtry")
    t2 = time.time()
    bad = 0
    for t, a, b in zip(texts, impl, model):
        if a != b:
            bad += 1
            print("MISMATCH %r\n  impl : %s\n  model: %s" % (t, a, b))
    print("%d texts, %d mismatches; impl %.1fs model %.1fs" % (len(texts), bad, t1 - t0, t2 - t1))
    if "-v" in sys.argv:
        for t, a in zip(texts, impl):
            print(repr(t), a)
    return 0


if __name__ == "__main__":
    sys.exit(main())
