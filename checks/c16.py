"""C16 — numbers keep their exact value through every textual path.  See notes/C16.md."""
import json
import os
import re
import struct
import subprocess
import sys
from fractions import Fraction

import common as c
import c16_capt

PID = "C16"
MANIFEST = {
    "text": "Coq theorems over the model of the repo's number<->text logic (number-token grammar, literal conversion "
            "incl. i64 radix overflow, the fract()==0 && abs()<1e15 print split, prefix negation, to_string/to_number, "
            "JSON number mapping, serde_json's number parser with and without float_roundtrip): every finite double reads "
            "back identically through to_string->to_number, source emission, formatter and JSON under the named library "
            "contracts (Rust Display / {:.0} / str::parse / serde_json text), radix/underscore/leading-dot/exponent literal "
            "value theorems without library hypotheses (pinned tree: 0x/0b below 2^63, rejected above = F25; repaired tree, "
            "fixes/C16-radix-literal-range.diff: the u128-accumulator + sticky-bit conversion parse_radix_digits returns the "
            "nearest double of the digit string's integer for EVERY length, C16_hex/bin_literal_value_fixed — which of the two "
            "models the correspondence runs is decided by probing the built crate), rn_decimal tied to Flocq's "
            "round-to-nearest-even; model and "
            "contracts tied to the code by the NUMTEXT correspondence (every path's Rust text re-read by the Coq reference "
            "rn_decimal and by the implementation; literals valued by Coq, Rust and an independent Python reference) and "
            "by a round-trip search on the implementation incl. the real CLI",
    "note": "trusted: Coq kernel + vm_compute; hand transcription of grammar.pest number rules / expressions.rs "
            "Rule::number / ast_to_source.rs number printing / serde_json de.rs number parser (validated by "
            "correspondence); library contracts (core::fmt Display and {:.0}, str::parse::<f64>, ryu/serde_json text) are "
            "Section hypotheses validated by sampling only; Flocq's four real-number/classical axioms under the Flocq-based "
            "theorems",
    "design_ref": "DESIGN.md section 6 C16; notes/C16.md",
}
REQ = ["Blots.Num", "Blots.Outcome", "Blots.gen.Builtins", "Blots.Ast", "Blots.NumText"]
F17 = "serde-json-lossy-float-parse"
F25 = "radix-literal-ge-2^63-rejected"
F25_PROBE = ["0xFFFFFFFFFFFFFFFF", "0x8000000000000000", "0b1" + "0" * 63, "0x1" + "0" * 40]


# --------------------------------------------------------------------------- helpers
def bits_of(x):
    return struct.unpack(">Q", struct.pack(">d", x))[0]


def f_of(b):
    return struct.unpack(">d", struct.pack(">Q", b & 0xFFFFFFFFFFFFFFFF))[0]


def hx16(b):
    return "%016x" % b


def is_finite_bits(b):
    return ((b >> 52) & 0x7FF) != 0x7FF


SAFE = set("0123456789abcdefghijklmnopqrstuvwxyzABCDEFGHIJKLMNOPQRSTUVWXYZ.+-_ ,")


def coq_str(s):
    """a Gallina string term: a plain literal for harmless ASCII, hex-decoded otherwise"""
    if all(ch in SAFE for ch in s):
        return '"%s"' % s
    return '(hx "%s")' % c.hexs(s)


def serde_features(directory):
    """features of the serde_json node in the cargo resolve of `directory` (offline)."""
    rc, out, err = c.sh(["cargo", "metadata", "--offline", "--format-version", "1"], cwd=directory, timeout=300)
    if rc != 0:
        raise c.BrokenTie("cargo metadata in %s" % directory, err[-1500:])
    d = json.loads(out)
    for n in d["resolve"]["nodes"]:
        if n["id"].split("#")[-1].startswith("serde_json@") or "/serde_json#" in n["id"] or " serde_json " in n["id"]:
            return sorted(n["features"])
    raise c.BrokenTie("cargo metadata: no serde_json node in %s" % directory)



# --------------------------------------------------------------------------- grammar.pest -> coq/gen/NumGrammar.v
NUM_RULES = ["integer", "binary_digits", "hex_digits", "binary_number", "hex_number", "decimal_number", "number"]


class PestExpr:
    """recursive-descent parser for the subset of pest's expression syntax the number rules use:
    "lit"  ^"lit"  'a'..'b'  ident  ( e )  e? e* e+  !e  e ~ e  e | e     (| binds loosest, then ~)"""

    def __init__(self, text):
        import re
        self.toks = re.findall(r'\^?"(?:[^"\\]|\\.)*"|\'[^\']\'|\.\.|[A-Za-z_][A-Za-z_0-9]*|[()~|?*+!]', text)
        if "".join(self.toks) != re.sub(r"\s+", "", text):
            raise c.BrokenTie("grammar.pest translator: unexpected syntax in a number rule", text)
        self.i = 0

    def peek(self):
        return self.toks[self.i] if self.i < len(self.toks) else None

    def take(self):
        t = self.peek()
        self.i += 1
        return t

    def alt(self):
        items = [self.seq()]
        while self.peek() == "|":
            self.take()
            items.append(self.seq())
        return items[0] if len(items) == 1 else "(%s)" % " </> ".join(items)

    def seq(self):
        items = [self.prefix()]
        while self.peek() == "~":
            self.take()
            items.append(self.prefix())
        return items[0] if len(items) == 1 else "(%s)" % " &> ".join(items)

    def prefix(self):
        if self.peek() == "!":
            self.take()
            return "(p_not %s)" % self.prefix()
        return self.postfix()

    def postfix(self):
        e = self.atom()
        while self.peek() in ("?", "*", "+"):
            op = self.take()
            e = "(%s %s)" % ({"?": "p_opt", "*": "p_star", "+": "p_plus"}[op], e)
        return e

    def atom(self):
        t = self.take()
        if t is None:
            raise c.BrokenTie("grammar.pest translator: truncated number rule")
        if t == "(":
            e = self.alt()
            if self.take() != ")":
                raise c.BrokenTie("grammar.pest translator: unbalanced parenthesis in a number rule")
            return e
        if t.startswith('^"'):
            return '(p_ilit "%s")' % t[2:-1]
        if t.startswith('"'):
            return '(p_lit "%s")' % t[1:-1]
        if t.startswith("'"):
            if self.take() != "..":
                raise c.BrokenTie("grammar.pest translator: character literal outside a range")
            hi = self.take()
            return '(p_range "%s" "%s")' % (t[1], hi[1])
        if t == "ASCII_DIGIT":
            return "ASCII_DIGIT"
        if t in NUM_RULES:
            return "gen_" + t
        raise c.BrokenTie("grammar.pest translator: a number rule refers to %r, which the model does not cover" % t)


def regen_numgrammar():
    """coq/gen/NumGrammar.v: the seven number rules of grammar.pest as PEG combinator terms."""
    import re
    path = os.path.join(c.REPO, "blots-core", "src", "grammar.pest")
    with open(path) as f:
        src = f.read()
    out = ["(* GENERATED by checks/c16.py:regen_numgrammar from blots-core/src/grammar.pest. Do not edit. *)",
           "From Coq Require Import String Ascii.", "Require Import Blots.NumText.", "Open Scope string_scope."]
    kinds = {}
    for name in NUM_RULES:
        m = re.search(r"^%s\s*=\s*([_@$!]?)\{(.*)\}\s*$" % name, src, flags=re.M)
        if not m:
            raise c.BrokenTie("grammar.pest translator: rule %s not found" % name)
        kinds[name] = m.group(1)
        px = PestExpr(m.group(2).strip())
        term = px.alt()
        if px.peek() is not None:
            raise c.BrokenTie("grammar.pest translator: trailing tokens in rule %s" % name)
        out.append("Definition gen_%s : parser := %s." % (name, term))
    # rule modifiers matter: `number` must be atomic (no implicit whitespace), the others silent
    out.append("Definition gen_rule_kinds : list (string * string) := %s."
               % ("(" + " :: ".join('("%s", "%s")' % (n, kinds[n]) for n in NUM_RULES) + " :: nil)%list"))
    c.write_if_changed(os.path.join(c.GEN, "NumGrammar.v"), "\n".join(out) + "\n")

# --------------------------------------------------------------------------- generators
def boundary_doubles():
    out = []

    def around(x, k=2):
        b = bits_of(abs(x))
        for d in range(-k, k + 1):
            nb = b + d
            if 0 <= nb < 0x7FF0000000000000:
                out.append(nb)
                out.append(nb | (1 << 63))

    for e in range(-1074, 1024, 1):
        if e % 23 == 0 or e in (-1074, -1073, -1023, -1022, -1021, -1, 0, 1, 52, 53, 54, 63, 64, 1023):
            around(2.0 ** e, 1)
    for e in range(-323, 309):
        if e % 17 == 0 or -25 <= e <= 25:
            around(float("1e%d" % e), 1)
    around(2.0 ** 53, 4)
    around(1e15, 3)
    around(1e21, 3)
    around(1e16, 2)
    around(1e22, 2)
    around(1e23, 2)
    for v in (1e15 - 1, 1e15 - 2, 1e15 + 1, 1e15 + 2, 999999999999999.9, 999999999999999.5, 1e15 - 0.125,
              0.1, 0.2, 0.3, 1 / 3.0, 2 / 3.0, 1e-7, 1e-5, 1e-4, 123456.789, 5e-324, 1.7976931348623157e308,
              2.2250738585072014e-308, 2.225073858507201e-308, 4.35, 0.5, 1.5, 2.5, 8.41e21, 9007199254740993.0,
              1e300, 1e-300, 0.30000000000000004, 100.0, 1e6, 123456789012345680.0, 4.9406564584124654e-324):
        around(v, 1)
    out += [0x7FF0000000000000, 0xFFF0000000000000, 0x7FF8000000000000]     # non-finite: run and counted, not required
    out += [0, 1 << 63, 1, 2, 3, 0x000FFFFFFFFFFFFF, 0x0010000000000000, 0x7FEFFFFFFFFFFFFF, 0xFFEFFFFFFFFFFFFF,
            0x8000000000000001]
    return out


def gen_doubles(rng, n):
    """uniform bit patterns + boundaries + integers on both sides of the 1e15 split"""
    xs = []
    kinds = {"uniform": 0, "boundary": 0, "int<1e15": 0, "int>=1e15": 0, "half-int": 0, "short-decimal": 0,
             "subnormal": 0, "nonfinite": 0}
    bd = boundary_doubles()
    for b in bd:
        xs.append(b)
    kinds["boundary"] = len(bd)
    kinds["nonfinite"] = sum(1 for b in bd if not is_finite_bits(b))
    while len(xs) < n:
        r = rng.below(100)
        if r < 40:
            b = rng.next()
            if not is_finite_bits(b):
                if rng.chance(1, 8):
                    kinds["nonfinite"] += 1
                    xs.append(b if (b & ((1 << 52) - 1)) == 0 else 0x7FF8000000000000)
                continue
            kinds["uniform"] += 1
        elif r < 55:
            digits = 1 + rng.below(15)
            v = rng.below(10 ** digits)
            b = bits_of(float(v)) | (rng.below(2) << 63)
            kinds["int<1e15"] += 1
        elif r < 68:
            v = 10 ** 15 + rng.below(2 ** 63)
            if rng.chance(1, 3):
                v = 10 ** 15 + rng.below(10 ** 7)
            b = bits_of(float(v)) | (rng.below(2) << 63)
            kinds["int>=1e15"] += 1
        elif r < 76:
            v = rng.below(10 ** (1 + rng.below(15))) + 0.5
            b = bits_of(v) | (rng.below(2) << 63)
            kinds["half-int"] += 1
        elif r < 94:
            digits = 1 + rng.below(17)
            m = rng.below(10 ** digits)
            e = rng.below(60) - 40
            b = bits_of(float("%de%d" % (m, e))) | (rng.below(2) << 63)
            kinds["short-decimal"] += 1
        else:
            b = rng.below(1 << 52) | (rng.below(2) << 63)
            if rng.chance(1, 2):
                b = rng.below(1 << (1 + rng.below(52))) | (rng.below(2) << 63)
            kinds["subnormal"] += 1
        xs.append(b)
    return xs, kinds


def digits_group(rng, alphabet, maxlen):
    return "".join(rng.choice(alphabet) for _ in range(1 + rng.below(maxlen)))


def under(rng, alphabet, maxlen, groups=3):
    g = [digits_group(rng, alphabet, maxlen)]
    for _ in range(rng.below(groups)):
        g.append("_" * (1 + (rng.below(4) == 0)) + digits_group(rng, alphabet, maxlen))
    return "".join(g)


WIDE_SEEN = {}


def gen_literal(rng):
    """(text, class) — class 'doc' = inside the documented literal grammar, 'odd' = anything else"""
    r = rng.below(100)
    D = "0123456789"
    if r < 22:      # plain / underscore-separated integers and decimals
        t = under(rng, D, 6)
        if rng.chance(1, 2):
            t += "." + digits_group(rng, D, 8)
        return t, "doc"
    if r < 40:      # scientific
        t = under(rng, D, 5, 2)
        if rng.chance(1, 2):
            t += "." + digits_group(rng, D, 6)
        ex = rng.below(40) if rng.chance(3, 4) else rng.below(700)
        t += rng.choice("eE") + rng.choice(["", "+", "-"]) + str(ex)
        return t, "doc"
    if r < 48:      # leading dot
        t = "." + digits_group(rng, D, 10)
        if rng.chance(1, 3):
            t += rng.choice("eE") + rng.choice(["", "+", "-"]) + str(rng.below(330))
        return t, "doc"
    if 48 <= r < 74 and rng.chance(1, 2):      # wide hex / binary (F25 class and its neighbourhood)
        t, k = gen_wide_literal(rng)
        WIDE_SEEN[t] = k
        return t, "doc"
    if r < 62:      # hex
        n = rng.choice([1, 2, 4, 8, 12, 15, 16, 16, 16, 17, 20])
        t = "0x" + under(rng, "0123456789abcdefABCDEF", n, 2)
        if rng.chance(1, 6):
            t = "0x" + rng.choice(["7fffffffffffffff", "8000000000000000", "7FFF_FFFF_FFFF_FFFF", "ffffffffffffffff",
                                   "20000000000001", "20000000000003", "7ffffffffffffdff", "7ffffffffffffe00",
                                   "0000000000000000000001", "001f_ffff_ffff_ffff"])
        return t, "doc"
    if r < 74:      # binary
        n = rng.choice([1, 3, 8, 16, 32, 53, 54, 62, 63, 64, 70])
        t = "0b" + under(rng, "01", n, 2)
        if rng.chance(1, 8):
            t = "0b" + rng.choice(["1" * 63, "1" * 64, "1" + "0" * 63, "0" * 70 + "1", "1" * 53 + "0" * 10,
                                   "1" * 54 + "0" * 9, "1" + "0" * 52 + "1" + "0" * 9])
        return t, "doc"
    if r < 82:      # hard decimal cases: many digits, halfway points
        base = rng.choice(["9007199254740993", "9007199254740992.5", "9007199254740993.0000000000000001",
                           "1.7976931348623158079e308", "1.7976931348623158080e308", "2.4703282292062327e-324",
                           "2.4703282292062328e-324", "4.9406564584124654e-324", "0.1000000000000000055511151231257827",
                           "1e23", "8.41e21", "2.2250738585072011e-308", "2.2250738585072012e-308",
                           "1.00000000000000011102230246251565404236316680908203125",
                           "1.00000000000000011102230246251565404236316680908203124",
                           "1.00000000000000011102230246251565404236316680908203126",
                           "179769313486231580793728971405303415079934132710037826936173778980444968292764750946649017"
                           "9775872070963302864166928879109465555478519404026306574886715058206819089020007083836762"
                           "7385404330192198826964325000793223737279184419469292764750946649017977587207096330286416"
                           "692887910946555547851940402630657488671505820681908902000708383676273854043301921988",
                           "0." + "0" * 400 + "1", "1" + "0" * 400, "1e400", "1e-400", "123456789012345678901234567890",
                           "0.000001", "1e15", "999999999999999.9", "1e21", "1e22"])
        return base, "doc"
    # odd / malformed
    pool = ["1_-5", "1_+5", "+5", "+0x10", "+0b1", "0b12", "0b", "0x", "0xg", "0x1g", "0b1_", "1_", "_1", "1__0", "5.",
            "1.5.5", "0X10", "0B1", "1e", "1e+", "1ee5", "1e5.5", "+.5", ".", "..5", "1._5", "1.5_0", "1e1_0", "00012",
            "0x_1", "0b_1", "0x1__2", "1e999", "1e-999", "0e999", "12abc", "1x", "0b102", "0x-1", "1E+05", "-", "--",
            "0x8000000000000000", "-0x8000000000000000", "0b" + "1" * 64, "1_e5", "1e_5", "1_.5", "0.e5", "١٢٣",
            "(5)", "(-5)", "-(5)", "-(-5)", "(-0)", "(1_000)", "(0x10)", "(.5e1)", "( 5 )", "((5))", "(5", "5)",
            "(0xFFFFFFFFFFFFFFFF)", "(1_-5)", "(-0.1)", "()"]
    t = rng.choice(pool)
    if rng.chance(1, 4):
        t = rng.choice(["-", "--", "---"]) + t
    return t, "odd"


def int_to_double_bits(v):
    """bits of the double nearest to the non-negative integer v (ties to even), +inf from 2^1024 - 2^970 on
    (Python's int -> float conversion is correctly rounded and raises OverflowError exactly there)"""
    try:
        return bits_of(float(v))
    except OverflowError:
        return 0x7FF0000000000000


def radix_int(t):
    """the integer a documented unsigned 0x / 0b literal denotes, or None"""
    import re
    if re.fullmatch(r"0x[0-9a-fA-F]+(_+[0-9a-fA-F]+)*", t):
        return int(t[2:].replace("_", ""), 16)
    if re.fullmatch(r"0b[01]+(_+[01]+)*", t):
        return int(t[2:].replace("_", ""), 2)
    return None


def radix_over(t):
    """is t (after any prefix negations) a 0x / 0b literal of the F25 class: value >= 2^63"""
    v = radix_int(t.lstrip("-"))
    return v is not None and v >= 2 ** 63


def py_literal_value(t):
    """independent reference: bits of the big-integer / correctly rounded decimal value of a documented literal
    (any number of prefix negations applied), or None when t is not in the documented grammar."""
    import re
    if t.startswith("-"):
        r = py_literal_value(t[1:])
        return None if r is None else r ^ (1 << 63)
    v = radix_int(t)
    if v is not None:
        return int_to_double_bits(v)
    if re.fullmatch(r"([0-9]+(_+[0-9]+)*(\.[0-9]+)?|\.[0-9]+)([eE][+-]?[0-9]+)?", t):
        s = t.replace("_", "")
        if s.startswith("."):
            s = "0" + s
        try:
            return bits_of(float(s))
        except (OverflowError, ValueError):
            return None
    return None


# ---- wide radix literals (F25 and its repair): values chosen around the places where a wide-accumulator /
# sticky-bit conversion can go wrong, rendered in hexadecimal or binary
WIDE_KINDS = ("near-2^53", "near-2^63", "near-2^64", "near-2^127/128", "near-acc-capacity", "exact-tie",
              "tie+far-low-digit", "tie-far-low-digit", "300-digit", "overflow-edge", "random-wide")


def big_below(rng, n):
    """uniform-ish integer in [0, n) for n of any size (c.Rng yields 64 bits per draw)"""
    acc = 0
    for _ in range(n.bit_length() // 64 + 2):
        acc = (acc << 64) | rng.next()
    return acc % n


def gen_wide_value(rng):
    """(integer, kind)"""
    k = rng.choice(WIDE_KINDS)
    small = lambda: rng.below(7) - 3
    if k == "near-2^53":
        return 2 ** (53 + rng.below(3)) + rng.below(9) - 4, k
    if k == "near-2^63":
        return 2 ** 63 + (small() if rng.chance(1, 2) else rng.below(4096) - 2048), k
    if k == "near-2^64":
        return 2 ** 64 + (small() if rng.chance(1, 2) else rng.below(8192) - 4096), k
    if k == "near-2^127/128":
        e = rng.choice([127, 128])
        return 2 ** e + rng.choice([small(), big_below(rng, 2 ** 76) - 2 ** 75, -(2 ** 74), 2 ** 75, 2 ** 75 + 1]), k
    if k == "near-acc-capacity":        # 120..132 bits: where the first digits start to be left out of the accumulator
        e = 118 + rng.below(16)
        return 2 ** e + big_below(rng, 2 ** e), k
    if k in ("exact-tie", "tie+far-low-digit", "tie-far-low-digit"):
        m = 2 ** 52 + rng.below(2 ** 52)                        # 53 significant bits, last one either parity
        sh = rng.choice([1, 2, 3, 4, 10, 11, 12, 60, 66, 70, 71, 72, 73, 74, 75, 76, 80, 100, 200, 400, 900, 969, 970])
        v = (2 * m + 1) << (sh - 1)                             # 54 bits then zeros: halfway between two doubles
        if k == "tie+far-low-digit":
            v += 1 if rng.chance(2, 3) else (1 << rng.below(max(1, sh - 1)))
        elif k == "tie-far-low-digit":
            v -= 1 if rng.chance(2, 3) else (1 << rng.below(max(1, sh - 1)))
        return v, k
    if k == "300-digit":
        nd = rng.choice([300, 60, 120, 200, 250, 255, 256, 257, 400])     # significant digits; padded to >= 300 below
        return big_below(rng, 16 ** nd), k
    if k == "overflow-edge":                                    # MAX, the tie MAX / 2^1024 (rounds to infinity) and around
        return 2 ** 1024 - 2 ** 970 + rng.choice([0, -1, 1, -(2 ** 969), 2 ** 969, -(2 ** 970), 2 ** 970, 2 ** 971]), k
    nb = 64 + rng.below(1100)
    return big_below(rng, 2 ** nb), k


def gen_wide_literal(rng):
    """(text, kind): a documented unsigned 0x / 0b literal, possibly with leading zeros and `_` separators,
    sometimes under prefix negations"""
    v, k = gen_wide_value(rng)
    v = max(v, 0)
    if rng.chance(2, 3) or v.bit_length() > 700 or k == "300-digit":
        body = "%x" % v
        if k == "300-digit":
            body = body.rjust(300, "0")
        if rng.chance(1, 2):
            body = "".join(ch.upper() if rng.chance(1, 2) else ch for ch in body)
        pre = "0x"
    else:
        body = bin(v)[2:]
        pre = "0b"
    if rng.chance(1, 5):
        body = "0" * (1 + rng.below(40)) + body
    if rng.chance(1, 3):
        cut = sorted(set(1 + rng.below(len(body)) for _ in range(1 + rng.below(3)))) if len(body) > 1 else []
        parts, last = [], 0
        for ccut in cut:
            if ccut < len(body):
                parts.append(body[last:ccut])
                last = ccut
        parts.append(body[last:])
        body = ("_" if rng.chance(5, 6) else "__").join(x for x in parts if x)
    t = pre + body
    if rng.chance(1, 6):
        t = rng.choice(["-", "--"]) + t
    return t, k


def gen_tonum_text(rng):
    D = "0123456789"
    r = rng.below(100)
    if r < 50:
        t = rng.choice(["", "-", "+"])
        form = rng.below(4)
        if form == 0:
            t += digits_group(rng, D, 20)
        elif form == 1:
            t += digits_group(rng, D, 10) + "." + (digits_group(rng, D, 25) if rng.chance(4, 5) else "")
        elif form == 2:
            t += "." + digits_group(rng, D, 12)
        else:
            t += digits_group(rng, D, 3) + "." + digits_group(rng, D, 17)
        if rng.chance(1, 2):
            t += rng.choice("eE") + rng.choice(["", "+", "-"]) + str(rng.below(400))
        return t
    if r < 60:
        return rng.choice(["inf", "-inf", "+inf", "Infinity", "INFINITY", "-infinity", "nan", "NaN", "-nan", "+NAN",
                           "infinit", "in", "na", "infinityy"])
    pool = ["", " ", "1 ", " 1", "1_0", "0x10", "0b1", "1e", "e5", ".", "+", "-", "+-1", "1..2", "1.2.3", "1e5e5",
            "1e+", "١", "1,5", "1e5.0", "--1", "1f", "1d", "0.", ".0", "-.0e-0", "1e99999999999999999999",
            "1e-99999999999999999999", "0e99999999999999999999", "0." + "0" * 350 + "1e350",
            "1" + "0" * 350 + "e-350", "4.9406564584124654e-324", "2.4703282292062327208e-324",
            "2.4703282292062327209e-324", "1.7976931348623158e308", "1.7976931348623159e308"]
    return rng.choice(pool)


def gen_json_text(rng):
    D = "0123456789"
    r = rng.below(100)
    if r < 55:
        t = rng.choice(["", "-"])
        ip = rng.choice(["0", str(1 + rng.below(9)) + "".join(rng.choice(D) for _ in range(rng.below(24)))])
        t += ip
        if rng.chance(2, 3):
            t += "." + digits_group(rng, D, 24)
        if rng.chance(1, 2):
            t += rng.choice("eE") + rng.choice(["", "+", "-"]) + str(rng.below(360))
        return t
    if r < 70:
        return rng.choice(["", "-"]) + rng.choice(
            ["18446744073709551615", "18446744073709551616", "18446744073709551620", "9223372036854775807",
             "9223372036854775808", "9223372036854775809", "9007199254740993", "18446744073709551615.5",
             "184467440737095516150", "1844674407370955161.5", "18446744073709551616.5", "18446744073709551614.99",
             "123456789012345678901234567890", "0.000000000000000000000000000000000000001234567890123456789",
             "0", "0.0", "0e0", "0e999999999999", "1e999999999999", "1e-999999999999", "0.0e-999999999999",
             "1e308", "1e309", "1.7976931348623157e308", "1.7976931348623159e308", "5e-324", "2e-324", "3e-324",
             "1e-400", "12345678901234567890e-340", "1" + "0" * 310, "1" + "0" * 310 + "e-310"])
    pool = ["", "-", "+1", "01", "-01", "1.", ".5", "1e", "1e+", "1.e5", "1.5e", "0x10", "1_0", "inf", "NaN",
            "1,", "--1", "1e5.5", "00", "-0", "-0.0", "1E5", "1E+5"]
    return rng.choice(pool)


# --------------------------------------------------------------------------- running
def shrink_literal(h, t, ro, exp, skip_over=False):
    """greedy delta debugging on a failing documented literal: delete one character at a time while the
    text stays in the documented grammar (below 2^63 for radix literals while F25 is open and unrepaired:
    skip_over) and still fails"""
    cur, cur_ro, cur_exp = t, ro, exp
    for _ in range(40):
        cands = []
        for i in range(len(cur)):
            u = cur[:i] + cur[i + 1:]
            r = py_literal_value(u)
            if r is not None and not (skip_over and radix_over(u)):
                cands.append((u, hx16(r)))
        if not cands:
            break
        outs = c.harness_lines_resilient(h, "c16-lit", [c.hexs(u) for u, _ in cands])
        nxt = None
        for (u, e), o in zip(cands, outs):
            if o != e:
                nxt = (u, o, e)
                break
        if nxt is None:
            break
        cur, cur_ro, cur_exp = nxt
    return cur, cur_ro, cur_exp


def corpus_lines(prefix):
    """corpus/C16/<prefix>*.txt, comment lines dropped; the corpus always runs first"""
    out = []
    d = os.path.join(c.VERIF, "corpus", PID)
    if os.path.isdir(d):
        for fn in sorted(os.listdir(d)):
            if fn.startswith(prefix):
                with open(os.path.join(d, fn)) as fh:
                    out += [ln.rstrip("\n") for ln in fh if ln.strip() and not ln.startswith("#")]
    return out


def parse_fields(line):
    d = {}
    for part in line.split(" "):
        if "=" in part:
            k, v = part.split("=", 1)
            d[k] = v
    return d


def run_cli_roundtrip(cli, texts):
    """`output x = inputs.x` in the real binary, inputs.x = JSON list of number texts -> list of bits / error text"""
    doc = '{"x":[' + ",".join(texts) + "]}"
    p = subprocess.run([cli, "-i", doc, "output x = inputs.x"], stdin=subprocess.DEVNULL, capture_output=True,
                       text=True, timeout=600)
    if p.returncode != 0:
        return None, "exit %d: %s" % (p.returncode, (p.stdout + p.stderr)[-300:])
    try:
        # split the output list textually, value each number text with Python's correctly rounded float()
        body = p.stdout.strip()
        assert body.startswith('{"x":[') and body.endswith("]}")
        items = body[len('{"x":['):-2].split(",") if len(body) > len('{"x":[]}') else []
        return [(it, bits_of(float(it))) for it in items], None
    except Exception as e:          # noqa
        return None, "unparsable output: %s" % p.stdout[-300:]


def replay(h, cli, path):
    with open(path) as f:
        rp = json.load(f)
    print(json.dumps(rp, indent=1))
    kind = rp.get("kind")
    if kind == "c16-num":
        out = c.harness_lines_resilient(h, "c16-num", [rp["bits"]])[0]
        fields = parse_fields(out)
        print("implementation now returns:", {k: fields.get(k) for k in ("DN", "SR", "FR", "ER", "JR", "FW")})
        ok = all(fields.get(k) == rp["bits"] for k in ("DN", "SR", "FR", "ER", "JR")) and fields.get("FW") == "same"
        return 0 if ok else 1
    if kind in ("c16-lit", "c16-tonum", "c16-json", "c16-parsef64"):
        out = c.harness_lines_resilient(h, kind, [c.hexs(rp["text"])])[0]
        print("implementation now returns:", out)
        return 0 if out == rp.get("expected") else 1
    if kind in ("c16-capt", "c16-astlit"):
        return c16_capt.replay(h, rp)
    if kind == "c16-cli":
        got, err = run_cli_roundtrip(cli, [rp["text"]])
        print("implementation now returns:", got, err)
        return 0 if (got and hx16(got[0][1]) == rp["expected"]) else 1
    return 0


def main(argv):
    tier, seed, replay_path = c.tier_and_seed(argv)
    res = c.Result(PID, tier, seed)
    rng = c.Rng(seed ^ 0xC16)
    try:
        h = c.build_harness()
        cli = c.build_cli("release")
        c.regen_builtins(h)
        regen_numgrammar()
        core_feats = serde_features(c.HARNESS_DIR)
        cli_feats = serde_features(c.REPO)
    except c.BrokenTie as e:
        res.tie_broken(e.what, e.detail)
        return res.finish()
    exact_core = "float_roundtrip" in core_feats
    exact_cli = "float_roundtrip" in cli_feats
    # which literal-conversion model runs: probe the built crate with the F25 witnesses.  Anything but the
    # pinned behaviour (all rejected) selects the repaired model (parse_radix_digits), so that a partial or
    # wrong repair shows up as a correspondence mismatch and as a wrong value in the search.
    probe = c.harness_lines_resilient(h, "c16-lit", [c.hexs(t) for t in F25_PROBE])
    radixfix = any(o != "LITERR" for o in probe)
    if replay_path:
        return replay(h, cli, replay_path)

    c.proof_step(res, PID)
    known = {e["class"]: e for e in c.open_known(PID)}
    quick = tier == "quick"
    n_doubles = 3000 if quick else 25000
    n_lits = 3000 if quick else 40000
    n_tonum = 1500 if quick else 10000
    n_json = 1500 if quick else 10000
    n_cli = 2000 if quick else 20000

    # ---------------------------------------------------------------- NUMTEXT: doubles
    xs, kinds = gen_doubles(rng, n_doubles)
    cb = [int(ln, 16) for ln in corpus_lines("doubles")]
    kinds["corpus"] = len(cb)
    xs = list(dict.fromkeys(cb + xs))
    xs = list(dict.fromkeys(xs + c16_capt.extra_doubles()))     # i64/u64 edges etc. for the CAPTURED family's leaf classes
    lines = c.harness_lines_resilient(h, "c16-num", [hx16(b) for b in xs])
    rust = [parse_fields(l) for l in lines]
    exprs = []
    for b, f in zip(xs, rust):
        exprs.append('c16_case %d %s' % (b, " ".join(coq_str(c.unhex(f.get(k, ""))) for k in ("D", "Z", "J", "S", "F", "E"))))

    # ---------------------------------------------------------------- literal / to_number / JSON text streams
    lits = []
    seen = set()
    for ln in corpus_lines("literals"):
        if ln not in seen:
            seen.add(ln)
            lits.append((ln, "corpus"))
    for _ in range(20 * n_lits):
        if len(lits) >= n_lits:
            break
        t, cls = gen_literal(rng)
        if t not in seen:
            seen.add(t)
            lits.append((t, cls))
    tonums = list(dict.fromkeys(gen_tonum_text(rng) for _ in range(n_tonum)))
    jsons = list(dict.fromkeys(gen_json_text(rng) for _ in range(n_json)))
    lit_out = c.harness_lines_resilient(h, "c16-lit", [c.hexs(t) for t, _ in lits])
    tonum_out = c.harness_lines_resilient(h, "c16-tonum", [c.hexs(t) for t in tonums])
    pf_out = c.harness_lines_resilient(h, "c16-parsef64", [c.hexs(t) for t in tonums])
    json_out = c.harness_lines_resilient(h, "c16-json", [c.hexs(t) for t in jsons])
    o1 = len(exprs)
    exprs += ["show_presult_rf %s ref_str_parse %s" % ("true" if radixfix else "false", coq_str(t)) for t, _ in lits]
    o2 = len(exprs)
    exprs += ["show_optnum (ref_str_parse %s)" % coq_str(t) for t in tonums]
    o3 = len(exprs)
    exprs += ["show_onum (json_in %s %s)" % ("true" if exact_core else "false", coq_str(t)) for t in jsons]
    c.log("C16: %d doubles, %d literals, %d to_number texts, %d JSON texts; running the model (coqc vm_compute)"
          % (len(xs), len(lits), len(tonums), len(jsons)))
    try:
        model = c.coq_eval_batch(REQ, "", exprs, "c16", shard=200)
    except c.BrokenTie as e:
        res.tie_broken(e.what, e.detail)
        model = [None] * len(exprs)

    # ---------------------------------------------------------------- diff: doubles
    mism = {"model": [], "contract": []}
    ref_differs = {"display": 0, "prec0": 0, "ryu": 0}
    fails = []          # property failures on the implementation: (bits, path, got)
    f17_hits = 0
    nontrivial = set()
    branch = {"prec0": 0, "display": 0, "nonfinite": 0}
    for i, (b, f) in enumerate(zip(xs, rust)):
        xb = hx16(b)
        m = parse_fields(model[i]) if model[i] else None
        finite = is_finite_bits(b)
        if not f or "D" not in f:
            res.violation("panic/abort or unexpected harness output on a number",
                          {"kind": "c16-num", "bits": xb, "observed": lines[i]})
            continue
        if finite:
            nontrivial.add(b)
        if m:
            branch["nonfinite" if not finite else ("prec0" if m["RZ"] != "-" else "display")] += 1
            # library contracts = exactly the hypotheses of the theorems, tested on this sample:
            #   display_contract: [-]ddd[.ddd], sign = sign bit, and rn_decimal reads x back (the model's DN
            #   is ref_str_parse of the Display text); prec0_contract: [-] + the exact integer;
            #   JSON text: the exact (correctly rounded) reading of serde_json's text is x
            dt, zt = c.unhex(f["D"]), c.unhex(f["Z"])
            neg = (b >> 63) == 1
            if finite:
                if not re.fullmatch(r"-?[0-9]+(\.[0-9]+)?", dt) or dt.startswith("-") != neg or m["DN"] != xb:
                    mism["contract"].append((xb, "Rust Display text violates display_contract (shape / sign / "
                                                 "rn_decimal reading = %s)" % m["DN"], f["D"]))
                if m["RZ"] != "-" and (not re.fullmatch(r"-?[0-9]+", zt) or zt.startswith("-") != neg
                                       or Fraction(int(zt)) != Fraction(f_of(b))):
                    mism["contract"].append((xb, "{:.0} text violates prec0_contract (not the exact integer)", f["Z"]))
                if m["JE"] != xb:
                    mism["contract"].append((xb, "serde_json's text does not denote x (exact reading %s)" % m["JE"],
                                             f["J"]))
            # stronger, informational: the executable reference printers reproduce the library texts exactly
            if m["RD"] != "T":
                ref_differs["display"] += 1
            if m["RZ"] == "F":
                ref_differs["prec0"] += 1
            if finite and m["RJ"] != "T":
                ref_differs["ryu"] += 1
            # the repo's own logic: model vs implementation
            jm = m["JE"] if exact_core else m["JL"]
            for what, key, rv in (("print_num text", "S", f["S"]), ("formatter text", "F", f["F"]),
                                  ("emitted function text", "E", f["E"]), ("json_out text", "JO", f["J"])):
                if m[key] != "T":
                    mism["model"].append((xb, what, c.unhex(rv), "a different text"))
            for what, mv, rv in (("source read-back", m["SR"], f["SR"]), ("formatter read-back", m["SR"], f["FR"]),
                                 ("emission read-back", m["ER"], f["ER"]), ("to_number(to_string)", m["DN"], f["DN"]),
                                 ("JSON read-back", jm, f["JR"])):
                if mv == "UNMODELLED" and not finite:
                    continue
                if mv != rv:
                    mism["model"].append((xb, what, rv, mv))
        if not finite:
            continue
        # the property itself, on the implementation alone
        for path in ("DN", "SR", "FR", "ER", "JR"):
            if f[path] != xb:
                lossy_pred = m["JL"] if m else None
                # F17 class: the output text denotes x exactly (the exact parser reads x), only the shipped
                # lossy input parser is off, and it is off by exactly what its transcription predicts
                if (path == "JR" and not exact_core and F17 in known and lossy_pred == f[path]
                        and m["JE"] == xb and m["JO"] == "T"):
                    f17_hits += 1
                else:
                    fails.append((xb, path, f[path], f))
        if f["FW"] != "same":
            fails.append((xb, "FW", "formatter output depends on width", f))
    names = {"DN": "to_string -> to_number", "SR": "source emission -> parser", "FR": "formatter -> parser",
             "ER": "function-source emission -> reload -> call", "JR": "JSON output -> JSON input",
             "FW": "formatter width-independence"}
    for xb, path, got, f in fails[:5]:
        res.violation("a finite number does not read back identically through %s" % names[path],
                      {"kind": "c16-num", "bits": xb, "value": repr(f_of(int(xb, 16))), "path": names[path],
                       "observed": got, "expected": xb,
                       "texts": {k: c.unhex(f[k]) for k in ("D", "S", "F", "E", "J") if k in f},
                       "rerun": "./check C16 --replay <this file>"})
    if mism["model"]:
        xb, what, rv, mv = mism["model"][0]
        res.tie_broken("correspondence C16/NUMTEXT: model and implementation disagree on %d observations"
                       % len(mism["model"]), "first: x=%s %s impl=%s model=%s" % (xb, what, rv, mv))
    if mism["contract"]:
        xb, what, rv = mism["contract"][0]
        res.tie_broken("library contract assumed by the C16 theorems fails on %d sampled doubles"
                       % len(mism["contract"]), "first: x=%s %s rust text=%r" % (xb, what, c.unhex(rv)))

    # ---------------------------------------------------------------- diff: literals
    lit_mism = []
    lit_fail = []
    lit_hist = {}
    wide_hist = {}
    f25_hits = 0
    f25_example = None
    f25_texts = set()
    over_seen = 0
    for j, ((t, cls), ro) in enumerate(zip(lits, lit_out)):
        mo = model[o1 + j]
        lit_hist[ro if ro in ("REJECT", "LITERR", "ERR", "OTHER", "EMPTY") else "value"] = \
            lit_hist.get(ro if ro in ("REJECT", "LITERR", "ERR", "OTHER", "EMPTY") else "value", 0) + 1
        if ro.startswith("PANIC") or ro.startswith("ABORT"):
            res.violation("panic/abort while reading a numeric literal", {"kind": "c16-lit", "text": t, "observed": ro})
            continue
        if ro not in ("REJECT", "EMPTY", "OTHER"):
            nontrivial.add("L" + t)
        ref = py_literal_value(t)
        # the model is the one selected by the probe (pinned: i64::from_str_radix, literals >= 2^63 rejected;
        # repaired: parse_radix_digits), so literals of the F25 class are compared like all others; only a
        # literal of the open class that the implementation still REJECTS is left to the known finding
        # (a partial repair, e.g. u128::from_str_radix, is still F25 — not a new alarm, not a model mismatch)
        still_f25 = (F25 in known and radix_over(t) and ro == "LITERR")
        if mo is not None and mo != "UNMODELLED" and mo != ro and not still_f25:
            lit_mism.append((t, ro, mo))
        if t in WIDE_SEEN:
            wk = wide_hist.setdefault(WIDE_SEEN[t], {"texts": 0, "ge_2^63": 0, "value": 0, "infinity": 0, "rejected": 0})
            wk["texts"] += 1
            wk["ge_2^63"] += 1 if radix_over(t) else 0
            wk["infinity" if ro in ("7ff0000000000000", "fff0000000000000") else
               ("rejected" if ro in ("LITERR", "REJECT") else "value")] += 1
        # the property on the implementation alone, against the independent Python reference
        if ref is None:
            continue
        if radix_over(t):
            over_seen += 1
            if still_f25:
                f25_hits += 1
                f25_texts.add(t)
                f25_example = f25_example or t
            elif ro != hx16(ref):
                lit_fail.append((t, ro, hx16(ref), "a hexadecimal/binary literal >= 2^63 does not denote its value "
                                                   "rounded to the nearest double"))
            continue
        if ro != hx16(ref):
            lit_fail.append((t, ro, hx16(ref), "a numeric literal does not denote its documented value correctly rounded"))
    # report the simplest failing literals, shrunk by deleting characters while the failure persists
    lit_fail.sort(key=lambda x: (len(x[0]), x[0]))
    for t, ro, exp, what in lit_fail[:3]:
        t2, ro2, exp2 = shrink_literal(h, t, ro, exp, skip_over=(F25 in known and not radixfix))
        res.violation(what, {"kind": "c16-lit", "text": t2, "observed": ro2, "expected": exp2,
                             "found_as": t, "reference": "Python big-integer / correctly rounded float()",
                             "other_failing_literals": len(lit_fail) - 1,
                             "rerun": "./check C16 --replay <this file>"})
    if lit_mism:
        t, ro, mo = lit_mism[0]
        res.tie_broken("correspondence C16/LITERAL: model and implementation disagree on %d of %d literal texts"
                       % (len(lit_mism), len(lits)), "first: text=%r impl=%s model=%s" % (t, ro, mo))

    # ---------------------------------------------------------------- diff: to_number / str::parse / JSON texts
    tn_mism = []
    for j, t in enumerate(tonums):
        mo = model[o2 + j]
        if tonum_out[j].startswith("PANIC") or tonum_out[j].startswith("ABORT"):
            res.violation("panic/abort in to_number", {"kind": "c16-tonum", "text": t, "observed": tonum_out[j]})
            continue
        if mo is None:
            continue
        if mo != pf_out[j]:
            tn_mism.append((t, "str::parse::<f64> vs reference (library contract)", pf_out[j], mo))
        if mo != tonum_out[j]:
            tn_mism.append((t, "to_number vs model", tonum_out[j], mo))
        if mo != "ERR":
            nontrivial.add("T" + t)
    if tn_mism:
        t, what, ro, mo = tn_mism[0]
        res.tie_broken("correspondence C16/TONUMBER: %d mismatches" % len(tn_mism),
                       "first: text=%r %s impl=%s model=%s" % (t, what, ro, mo))
    js_mism = []
    for j, t in enumerate(jsons):
        mo = model[o3 + j]
        if mo is None or mo == "UNMODELLED":
            continue
        if mo != json_out[j]:
            js_mism.append((t, json_out[j], mo))
        if mo != "ERR":
            nontrivial.add("J" + t)
    if js_mism:
        t, ro, mo = js_mism[0]
        res.tie_broken("correspondence C16/JSONTEXT (serde_json number parser, float_roundtrip=%s): %d mismatches"
                       % (exact_core, len(js_mism)), "first: text=%r impl=%s model=%s" % (t, ro, mo))

    # ---------------------------------------------------------------- search through the real CLI (JSON out -> JSON in)
    cli_checked = 0
    cli_f17 = 0
    fin = [(b, f) for b, f in zip(xs, rust) if is_finite_bits(b) and f and "J" in f]
    idx_of = {b: i for i, b in enumerate(xs)}
    pick = [fin[rng.below(len(fin))] for _ in range(min(n_cli, len(fin)))] if fin else []
    cbs = set(cb)
    pick = [bf for bf in fin if bf[0] in cbs] + pick          # the corpus (fixed-finding witnesses) always runs
    for k in range(0, len(pick), 500):
        chunk = pick[k:k + 500]
        got, err = run_cli_roundtrip(cli, [c.unhex(f["J"]) for _, f in chunk])
        if err or got is None or len(got) != len(chunk):
            res.violation("the CLI fails on `output x = inputs.x` with a list of finite numbers",
                          {"kind": "c16-cli-batch", "observed": err or "wrong item count",
                           "texts": [c.unhex(f["J"]) for _, f in chunk][:20]})
            break
        for (b, f), (otext, ob) in zip(chunk, got):
            cli_checked += 1
            if ob != b:
                m = parse_fields(model[idx_of[b]]) if model[idx_of[b]] else None
                if (not exact_cli) and F17 in known and m and m["JL"] == hx16(ob) and m["JE"] == hx16(b):
                    cli_f17 += 1
                else:
                    res.violation("a finite number does not survive JSON output -> JSON input in the real CLI",
                                  {"kind": "c16-cli", "text": c.unhex(f["J"]), "bits": hx16(b), "expected": hx16(b),
                                   "observed": hx16(ob), "observed_text": otext,
                                   "rerun": "blots -i '{\"x\":[%s]}' 'output x = inputs.x' </dev/null" % c.unhex(f["J"])})

    # ---------------------------------------------------------------- literals through the real CLI binary
    # `output x = [lit, lit, ...]` : real parser + evaluator + JSON output of the shipped executable, valued
    # by the independent Python reference on the way in and by Python's correctly rounded float() on the way out
    cli_lit_checked = 0
    docl = [(t, py_literal_value(t)) for t, cls in lits if cls in ("doc", "corpus")]
    docl = [(t, r) for t, r in docl if isinstance(r, int) and is_finite_bits(r) and (radixfix or not radix_over(t)) and t not in f25_texts
            and len(t) <= 100]      # one argv string holds the whole list (128 KB limit per argument)
    n_cli_lit = min(len(docl), 600 if quick else 6000)
    docl = docl[:n_cli_lit]
    for k in range(0, len(docl), 300):
        chunk = docl[k:k + 300]
        p = subprocess.run([cli, "output x = [%s]" % ", ".join(t for t, _ in chunk)], stdin=subprocess.DEVNULL,
                           capture_output=True, text=True, timeout=600)
        body = p.stdout.strip()
        items = body[len('{"x":['):-2].split(",") if body.startswith('{"x":[') and body.endswith("]}") else None
        if p.returncode != 0 or items is None or len(items) != len(chunk):
            res.violation("the CLI fails on a list of documented numeric literals",
                          {"kind": "c16-cli-lit-batch", "observed": "exit %d: %s" % (p.returncode, (p.stdout + p.stderr)[-300:]),
                           "program": "output x = [%s]" % ", ".join(t for t, _ in chunk[:20])})
            break
        bad = [(t, r, it) for (t, r), it in zip(chunk, items) if bits_of(float(it)) != r]
        cli_lit_checked += len(chunk)
        for t, r, it in bad[:2]:
            res.violation("a numeric literal does not come out of the real CLI with its documented value",
                          {"kind": "c16-cli-lit", "text": t, "expected": hx16(r), "observed_text": it,
                           "rerun": "blots 'output x = %s' </dev/null" % t})

    # ---------------------------------------------------------------- CAPTURED: numbers inside captured containers
    # (lists, records, nested, closures) through function-source emission; see checks/c16_capt.py
    def capt_model_ok(b):
        mi = model[idx_of[b]] if b in idx_of else None
        return bool(mi) and parse_fields(mi).get("E") == "T"
    capt = c16_capt.run(res, c.Rng(seed ^ 0xC16CA), h, cli, xs, rust, capt_model_ok, quick)
    nontrivial |= capt["nontrivial"]

    # ---------------------------------------------------------------- known findings: re-run the witnesses
    for e in c.open_known(PID):
        w = e.get("witness", {})
        still = True
        if e["class"] == F17:
            got, err = run_cli_roundtrip(cli, [w["text"]])
            still = not (got and hx16(got[0][1]) == w["bits"])
        elif e["class"] == F25:
            o = c.harness_lines_resilient(h, "c16-lit", [c.hexs(w["text"])])[0]
            still = (o != w["expected"])
            if not still and f25_hits:
                res.known("%s %s (the witness no longer reproduces, but %d other literals of the class are still "
                          "rejected, e.g. %s)" % (e["id"], e["what"], f25_hits, f25_example[:80]))
                continue
        res.known("%s %s%s" % (e["id"], e["what"], "" if still else " (no longer reproduces)"))

    n_f = sum(1 for b in xs if is_finite_bits(b))
    res.coverage["evaluations"] = (5 * len(xs) + len(lits) + 2 * len(tonums) + len(jsons) + cli_checked
                                   + cli_lit_checked)
    res.coverage["evaluations"] += capt["evaluations"]
    res.coverage["distinct_nontrivial"] = len(nontrivial)
    res.coverage["rule"] = ("distinct finite doubles taken through all five textual paths, plus distinct literal texts "
                            "that reach literal conversion (not rejected by the grammar), plus distinct to_number / JSON "
                            "number texts accepted by the reference grammar")
    sm = []
    for _ in range(4):
        i = rng.below(len(xs))
        sm.append({"bits": hx16(xs[i]), "display": c.unhex(rust[i].get("D", "")), "json": c.unhex(rust[i].get("J", "")),
                   "json_readback": rust[i].get("JR")})
    for _ in range(3):
        j = rng.below(len(lits))
        sm.append({"literal": lits[j][0], "impl": lit_out[j], "model": model[o1 + j]})
    res.coverage["samples"] = sm
    n_model_ok = sum(1 for x in model if x is not None)
    res.coverage["traces_validated_against_impl"] = (n_model_ok - len(mism["model"]) - len(lit_mism) - len(tn_mism)
                                                     - len(js_mism))
    res.streams["NUMTEXT"] = {"doubles": len(xs), "finite": n_f, "kinds": kinds, "print_branch": branch,
                              "model_mismatches": len(mism["model"]), "contract_mismatches": len(mism["contract"]),
                              "reference_printer_differs_from_library_text": ref_differs,
                              "impl_roundtrip_failures_unknown": len(fails),
                              "json_inprocess_1ulp_off_known_F17": f17_hits, "serde_float_roundtrip_core": exact_core}
    res.streams["LITERAL"] = {"texts": len(lits), "classes": {k: sum(1 for _, cl in lits if cl == k)
                                                              for k in ("doc", "odd", "corpus")},
                              "impl_outcomes": lit_hist, "mismatches": len(lit_mism),
                              "radix_ge_2^63_rejected_known_F25": f25_hits,
                              "radix_literal_model": "repaired (parse_radix_digits)" if radixfix else "pinned (i64::from_str_radix)",
                              "F25_probe": dict(zip(F25_PROBE, probe)), "radix_ge_2^63_texts": over_seen,
                              "wide_radix_kinds": wide_hist}
    res.streams["TONUMBER"] = {"texts": len(tonums), "mismatches": len(tn_mism)}
    res.streams["JSONTEXT"] = {"texts": len(jsons), "mismatches": len(js_mism)}
    res.streams["CLI-LITERAL"] = {"literals": cli_lit_checked}
    res.streams["CLI"] = {"numbers": cli_checked, "1ulp_off_known_F17": cli_f17, "serde_float_roundtrip_cli": exact_cli}
    res.assumptions = [
        "library contracts are hypotheses of the round-trip theorems (Rust Display shortest round-trip without exponent, "
        "{:.0} exact on integral values, str::parse::<f64> correctly rounded on Rust's float grammar, serde_json/ryu "
        "number text, serde_json number parser = transcribed de.rs): validated here by sampling only",
        "NaN and infinities are outside the property (finite numbers); they are run and counted but not required to "
        "round-trip",
    ]
    return res.finish()


if __name__ == "__main__":
    sys.exit(main(sys.argv[1:]))
