"""C08 — formatting is idempotent.  See notes/C08.md / DESIGN.md section 6 (C08)."""
import json
import sys

import common as c
import c0809_lib as L
import c09_contexts as X
import c09_parser as PH
from c0809_gen import Case as G_CASE

PID = "C08"
MANIFEST = {
    "text": "Coq theorems over the document model of the formatter and its statement drivers: blank-line spacing "
            "(join_statements_with_spacing) is idempotent for all statement lists and line numbers (clamp arithmetic "
            "over Z; re-reading the emitted blank lines yields the same newlines; the positions statements get in the "
            "emitted text are a fixed point), comment re-attachment on the formatter's own list / record / do-block / "
            "statement layouts returns the same commented items (pair-level model of the parser's pending-comment "
            "bookkeeping), and that bookkeeping is linked to the parser model of C09 (coq/PegComments.v over the PEG model): "
            "its list / record / do-block loops ARE attach / attach_do on the parsed inner pairs at every nesting depth "
            "(C08_reparse_attach_matches_model), so the fixed-point theorems hold for what parse_program_c builds from the "
            "Peg tree of a formatted text whenever that tree has the layout's pairs (C08_reparse_*_fixed_point), and the "
            "second-pass theorems are stated with the re-parse as a Coq term (C08_reparse_second_pass_lib/_cli); "
            "model tied to the code by the FORMAT correspondence run on the source AND on the formatter's "
            "own output (incl. statement positions as pest reports them), and format(format(p,w),w) == format(p,w) "
            "searched on the implementation through the library loop and the real blots --format binary; REPARSE stream: "
            "the formatter's outputs re-parsed by the parser model and by the real parser (commented-AST dump with comment "
            "roles and statement lines), with the content hypothesis of the second-pass theorems checked on every program; round 7: INFLATED family in the idempotence search (the generated programs with wide gaps after commas, deep indentation, one item per line; hand-aligned tables) after seed C08-11 (layout decided from the byte span of the source)",
    "note": "trusted: Coq kernel + vm_compute; hand transcription of formatter.rs and of both driver loops (validated "
            "by the FORMAT correspondence, incl. second pass); the parser is modelled (coq/Peg.v + gen/Grammar.v + "
            "coq/PegComments.v, compared with the real parser by the REPARSE / C09P streams) but that the text of a layout "
            "lexes into the layout's pairs, and that the formatter's text re-parses to the same AST (property C07's), are "
            "tested, not proved (no exclusion: any idempotence failure is a violation); gen/Grammar.v and gen/PrecTable.v "
            "are regenerated before the proof step; no axioms",
    "design_ref": "DESIGN.md section 6 C08; notes/C08.md",
}


def stripped_asts(h, texts):
    """comment-free, span-free AST text of each program (harness PARSE stream), or REJECT"""
    return c.harness_lines_resilient(h, "parse", [c.hexs(t) for t in texts])


def idem_failures(h, cases):
    """-> list of (sc, driver, first, second) where formatting the output again changes it."""
    fails = []
    for sc in cases:
        for driver, a, b in (("lib", sc.lib1, sc.lib2), ("cli", sc.cli1, sc.cli2)):
            if a is None or a[0] != "OK" or b is None:
                continue
            if b[0] != "OK" or b[1] != a[1]:
                fails.append((sc, driver, a, b))
    return fails


def classify(h, fails):
    """No open known-finding class is left for C08 (F29 and the C07 round-trip defects F12-F14 / F18 are
    repaired in /repo): every failure is a violation.  For triage the replay records whether the first
    output still re-parses to the input's comment-free AST (if not, property C07 fails on the input too)."""
    src_ast = stripped_asts(h, [f[0].src for f in fails])
    out_ast = stripped_asts(h, [f[2][1] for f in fails])
    return [("first output re-parses to the same AST" if a == b else
             "first output does NOT re-parse to the input's AST (C07 fails on this input as well)")
            for a, b in zip(src_ast, out_ast)]


def shrink(h, clir, sc, driver):
    """smaller program that is still not idempotent"""
    def fmt(s):
        return clir.format(s) if driver == "cli" else L.impl_format(h, [(s, sc.width, "lib")])[0]

    def pred(s):
        a = fmt(s)
        if a[0] != "OK":
            return False
        b = fmt(a[1])
        if b == a:
            return False
        return True
    return L.shrink_lines(sc.src, pred)


def regen_parens(h):
    """coq/gen/ParensTable.v (found by common.regen_all: a full .vo build needs every generated table)"""
    return L.regen_parens(h)


def replay(h, cli, path):
    with open(path) as f:
        rp = json.load(f)
    print(json.dumps(rp, indent=1))
    src = rp.get("source")
    if src is None:
        return 0
    clir = L.CliRunner(cli)
    try:
        if rp.get("driver") == "cli":
            a = clir.format(src)
            b = clir.format(a[1]) if a[0] == "OK" else None
        else:
            a = L.impl_format(h, [(src, rp.get("width"), "lib")])[0]
            b = L.impl_format(h, [(a[1], rp.get("width"), "lib")])[0] if a[0] == "OK" else None
    finally:
        clir.close()
    print("format(p)        :", a)
    print("format(format(p)):", b)
    return 0 if (a[0] == "OK" and b is not None and b == a) else 1


def main(argv):
    tier, seed, replay_path = c.tier_and_seed(argv)
    res = c.Result(PID, tier, seed)
    rng = c.Rng(seed ^ 0x0C08)
    try:
        h, cli, _ = L.setup(res)
    except c.BrokenTie as e:
        res.tie_broken(e.what, e.detail)
        return res.finish()
    if replay_path:
        return replay(h, cli, replay_path)
    PH.regen_tables(h, res)      # C08_reparse_* are over gen/Grammar.v, gen/PrecTable.v
    c.proof_step(res, PID)
    clir = L.CliRunner(cli)
    try:
        quick = tier == "quick"
        validated = L.correspondence(res, h, clir, rng, 250 if quick else 3000, PID, "c08")
        v2, reattach_viol = L.attach_correspondence(res, h, rng, 300 if quick else 4000, "c08a")
        validated += v2
        validated += PH.reparse_stream(h, res, c.Rng(seed ^ 0x0C08B), tier, clir)
        for what, src, w, got, expect in reattach_viol[:3]:
            res.violation("re-parsing the formatter's output attaches a comment to a different item or in a "
                          "different role", {"kind": "impl-law", "source": src, "width": w, "driver": "lib",
                                             "observed": got, "expected": expect,
                                             "legend": "<leading comments (hex) joined by .>:<item index>:<trailing (hex)|->",
                                             "rerun": "./check C08 --replay <this file>"})
        progs = (L.corpus_programs(PID) + X.programs(rng, 400 if quick else 20000) +
                 L.gen_programs(rng, 600 if quick else 15000, h=h))
        # INFLATED family (round 7, after seed C08-11: a layout decision taken from the byte span of the SOURCE instead
        # of from the tree, width and indentation): the same programs with their layout blown up — wide gaps after commas,
        # deep indentation after line breaks, one item per line — so that the source of a node is many times wider than
        # its canonical form; plus hand-aligned tables.  The law (format twice = format once) holds for any program text.
        n_inf = 120 if quick else 3000
        inflated = []
        for k, (src_k, case_k, w_k) in enumerate(progs[len(L.corpus_programs(PID)):][:n_inf]):
            pad = " " * (60, 130, 400)[k % 3]
            if k % 2 == 0:
                t = src_k.replace(",", "," + pad)
            else:
                t = src_k.replace(",", ",\n" + " " * 24).replace("\n", "\n" + " " * 16)
            if t != src_k:
                inflated.append((t, case_k, w_k if k % 4 else None))
        for n_items in (2, 8, 20, 40):
            for ind in (16, 60):
                body = "".join("\n" + " " * ind + "%d," % (i + 1) for i in range(n_items))
                inflated.append(("weights = [" + body + "\n]\nf(" + body + "\n)", G_CASE(), None))
                inflated.append(("weights = {" + "".join("\n" + " " * ind + "k%d: %d," % (i, i) for i in range(n_items)) + "\n}", G_CASE(), 20 + n_items))
        progs = progs + inflated
        res.streams["INFLATED family"] = {"programs": len(inflated)}
        cases = L.run_search_inputs(h, clir, progs, cli_every=2 if quick else 3)
        fails = idem_failures(h, cases)
        classes = classify(h, fails)
        known_hits = {}
        for (sc, driver, a, b), k in zip(fails, classes):
            if len(res.violations) < 5:
                res.violation("formatting the formatter's own output changes it (%s driver)" % driver,
                              {"kind": "impl-law", "source": sc.src, "width": sc.width, "driver": driver,
                               "triage": k,
                               "shrunk_source": shrink(h, clir, sc, driver),
                               "observed": {"format(p)": a[1], "format(format(p))": b[1] if b[0] == "OK" else b[0]},
                               "expected": "format(format(p,w),w) == format(p,w)",
                               "rerun": "./check C08 --replay <this file>"})
        for e in c.open_known(PID):
            w = e["witness"]
            if w["driver"] == "cli":
                a = clir.format(w["source"])
                b = clir.format(a[1]) if a[0] == "OK" else None
            else:
                a = L.impl_format(h, [(w["source"], w.get("width"), "lib")])[0]
                b = L.impl_format(h, [(a[1], w.get("width"), "lib")])[0] if a[0] == "OK" else None
            still = not (a[0] == "OK" and b == a)
            res.known("%s %s%s" % (e["id"], e["what"], "" if still else " (no longer reproduces)"))
    finally:
        clir.close()
    runs = sum(1 for sc in cases for a in (sc.lib1, sc.cli1) if a is not None and a[0] == "OK")
    multi = {(sc.src, sc.width) for sc in cases if sc.lib1[0] == "OK" and "\n" in sc.lib1[1].strip("\n")}
    res.coverage["evaluations"] = 2 * runs + 2 * res.streams.get("FORMAT", {}).get("lib", 0)
    res.coverage["distinct_nontrivial"] = len(multi)
    res.coverage["rule"] = ("generated programs (1-5 statements, expression depth <= 4, comments at the 20 position classes "
                            "of checks/c0809_gen.py, 0-5 blank lines) x width sampled in 1..120/default, formatted twice "
                            "through the library loop and (every 2nd/3rd) through the real blots --format binary; "
                            "non-trivial = distinct (program, width) whose first output has more than one line")
    res.coverage["samples"] = [{"source": sc.src, "width": sc.width,
                                "format": sc.lib1[1] if sc.lib1[0] == "OK" else sc.lib1[0]} for sc in cases[:3]]
    res.coverage["traces_validated_against_impl"] = validated
    gaps = {}
    for sc in cases:
        for g in getattr(sc.case, "gaps", []):
            gaps[str(g)] = gaps.get(str(g), 0) + 1
    res.streams["SEARCH-idempotence"] = {
        "programs": len(cases), "driver_runs_formatted_twice": runs, "failures_total": len(fails),
        "known_class_hits": known_hits, "blank_lines_between_statements": dict(sorted(gaps.items())),
        "generator": L.generator_distribution(progs),
        "parser_rejects": L.check_reject_rate(res, cases)}
    res.assumptions = [
        "the CLI driver always formats at the default width (it has no width option)",
        "blots-wasm::format_blots is exercised through its line-by-line mirror in harness/src/s_c0809.rs",
        "string literals may contain the other quote character and `//` (since afe753e expr_to_source picks a quote "
        "character that does not occur in the string)"]
    return res.finish()


if __name__ == "__main__":
    sys.exit(main(sys.argv[1:]))
