"""C19 — CLI contract: exit status, outputs object, input merging, #name.
See notes/C19.md (DESIGN.md section 6 C19)."""
import json
import os
import re
import shutil
import struct
import subprocess
import sys
import tempfile
from concurrent.futures import ThreadPoolExecutor

import common as c
import evalstream as es
from gen_programs import Gen

PID = "C19"
MANIFEST = {
    "text": "Coq theorems over the transcribed CLI driver (coq/Cli.v: input loading and merging, statement loop "
            "via Program.run, exit-status logic, outputs object) for every evaluator: exit 0 with exactly one "
            "outputs object iff every input parsed, the script parsed and every statement incl. output validation "
            "succeeded, otherwise non-zero and no object; outputs object = declared names in first-declaration "
            "order, each with the value the name is bound to (C03 stability); inputs merged left to right (stdin "
            "first, later keys override, value_k by order of appearance, unloadable entries dropped); #n = inputs.n "
            "in every frame chain at every depth, null when absent.  The model is tied to the code by the CLI "
            "correspondence stream (real release binary vs cli_run under vm_compute, scripts parsed by the real "
            "parser, inputs loaded by the real from_json) and the contract itself is searched on the binary alone "
            "with expectations known by construction",
    "note": "trusted: Coq kernel + vm_compute; hand transcription of main.rs run/evaluate_source/parse_json_inputs/"
            "write_outputs and SerializableValue::to_value (validated by the CLI stream); clap, serde_json text "
            "layer, process exit/stdio/file creation are compared, not proved; evaluator model = integrator's "
            "Eval.v/Program.v; no axioms",
    "category": "proof",
    "design_ref": "DESIGN.md section 6 C19 / notes/C19.md",
}

COQ_MODE = {"file": "MFile", "inline": "MInline", "eval": "MEvalStdin", "noscript": "MNoScript"}
REQUIRES = es.REQUIRES + ["Blots.Cli"]
SCRATCH = os.path.join(c.BUILD, "c19_scratch")


# --------------------------------------------------------------------------- canonical JSON text
class Obj(list):
    """JSON object as an ordered list of (key, value) pairs"""


FN = ("FN",)


def f2bits(x):
    if x != x:
        return 0x7ff8000000000000
    return struct.unpack(">Q", struct.pack(">d", x))[0]


def is_fn_obj(v):
    return isinstance(v, Obj) and any(k == "__blots_function" and isinstance(x, str) for k, x in v)


def canon(v):
    """canonical text of a JSON value nested inside the outputs object (twin of Cli.show_json)"""
    if v is FN:
        return "FN"
    if v is None:
        return "U"
    if v is True:
        return "T"
    if v is False:
        return "F"
    if isinstance(v, (int, float)):
        x = float(v)
        if x != x or x in (float("inf"), float("-inf")):
            x = 0.0
        return "N%016x" % f2bits(x)
    if isinstance(v, str):
        return "S%s;" % c.hexs(v)
    if isinstance(v, Obj):
        if is_fn_obj(v):
            return "FN"
        d = {}
        for k, x in v:
            d[k] = x                      # duplicate keys: last wins
        items = sorted(d.items(), key=lambda kv: kv[0].encode("utf-8"))
        return "R{" + ",".join("%s:%s" % (c.hexs(k), canon(x)) for k, x in items) + "}"
    if isinstance(v, list):
        return "L[" + ",".join(canon(x) for x in v) + "]"
    raise ValueError(repr(v))


def canon_top(pairs):
    """the outputs object itself: IndexMap, insertion order kept (twin of Cli.show_obj)"""
    return "{" + ",".join("%s:%s" % (c.hexs(k), canon(x)) for k, x in pairs) + "}"


def loads(text):
    return json.loads(text, object_pairs_hook=Obj)


def as_object_line(text):
    """text is exactly one JSON object -> its pairs, else None"""
    try:
        v = loads(text)
    except (ValueError, RecursionError):
        return None
    return v if isinstance(v, Obj) else None


# --------------------------------------------------------------------------- running the real binary
def run_case(cli, case):
    """-> dict(rc, stdout, stderr, file) for one invocation of the release binary; stdin is always
    a pipe that is written and closed (never a terminal, never inherited)."""
    os.makedirs(SCRATCH, exist_ok=True)
    d = tempfile.mkdtemp(prefix="case_", dir=SCRATCH)
    try:
        args = [cli]
        for f in case["flags"]:
            args.append("--input=" + f)
        outp = os.path.join(d, "out.json")
        stale = None
        if case["out_file"]:
            args.append("--output=" + outp)
            # every other run finds an older, longer file at the output path: the outputs object must
            # replace it entirely on success and leave it alone on failure
            if (len(case.get("script") or "") + len(case["flags"])) % 2 == 0:
                stale = "#stale output of an earlier run# " + "x" * 4096 + "\n"
                with open(outp, "w") as f:
                    f.write(stale)
        mode = case["mode"]
        stdin_data = case.get("stdin")
        if mode == "file":
            path = os.path.join(d, "script.blots")
            with open(path, "wb") as f:
                f.write(case["script"].encode("utf-8"))
            args += ["--", path]
        elif mode == "inline":
            args += ["--", case["script"]]
        elif mode == "eval":
            args.append("-e")
            stdin_data = case["script"]
        try:
            p = subprocess.run(args, input=(stdin_data or "").encode("utf-8"), capture_output=True, cwd=d,
                               timeout=120)
            rc, out, err = p.returncode, p.stdout.decode("utf-8", "replace"), p.stderr.decode("utf-8", "replace")
        except subprocess.TimeoutExpired:
            rc, out, err = -999, "", "TIMEOUT"
        ftxt = None
        if os.path.exists(outp):
            with open(outp, "rb") as f:
                ftxt = f.read().decode("utf-8", "replace")
            if stale is not None and ftxt == stale:
                ftxt = None                                  # untouched: nothing was emitted
        return {"rc": rc, "stdout": out, "stderr": err, "file": ftxt}
    finally:
        shutil.rmtree(d, ignore_errors=True)


def run_cases(cli, cases):
    with ThreadPoolExecutor(max_workers=min(16, c.NCPU)) as ex:
        return list(ex.map(lambda cs: run_case(cli, cs), cases))


def observe(case, r):
    """canonical text of what the binary did (same format as Cli.show_cli)"""
    out = r["stdout"]
    whole = as_object_line(out.strip()) if out.strip() else None
    if whole is not None:
        o = canon_top(whole)                      # stdout is exactly one JSON object (any layout)
    else:
        lines = [l for l in out.split("\n") if l.strip()]
        if any(as_object_line(l) is not None for l in lines):
            o = "!object-among-other-text"
        else:
            o = "-"
    if r["file"] is None:
        f = "-"
    else:
        fo = as_object_line(r["file"])
        f = canon_top(fo) if fo is not None else "!not-an-object"
    return "EXIT:%d;OUT:%s;FILE:%s" % (r["rc"], o, f)


ABNORMAL = (101, 134, 139)


def law_view(obs):
    """for the contract on the binary alone only zero / non-zero matters (the model says 1)"""
    code, _, rest = obs.partition(";")
    n = int(code[5:])
    return ("EXIT:0" if n == 0 else "EXIT:nz") + ";" + rest


def contract_on_binary(case, r):
    """The biconditional on the implementation alone (no model, no expectation):
    exit 0 <=> exactly one outputs object (stdout line, or the -o file, never both);
    exit != 0 => no object anywhere and something was reported.  Returns a list of failures."""
    obs = observe(case, r)
    o = obs[obs.index(";OUT:") + 5:obs.rindex(";FILE:")]
    f = obs[obs.rindex(";FILE:") + 6:]
    bad = []
    has_o = o.startswith("{")
    has_f = f.startswith("{")
    if r["rc"] == 0:
        if case["out_file"]:
            if not has_f or o != "-":
                bad.append("exit 0 with -o: expected the object in the file and no object on stdout")
        else:
            if not has_o or f != "-":
                bad.append("exit 0: expected exactly one JSON object line on stdout")
    else:
        if o != "-" or f != "-":
            bad.append("non-zero exit but an outputs object was emitted")
        if not (r["stdout"].strip() or r["stderr"].strip()):
            bad.append("non-zero exit without any error report")
        if r["rc"] < 0 or r["rc"] in ABNORMAL:
            bad.append("abnormal termination, exit status %d (panic / abort / signal)" % r["rc"])
    return bad


# --------------------------------------------------------------------------- generators
OUT_NAMES = ["a", "b", "c", "d", "res", "x_1", "total", "e1"]
# "min", "sum": input fields named like a built-in function (#min is the field, never the function)
IN_KEYS = ["k", "m", "n", "value_1", "value_2", "f", "min", "sum"]

# (source, JSON value it serialises to)   — only modelled operators / built-ins
VAL_EXPRS = [
    ("1", 1.0), ("2.5", 2.5), ("1 + 2", 3.0), ("10 / 4", 2.5), ("-3", -3.0), ("1e21", 1e21),
    ("0.1 + 0.2", 0.1 + 0.2), ("1 / 0", 0.0), ("0 / 0", 0.0), ("-0", -0.0), ("7 % 4", 3.0),
    ('"hi"', "hi"), ('"héllo wörld"', "héllo wörld"), ('""', ""), ("true", True), ("false", False), ("null", None),
    ("1 < 2", True), ("[1, 2, 3]", [1.0, 2.0, 3.0]), ("[]", []), ('[1, "a", null, [true]]', [1.0, "a", None, [True]]),
    ("{b: 1, a: 2}", Obj([("b", 1.0), ("a", 2.0)])), ("{}", Obj()),
    ('{z: [1], "y y": {q: null}}', Obj([("z", [1.0]), ("y y", Obj([("q", None)]))])),
    ("x => x + 1", FN), ("(p, q?) => p", FN), ("sum", FN), ("abs(-4)", 4.0),
    ("if 1 < 2 then 10 else 20", 10.0), ("do {\n  t = 4\n  return t * 2\n}", 8.0), ("[1, 2] via (v => v * 2)", [2.0, 4.0]),
    ("((p) => p + 1)(2)", 3.0),
    # functions that are portable although their own (self) name is not a top-level binding: recursive functions
    # named inside a do-block or a factory and output under another name; closures over locals; aliases
    ("do {\n  loop9 = n => if n <= 0 then 0 else loop9(n - 1)\n  return loop9\n}", FN),
    ("(() => do {\n  rec9 = n => if n <= 0 then [] else [n, ...rec9(n - 1)]\n  return rec9\n})()", FN),
    ("((base) => (x => x + base))(10)", FN), ("[v => v, sum][0]", FN), ("{f: (a, ...r) => r}.f", FN),
]
# statements that make the run fail: (source template, kind)
FAIL_EVAL = ['1 + "s"', "nosuch", "output q9 = nosuch", "output nosuch2", "null(1)", "[1, 2](0)", '"a" * 2',
             "if 1 then 2 else 3"]
FAIL_OUTERR = ["output f9 = x => x + nosuch3", "g9 = x => nosuch4(x)\noutput g9"]
FAIL_PARSE = ["output b9 = (", ")", "output = 3", "output 5", "x y z", "output a b"]
# `output x` where x is not a binding: by the property text the object must contain x
NONBINDING = [("output inf", "inf", 0.0), ("output constants", "constants",
               None), ("output sum", "sum", None), ("output infinity", "infinity", 0.0), ("output map", "map", None)]
CONSTANTS = None

IN_VALUES = [
    ("1", 1.0), ("2.5", 2.5), ('"s"', "s"), ("true", True), ("null", None), ("[1,2]", [1.0, 2.0]),
    ('{"p":1}', Obj([("p", 1.0)])), ("-0.0", -0.0), ("1e300", 1e300),
    ('{"__blots_function":"(x) => x + 1"}', FN), ('{"__blots_function":"sum"}', FN),
    ('{"__blots_function":"(x) => \'a\\"b\'"}', FN),          # printed body may not re-parse: dropped
    ('{"__blots_function":"nonsense("}', FN),                  # not a function source: stays a record
    ('[{"__blots_function":"(x) => \'a\\"b\'"}, 1]', [FN, 1.0]),
    ('{"__blots_function":"(a, b?, ...r) => [a, b, r]"}', FN),
    # records with different member sets: a later source REPLACES the value of a key, it is never merged into it
    ('{"host":"a","port":1}', Obj([("host", "a"), ("port", 1.0)])), ('{"port":2}', Obj([("port", 2.0)])),
    ('{"q":{"r":1,"s":{"t":1}}}', Obj([("q", Obj([("r", 1.0), ("s", Obj([("t", 1.0)]))]))])),
    ('{"q":{"s":{"u":2}}}', Obj([("q", Obj([("s", Obj([("u", 2.0)]))]))])), ("{}", Obj()), ("[]", []),
    ('[{"p":1}]', [Obj([("p", 1.0)])]),
]
NESTED_OVERRIDE_VALUES = ['{"host":"a","port":1}', '{"port":2}', '{"q":{"r":1,"s":{"t":1}}}', '{"q":{"s":{"u":2}}}', "{}", "[]",
                          '[{"p":1}]', '{"p":1}', "null", "1", '{"__blots_function":"sum"}', '{"host":null}']
UNLOADABLE_VALUES = ['[{"__blots_function":"(x) => \'a\\"b\'"}, 1]', '[[{"__blots_function":"(y) => \'q\\"\'"}]]',
                     '[1, {"g": {"__blots_function":"() => \'\\"\'"}}]']
BAD_JSON = ["{", "nope", '{"k":1,}', "", "{'k':1}", '{"k":1} x', "[1,"]


class CaseGen:
    def __init__(self, rng):
        self.r = rng
        self.stats = {}

    def note(self, k):
        self.stats[k] = self.stats.get(k, 0) + 1

    # ---- one input source (JSON text)
    def source(self, allow_bad=True):
        r = self.r
        k = r.below(20)
        if k == 0 and allow_bad:
            self.note("src:bad-json")
            return r.choice(BAD_JSON)
        if k <= 5:
            self.note("src:non-object")
            return r.choice(IN_VALUES)[0] if not r.chance(1, 6) else r.choice(["5", '"str"', "[]", "null", "false"])
        self.note("src:object")
        n = r.below(4)
        keys = [r.choice(IN_KEYS) for _ in range(n)]
        items = ['"%s":%s' % (kk, r.choice(IN_VALUES)[0]) for kk in keys]
        if r.chance(1, 12):
            return '{"__blots_function":"(x) => x"}'          # an object whose only key is the marker
        sep = r.choice([",", ", ", " ,\n "])
        return "{" + sep.join(items) + "}"

    def input_set(self, mode):
        r = self.r
        nflags = r.choice([0, 0, 1, 1, 2, 2, 3, 4])
        flags = [self.source() for _ in range(nflags)]
        if r.chance(1, 8):
            # numbering-focused: several non-object sources, some of which do not load
            self.note("set:numbering-focused")
            flags = [r.choice(UNLOADABLE_VALUES) if r.chance(1, 3) else r.choice(["5", '"s"', "[1]", "null", "true", "2.5"])
                     for _ in range(2 + r.below(3))]
            if r.chance(1, 3):
                flags.insert(r.below(len(flags)), '{"value_2": "from-object", "k": 1}')
                flags = flags[:4]
        elif r.chance(1, 6):
            # override-focused: every source is an object and the SAME one or two keys hold record / list / scalar
            # values with different member sets in successive sources (round 4, seed C19-8: a recursive merge of
            # record values was seen once in 450 random cases, and then only as a model disagreement)
            self.note("set:nested-override-focused")
            ks = [r.choice(IN_KEYS) for _ in range(1 + r.below(2))]
            flags = ["{" + ",".join('"%s":%s' % (k_, r.choice(NESTED_OVERRIDE_VALUES)) for k_ in ks) + "}"
                     for _ in range(2 + r.below(3))]
        stdin = None
        if mode != "eval":
            k = r.below(8)
            if k <= 2:
                stdin = self.source()
                self.note("stdin:json")
            elif k == 3:
                stdin = r.choice(["", "  \n", "\n\n"])
                self.note("stdin:blank")
            else:
                self.note("stdin:closed")
        return stdin, flags

    # ---- a script with by-construction expectations
    def script(self, inputs_known):
        """-> (source, expect) ; expect = dict(status: 'ok'|'eval'|'outerr'|'parse', decls: [(name, jsonvalue)],
        nonbinding: bool) ; decls in declaration order with the values known by construction (value None-able:
        use the EXPECT_UNKNOWN marker when it depends on inputs that are not known)"""
        r = self.r
        self.unknown = False
        n_out = r.below(7)
        bound = {}            # name -> json value
        stmts = []
        decls = []
        names = r.shuffle(OUT_NAMES)
        fail_at = None
        fail_kind = None
        nonbinding = False
        total = n_out + r.below(4)
        if r.chance(2, 5):
            fail_kind = r.choice(["eval", "eval", "eval", "outerr", "parse", "rebind"])
            fail_at = r.below(total + 1)
        outs_left = n_out
        i = 0
        while i < total or outs_left > 0:
            if fail_at is not None and i == fail_at:
                if fail_kind == "eval":
                    stmts.append(("fail", r.choice(FAIL_EVAL)))
                elif fail_kind == "outerr":
                    stmts.append(("fail", r.choice(FAIL_OUTERR)))
                elif fail_kind == "parse":
                    stmts.append(("parsefail", r.choice(FAIL_PARSE)))
                else:
                    if bound:
                        nm = r.choice(sorted(bound))
                        stmts.append(("fail", r.choice(["%s = 5", "output %s = 5"]) % nm))
                    else:
                        stmts.append(("fail", "nosuch"))
                self.note("fail:" + fail_kind)
                i += 1
                continue
            k = r.below(12)
            if outs_left > 0 and (k <= 5 or i >= total):
                outs_left -= 1
                kk = r.below(10)
                if kk <= 5 or not bound:
                    nm = next((x for x in names if x not in bound), None)
                    if nm is None:
                        i += 1
                        continue
                    src, val = self.value_expr(bound, inputs_known)
                    bound[nm] = val
                    tail = r.choice(["", "", "", " // note", "  "])
                    stmts.append(("ok", "output %s = %s%s" % (nm, src, tail)))
                    decls.append((nm, val))
                    self.note("stmt:output-assign")
                else:
                    nm = r.choice(sorted(bound))
                    stmts.append(("ok", "output %s" % nm))
                    decls.append((nm, bound[nm]))
                    self.note("stmt:output-name" + ("-dup" if any(d[0] == nm for d in decls[:-1]) else ""))
            elif k <= 7:
                nm = next((x for x in names if x not in bound), None)
                if nm is not None:
                    src, val = self.value_expr(bound, inputs_known)
                    bound[nm] = val
                    stmts.append(("ok", "%s = %s" % (nm, src)))
                    self.note("stmt:assign")
            elif k == 8:
                stmts.append(("ok", r.choice(["1 + 2", "[1, 2]", '"x"', "sum"])))
                self.note("stmt:expr")
            elif k == 9:
                stmts.append(("ok", r.choice(["// a comment", "", "   "])))
                self.note("stmt:comment/blank")
            elif k == 10 and r.chance(1, 3):
                nb = r.choice(NONBINDING)
                stmts.append(("ok", nb[0]))
                decls.append((nb[1], nb[2] if nb[2] is not None else
                              (FN if nb[1] != "constants" else
                               Obj([("pi", 3.141592653589793), ("e", 2.718281828459045),
                                    ("max_value", 1.7976931348623157e308), ("min_value", 2.2250738585072014e-308)]))))
                nonbinding = True
                self.note("stmt:output-nonbinding")
            i += 1
        status = "ok"
        kinds = [s[0] for s in stmts]
        if "parsefail" in kinds:
            status = "parse"
        elif "fail" in kinds:
            status = "outerr" if fail_kind == "outerr" else "eval"
            cut = kinds.index("fail")
            # declarations made before the failing statement do not matter (no object)
        src = "\n".join(s[1] for s in stmts)
        if r.chance(1, 4):
            src += "\n"
        if status != "ok":
            decls = []
            nonbinding = False
        if self.unknown:
            return src, None
        return src, {"status": status, "decls": decls, "nonbinding": nonbinding}

    def value_expr(self, bound, inputs_known):
        r = self.r
        k = r.below(10)
        if k == 0 and bound:
            nm = r.choice(sorted(bound))
            return nm, bound[nm]
        if k <= 2 and inputs_known is not None:
            key = r.choice(IN_KEYS + ["zz"])
            val = inputs_known.get(key)
            self.note("expr:input-ref")
            form = r.below(4)
            if form == 0:
                return "#%s" % key, val
            if form == 1:
                return "inputs.%s" % key, val
            if form == 2:
                return "[#%s, inputs.%s]" % (key, key), [val, val]
            return 'inputs["%s"]' % key, val
        if k == 3 and inputs_known is not None:
            # calling a function that came in through the inputs: no by-construction expectation
            self.note("expr:call-input-function")
            self.unknown = True
            return r.choice(["inputs.f(2)", "inputs.f(1, 2, 3)", "(#f)(4)", "inputs.f([1, 2])", "[1, 2] via inputs.f",
                             "arity(inputs.f)", "typeof(#f)"]), None
        return r.choice(VAL_EXPRS)



# --------------------------------------------------------------------------- the inputs probe
PROBE_KEYS = IN_KEYS + ["zz", "round"]
PROBE_SCRIPT = ("output ks = keys(inputs)\noutput iv = inputs\noutput h = [%s]\n"
                "f = () => [#k, inputs.k, #value_1, inputs.value_1, #zz]\noutput hf = f()\n"
                "output hd = do {\n  t = 1\n  return [#n, inputs.n, #value_2]\n}"
                % ", ".join("#%s, inputs.%s" % (k, k) for k in PROBE_KEYS))


def probe_expected(merged):
    d = dict(merged)
    h = []
    for k in PROBE_KEYS:
        h += [d.get(k), d.get(k)]
    return {"ks": [k for k, _ in merged], "iv": Obj(merged), "h": h,
            "hf": [d.get("k"), d.get("k"), d.get("value_1"), d.get("value_1"), d.get("zz")],
            "hd": [d.get("n"), d.get("n"), d.get("value_2")]}

# --------------------------------------------------------------------------- the specification of merging (python)
def spec_merge(sources, loadinfo):
    """sources: list of JSON texts in merge order; loadinfo: per source the harness's load flags
    ('B' | 'O<hexkeys>' | 'V0'/'V1').  -> ordered list of (key, jsonvalue) or None (input error).
    Written from the property text, not from the code."""
    merged = []
    counter = 0

    def put(k, v):
        for i, (kk, _) in enumerate(merged):
            if kk == k:
                merged[i] = (k, v)
                return
        merged.append((k, v))

    for text, info in zip(sources, loadinfo):
        try:
            v = loads(text)
        except (ValueError, RecursionError):
            return None
        if info == "B":
            return None
        if isinstance(v, Obj):
            failed = set(bytes.fromhex(h).decode("utf-8") for h in info[1:].split(",") if h)
            d = {}
            for k, x in v:
                d[k] = x
            for k in sorted(d, key=lambda s: s.encode("utf-8")):
                if k not in failed:
                    put(k, d[k])
        else:
            if info == "V0":
                counter += 1
                put("value_%d" % counter, v)
    return merged


# --------------------------------------------------------------------------- model side
def model_terms(h, cases):
    """-> list of Gallina terms `show_cli (cli_run ...)` (None when the case cannot be expressed), plus the
    load info of every source"""
    srcs = []
    for cs in cases:
        if cs.get("stdin") is not None and cs["mode"] != "eval":
            srcs.append(cs["stdin"])
        srcs.extend(cs["flags"])
    uniq = sorted(set(srcs))
    outs = c.harness_lines_resilient(h, "c19-input", [c.hexs(s) for s in uniq])
    table = {}
    for s, o in zip(uniq, outs):
        term, _, info = o.partition("\t")
        table[s] = (term, info) if info else (None, None)
    scripts = sorted(set(cs["script"] for cs in cases if cs["mode"] != "noscript"))
    coq, raw = es.parse_to_coq(h, scripts)
    ptab = {}
    for s, t, o in zip(scripts, coq, raw):
        if o == "REJECT":
            ptab[s] = "None"
        elif t is None:
            ptab[s] = None                 # GLUEERR / panic in the glue: not expressible
        else:
            ptab[s] = "(Some %s)" % t
    terms = []
    infos = []
    iterms = []
    for cs in cases:
        ok = True
        stdin_t = "None"
        info = {"stdin": None, "flags": []}
        if cs.get("stdin") is not None and cs["mode"] != "eval" and cs["stdin"].strip() != "":
            t, i = table[cs["stdin"]]
            ok = ok and t is not None
            stdin_t = "(Some %s)" % t
            info["stdin"] = i
        fl = []
        for f in cs["flags"]:
            t, i = table[f]
            ok = ok and t is not None
            fl.append(t)
            info["flags"].append(i)
        prog = "None" if cs["mode"] == "noscript" else ptab[cs["script"]]
        infos.append(info)
        iterms.append("show_inputs %s [%s]" % (stdin_t, "; ".join(fl)) if ok else None)
        if not ok or prog is None:
            terms.append(None)
            continue
        terms.append("show_cli (cli_run eval_release %s %s %s [%s] %s)"
                     % (COQ_MODE[cs["mode"]], "true" if cs["out_file"] else "false", stdin_t,
                        "; ".join(x for x in fl), prog))
    return terms, infos, iterms


def merge_sources(cs, info):
    """(texts, loadinfo) in merge order for the python spec"""
    texts, li = [], []
    if cs.get("stdin") is not None and cs["mode"] != "eval" and cs["stdin"].strip() != "":
        texts.append(cs["stdin"])
        li.append(info["stdin"])
    texts += cs["flags"]
    li += info["flags"]
    return texts, li


# --------------------------------------------------------------------------- known findings
NONBINDING_NAMES = {"inf", "infinity", "constants"}      # + every built-in name (filled in main)


def known_class(case, expect=None):
    """which OPEN known-finding class an invocation falls in.  There is none at present: F33
    (`output x` for an x that is not a binding) and F34 (no script + -o) are fixed in /repo and in the
    model, so a regression of either is reported as a VIOLATION (witnesses: corpus/C19/cases.json)."""
    return None


def expected_text(case, expect, merged):
    """the observation the property text demands, by construction"""
    if merged is None:
        return "EXIT:1;OUT:-;FILE:-"
    if case["mode"] == "noscript":
        return "EXIT:1;OUT:-;FILE:-"
    if expect["status"] != "ok":
        return "EXIT:1;OUT:-;FILE:-"
    pairs = []
    for k, v in expect["decls"]:
        for i, (kk, _) in enumerate(pairs):
            if kk == k:
                pairs[i] = (k, v)
                break
        else:
            pairs.append((k, v))
    o = canon_top(pairs)
    return "EXIT:0;OUT:-;FILE:%s" % o if case["out_file"] else "EXIT:0;OUT:%s;FILE:-" % o


def replay_dict(case, r, extra):
    d = {"kind": "impl-law", "case": case,
         "observed": {"rc": r["rc"], "stdout": r["stdout"][:2000], "stderr": r["stderr"][:2000], "file": r["file"]},
         "rerun": "./check C19 --replay <this file>"}
    d.update(extra)
    return d


def main(argv):
    tier, seed, replay = c.tier_and_seed(argv)
    res = c.Result(PID, tier, seed)
    rng = c.Rng(seed ^ 0xC19)
    try:
        h = c.build_harness()
        cli = c.build_cli("release")
        c.regen_all(h)
    except c.BrokenTie as e:
        res.tie_broken(e.what, e.detail)
        return res.finish()

    try:
        for line in c.harness_oneshot(h, "dump-builtins").split("\n"):
            if line.strip():
                NONBINDING_NAMES.add(line.split("\t")[0])
    except c.BrokenTie as e:
        res.tie_broken(e.what, e.detail)
    if replay:
        rp = json.load(open(replay))
        print(json.dumps(rp, indent=1))
        cs = rp.get("case")
        if cs:
            r = run_case(cli, cs)
            obs = observe(cs, r)
            print("implementation now returns:", obs)
            bad = contract_on_binary(cs, r)
            if rp.get("expected") is not None and law_view(obs) != law_view(rp["expected"]):
                bad.append("observed %s, expected %s" % (obs, rp["expected"]))
            if rp.get("expected_probe"):
                txt = r["file"] if cs["out_file"] else r["stdout"]
                got = as_object_line(txt.strip()) if txt else None
                gd = dict(got) if got is not None else {}
                for k_, want_ in rp["expected_probe"].items():
                    if k_ not in gd or canon(gd[k_]) != want_:
                        bad.append("probe %s: observed %s, expected %s" % (k_, json.dumps(gd.get(k_)), want_))
            for b in bad:
                print("still failing:", b)
            return 1 if bad else 0
        return 0

    c.proof_step(res, PID, extra_targets=["EvalInst.vo", "Cli.vo"])

    # ---------------- corpus: fixed regression cases (contract + model), run first
    corpus = []
    cpath = os.path.join(c.VERIF, "corpus", PID, "cases.json")
    if os.path.exists(cpath):
        with open(cpath) as f:
            corpus = json.load(f)
    cres = run_cases(cli, [e["case"] for e in corpus])
    corpus_ok = 0
    for e, r in zip(corpus, cres):
        obs = observe(e["case"], r)
        bad = contract_on_binary(e["case"], r)
        if law_view(obs) != law_view(e["expected"]):
            bad.append("observed %s but the contract demands %s" % (obs, e["expected"]))
        if bad:
            res.violation("CLI contract broken on the real binary (corpus case: %s): %s" % (e["what"], "; ".join(bad)),
                          replay_dict(e["case"], r, {"expected": e["expected"], "observed_canonical": obs}))
        else:
            corpus_ok += 1
    try:
        cterms, _, _ = model_terms(h, [e["case"] for e in corpus])
        cidx = [i for i, t in enumerate(cterms) if t is not None]
        couts = c.coq_eval_batch(REQUIRES, "", [cterms[i] for i in cidx], "c19c", shard=5)
        cm = [(corpus[i], observe(corpus[i]["case"], cres[i]), o) for i, o in zip(cidx, couts)
              if o is not None and o != "UNMODELLED" and o != observe(corpus[i]["case"], cres[i])]
        if cm:
            res.tie_broken("correspondence C19/CORPUS: cli_run and the release binary disagree on corpus case %r"
                           % cm[0][0]["what"], "impl : %s\nmodel: %s" % (cm[0][1], cm[0][2]))
        res.streams["CORPUS"] = {"cases": len(corpus), "contract_ok": corpus_ok,
                                 "model_compared": sum(1 for o in couts if o not in (None, "UNMODELLED")),
                                 "model_mismatches": len(cm)}
    except c.BrokenTie as e:
        res.tie_broken(e.what, e.detail)

    n_cases = 450 if tier == "quick" else 6000
    g = CaseGen(rng)
    g2 = Gen(rng)
    modes = ["file", "inline", "eval", "file", "inline", "eval", "noscript"]
    cases = []
    for _ in range(n_cases):
        mode = rng.choice(modes)
        cs = {"mode": mode, "out_file": rng.chance(1, 3), "script": ""}
        cs["stdin"], cs["flags"] = g.input_set(mode)
        cases.append(cs)

    # load info first (the python spec and the script generator need the merged inputs)
    try:
        _, infos, _ = model_terms(h, [dict(cs, mode="noscript") for cs in cases])
    except c.BrokenTie as e:
        res.tie_broken(e.what, e.detail)
        return res.finish()
    expects = []
    mergeds = []
    for cs, info in zip(cases, infos):
        texts, li = merge_sources(cs, info)
        merged = spec_merge(texts, li)
        mergeds.append(merged)
        if cs["mode"] == "noscript":
            expects.append({"status": "ok", "decls": [], "nonbinding": False})
            continue
        if rng.chance(1, 4):
            # a general program from the shared EVAL generator (it emits `output` statements too): no
            # by-construction expectation, only the structural contract and the model comparison
            cs["script"] = "\n".join(g2.program(2 + rng.below(7)))
            expects.append(None)
            g.note("script:general-program")
            continue
        src, ex = g.script(dict(merged) if merged is not None else None)
        cs["script"] = src
        expects.append(ex)

    results = run_cases(cli, cases)

    # ---------------- the contract on the binary alone + by-construction expectations
    n_law = 0
    known_hits = {}
    status_hist = {}
    for cs, ex, merged, r in zip(cases, expects, mergeds, results):
        obs = observe(cs, r)
        want = expected_text(cs, ex, merged) if ex is not None else None
        kc = known_class(cs, ex)
        status_hist[obs.split(";")[0] + ("/-o" if cs["out_file"] else "")] = \
            status_hist.get(obs.split(";")[0] + ("/-o" if cs["out_file"] else ""), 0) + 1
        n_law += 1
        bad = contract_on_binary(cs, r)
        if want is not None and law_view(obs) != law_view(want):
            bad.append("observed %s but the contract demands %s" % (obs, want))
        if bad:
            if kc is not None:
                known_hits[kc] = known_hits.get(kc, 0) + 1
                continue
            res.violation("CLI contract broken on the real binary: " + "; ".join(bad),
                          replay_dict(cs, r, {"expected": want, "observed_canonical": obs}))
            if len(res.violations) >= 5:
                break

    # ---------------- correspondence: cli_run (vm_compute) vs the binary
    mism = []
    agree = 0
    skipped = 0
    try:
        terms, _, _ = model_terms(h, cases)
        idx = [i for i, t in enumerate(terms) if t is not None]
        outs = c.coq_eval_batch(REQUIRES, "", [terms[i] for i in idx], "c19", shard=60)
        for i, o in zip(idx, outs):
            if o is None or o == "UNMODELLED":
                skipped += 1
                continue
            if known_class(cases[i], expects[i]) is not None:
                skipped += 1
                continue
            obs = observe(cases[i], results[i])
            if obs == o:
                agree += 1
            else:
                mism.append((cases[i], obs, o))
    except c.BrokenTie as e:
        res.tie_broken(e.what, e.detail)
    if mism:
        res.tie_broken("correspondence C19/CLI: cli_run and the release binary disagree on %d of %d cases"
                       % (len(mism), len(cases)),
                       "first: %s\nimpl : %s\nmodel: %s" % (json.dumps(mism[0][0]), mism[0][1], mism[0][2]))
    res.streams["CLI"] = {"cases": len(cases), "model_agree": agree, "mismatches": len(mism),
                          "skipped_unmodelled_or_known_class": skipped, "exit_histogram": status_hist,
                          "generator_histogram": g.stats, "known_class_hits": known_hits}

    # ---------------- INPUTS: merge order, value_k numbering and #name on the binary alone (spec = python),
    #                  plus the merged record against the model (show_inputs)
    n_inp = 250 if tier == "quick" else 4000
    agree_inputs = 0
    icases = []
    for _ in range(n_inp):
        mode = rng.choice(["file", "inline", "eval"])
        cs = {"mode": mode, "out_file": rng.chance(1, 5), "script": PROBE_SCRIPT}
        cs["stdin"], cs["flags"] = g.input_set(mode)
        if rng.chance(1, 2):
            cs["flags"] = [f for f in cs["flags"] if f not in BAD_JSON] + [g.source(False) for _ in range(rng.below(3))]
            cs["flags"] = cs["flags"][:4]
        icases.append(cs)
    try:
        _, iinfos, iterms = model_terms(h, [dict(cs, mode="noscript") for cs in icases])
        iresults = run_cases(cli, icases)
        n_keys_checked = 0
        overlap = 0
        unnamed = 0
        dropped = 0
        mterms = []
        midx = []
        mobs = []
        for j, (cs, info, r) in enumerate(zip(icases, iinfos, iresults)):
            texts, li = merge_sources(cs, info)
            merged = spec_merge(texts, li)
            bad = contract_on_binary(cs, r)
            obs = observe(cs, r)
            if merged is None:
                if r["rc"] == 0:
                    bad.append("an input source is not valid JSON but the exit status is 0")
            else:
                want = probe_expected(merged)
                txt = r["file"] if cs["out_file"] else r["stdout"]
                got = as_object_line(txt.strip()) if txt else None
                if r["rc"] != 0 or got is None:
                    bad.append("probe script did not produce an object (exit %d)" % r["rc"])
                else:
                    gd = dict(got)
                    for key in ("ks", "iv", "h", "hf", "hd"):
                        if canon(gd.get(key)) != canon(want[key]):
                            bad.append("probe %s: observed %s, the merge/#name specification demands %s"
                                       % (key, json.dumps(gd.get(key)), canon(want[key])))
                    n_keys_checked += len(merged)
                    allkeys = []
                    for t_ in texts:
                        try:
                            v_ = loads(t_)
                        except ValueError:
                            continue
                        if isinstance(v_, Obj):
                            allkeys += [k for k, _ in v_]
                        else:
                            unnamed += 1
                    overlap += 1 if len(allkeys) != len(set(allkeys)) else 0
                    dropped += sum(1 for i_ in li if i_ and (i_ == "V1" or (i_.startswith("O") and len(i_) > 1)))
                    # the implementation's merged record in the order keys(inputs) reports it, for the model
                    if iterms[j] is not None and isinstance(gd.get("ks"), list) and isinstance(gd.get("iv"), Obj):
                        ivd = dict(gd["iv"])
                        midx.append(j)
                        mterms.append(iterms[j])
                        mobs.append(canon_top([(k, ivd.get(k)) for k in gd["ks"]]))
            if bad:
                res.violation("input merging / #name contract broken on the real binary: " + "; ".join(bad[:3]),
                              replay_dict(cs, r, {"observed_canonical": obs,
                                                  "expected_probe": None if merged is None else
                                                  {k_: canon(v_) for k_, v_ in probe_expected(merged).items()}}))
                if len(res.violations) >= 5:
                    break
        mouts = c.coq_eval_batch(REQUIRES, "", mterms, "c19i", shard=60)
        magree = 0
        mmis = []
        for j, o, ob in zip(midx, mouts, mobs):
            if o == ob:
                magree += 1
            else:
                mmis.append((icases[j], ob, o))
        if mmis:
            res.tie_broken("correspondence C19/INPUTS: read_inputs and the release binary disagree on the merged "
                           "inputs record for %d of %d input sets" % (len(mmis), len(midx)),
                           "first: %s\nimpl : %s\nmodel: %s" % (json.dumps(mmis[0][0]), mmis[0][1], mmis[0][2]))
        agree_inputs = magree
        res.streams["INPUTS"] = {"cases": len(icases), "model_compared": len(midx), "model_agree": magree,
                                 "mismatches": len(mmis), "merged_keys_checked": n_keys_checked,
                                 "cases_with_overlapping_keys": overlap, "non_object_sources": unnamed,
                                 "sources_with_dropped_entries": dropped}
    except c.BrokenTie as e:
        res.tie_broken(e.what, e.detail)

    res.coverage["evaluations"] = len(cases) + len(icases)
    res.coverage["distinct_nontrivial"] = len({json.dumps(cs, sort_keys=True) for cs, r in zip(cases, results)
                                               if cs["mode"] != "noscript" and (cs["flags"] or cs["stdin"] or
                                                                                 "output" in cs["script"])} |
                                              {json.dumps(cs, sort_keys=True) for cs in icases
                                               if cs["flags"] or cs["stdin"]})
    res.coverage["rule"] = ("generated invocation = mode (file / inline / -e stdin / no script) x -o x stdin (closed, "
                            "blank, JSON) x 0..4 --input (objects with overlapping keys, non-objects, function objects "
                            "incl. unloadable, invalid JSON) x script (0..6 output declarations, re-declarations, plain "
                            "statements, comments, optional failing statement of kind eval / output-validation / parse "
                            "/ rebind at any position); non-trivial = distinct invocations that have a script and at "
                            "least one input source or output declaration")
    res.coverage["samples"] = [{"case": cases[i], "observed": observe(cases[i], results[i])}
                               for i in (0, len(cases) // 2, len(cases) - 1)]
    res.coverage["traces_validated_against_impl"] = agree + agree_inputs
    res.assumptions = ["stdin is always a pipe (closed, blank or with content); a terminal stdin (REPL) is not exercised",
                       "function values are compared as 'function' only (their printed text is C05's subject)",
                       "the script argument is never the name of an existing file in inline mode (fresh scratch cwd)"]

    # ---------------- known findings: re-run each witness
    known = c.open_known(PID)
    if not known:
        # known_findings.json is generated by tools/mkmanifest.py; fall back to this property's source file
        kp = os.path.join(c.VERIF, "known", PID + ".json")
        if os.path.exists(kp):
            with open(kp) as f:
                known = [e for e in json.load(f) if e.get("status") == "open"]
    for e in known:
        w = e.get("witness_case")
        still = True
        if w:
            r = run_case(cli, w)
            still = law_view(observe(w, r)) != law_view(e.get("witness_expected"))
        res.known("%s %s%s" % (e["id"], e["what"], "" if still else " (no longer reproduces)"))
    return res.finish()


if __name__ == "__main__":
    sys.exit(main(sys.argv[1:]))
