"""Regenerates coq/proofs/AllNoUnmEval.v and AllNoUnmList.v from NoPanic.v / NoPanicList.v.

The two files replay the `never Panic` proofs for the outcome `Unmodelled` (same structure, same induction): they are
NoPanic.v / NoPanicList.v with `Panic` renamed to `Unmodelled`, lemma suffix `_np` to `_nu`, `cb_safe` to `cb_mod`, the
frame-invariant definitions imported from NoPanic.v instead of repeated, and the three statements that are FALSE for
the small dispatchers restricted (binop_impl: `op <> Power`; builtin_impl: `impl_modelled b = true`) or dropped
(eval_inst / program over builtin_impl).  They are kept as files of their own (every proof is checked by coqc like any
other); run this script after NoPanic.v / NoPanicList.v changed (as happened with the F52 model change):
    python3 checks/c01_regen_nounm.py && ./setup.sh
"""
import os
import re

COQ = os.path.join(os.path.dirname(os.path.dirname(os.path.abspath(__file__))), "coq", "proofs")


def ren(s):
    s = s.replace("Panic", "Unmodelled")
    s = re.sub(r"_np\b", "_nu", s)
    s = s.replace("no_panic", "no_unm").replace("cb_safe", "cb_mod").replace("np_ok", "nu_ok").replace("stmt_np", "stmt_nu")
    s = s.replace("np_auto", "nu_auto")
    s = s.replace("NoUnmodelledEval", "NoUnmEval").replace("HofNoUnmodelled", "HofNoUnm").replace("RunNoUnmodelled", "RunNoUnm")
    s = s.replace("WithCallNP", "WithCallNU").replace("WithTextNP", "WithTextNU")
    return s


def header_of(path):
    old = open(path).read()
    return old[:old.index("From Coq Require Import")]


def regen_eval():
    src = open(os.path.join(COQ, "NoPanic.v")).read()
    body = src[src.index("From Coq Require Import"):]
    a = body.index("(* ------------------------------------------------------------------ 2. the frame invariant *)")
    b = body.index("Definition cb_safe")
    body = body[:a] + body[b:]
    body = body.replace("Blots.proofs.ExprInd Blots.proofs.Frames Blots.proofs.Closures.",
                        "Blots.proofs.ExprInd Blots.proofs.Frames Blots.proofs.Closures Blots.proofs.NoPanic.")
    body = ren(body).replace("Blots.proofs.NoUnmodelled", "Blots.proofs.NoPanic")
    out = os.path.join(COQ, "AllNoUnmEval.v")
    s = header_of(out) + body
    s = s.replace('''Theorem binop_impl_no_unm : forall cb op l r st,
  cb_mod cb -> fst (EvalInst.binop_impl cb op l r st) <> Unmodelled.
Proof.
  intros cb op l r st Hcb. unfold EvalInst.binop_impl.
  pose proof (eval_binop_no_unm store cb Hcb fn_accepts2_of_value powf_stub op l r st) as H.
  destruct op; try exact H. discriminate.
Qed.''', '''(* EvalInst.binop_impl answers Unmodelled for `^` (and only for it) *)
Theorem binop_impl_no_unm : forall cb op l r st,
  cb_mod cb -> op <> Power -> fst (EvalInst.binop_impl cb op l r st) <> Unmodelled.
Proof.
  intros cb op l r st Hcb Hop. unfold EvalInst.binop_impl.
  pose proof (eval_binop_no_unm store cb Hcb fn_accepts2_of_value powf_stub op l r st) as H.
  destruct op; try exact H. congruence.
Qed.''')
    s = s.replace('''Theorem builtin_impl_no_unm : forall cb b args st,
  cb_mod cb -> can_accept (builtin_arity b) (Datatypes.length args) = true ->
  fst (EvalInst.builtin_impl cb b args st) <> Unmodelled.
Proof.
  intros cb b args st Hcb Ha.
  destruct b; cbn [EvalInst.builtin_impl]; try discriminate;''', '''Definition impl_modelled (b : builtin) : bool :=
  match b with
  | B_map | B_filter | B_reduce | B_every | B_some | B_abs | B_floor | B_ceil | B_trunc | B_sqrt
  | B_typeof | B_arity | B_to_bool | B_ugt | B_ult | B_ugte | B_ulte | B_any | B_all => true
  | _ => false
  end.
Theorem builtin_impl_no_unm : forall cb b args st,
  cb_mod cb -> can_accept (builtin_arity b) (Datatypes.length args) = true ->
  impl_modelled b = true ->
  fst (EvalInst.builtin_impl cb b args st) <> Unmodelled.
Proof.
  intros cb b args st Hcb Ha Hm.
  destruct b; cbn [EvalInst.builtin_impl]; try discriminate Hm; try discriminate;''')
    k = s.index("Theorem eval_inst_no_unm")
    k2 = s.index("(* ------------------------------------------------------------------ 5. whole programs *)")
    s = s[:k] + s[k2:]
    s = s[:s.index("Theorem program_no_unm")]
    open(out, "w").write(s)


def regen_list():
    src = open(os.path.join(COQ, "NoPanicList.v")).read()
    body = ren(src[src.index("From Coq Require Import"):])
    body = body.replace("Blots.proofs.NoUnmodelled", "Blots.proofs.AllNoUnmEval").replace("list_builtin_arms", "list_builtin_arms_nu")
    out = os.path.join(COQ, "AllNoUnmList.v")
    text = header_of(out) + body
    open(out, "w").write(text)


if __name__ == "__main__":
    regen_eval()
    regen_list()
    print("regenerated AllNoUnmEval.v AllNoUnmList.v")
