"""C04 — the DEPTH axis of the context grammar (seed C04-2 of the "missed by quick" round) and the WIDTH
axis of the closure list.

The theorem says "from every scope chain ... at every call depth"; the context grammar only ever placed the
call under a chain of at most four scopes.  Anything that decides by the LENGTH of the caller's chain (a
collapse / flatten / cache of long chains, a lookup that gives up, a different representation once a chain
or a scope is large) is invisible there.  This module builds, for any (definitions, call, names) of the
context grammar, programs that evaluate the same call

  * at EVERY level of a recursion D levels deep whose frames bind every captured / parameter name of the
    closure to a value that changes with the level (so every chain length 1 .. ~2D is a call site once,
    whatever the threshold or period of the change), in six recursion shapes: parameters, do-locals,
    callbacks of via / reduce, mutual recursion through a late-bound name, call after the deeper levels
    returned, and the closure itself CREATED at the bottom of the chain;
  * and, to hand back a small failing input, at the bottom only of a d-level recursion for each d.

Expected value of every one of those calls: the value of the bare call at top level.
Nothing here knows a threshold: depths are drawn from c.Rng."""

SHAPES = ["param", "do-local", "callback", "mutual", "post-order", "defined-at-depth"]
# call_depth consumed per recursion level (measured generously): the guard is call_depth > 1000
LEVEL_COST = {"param": 1, "do-local": 1, "callback": 4, "mutual": 1, "post-order": 1, "defined-at-depth": 1}
CALLBACKS = ["via", "reduce", "map", "into"]


def _cb(kind, body):
    """an expression that evaluates `body` inside a callback of the built-in form `kind`, with q9 = n9"""
    if kind == "via":
        return "([n9] via (q9 => %s))[0]" % body
    if kind == "map":
        return "map([n9], q9 => %s)[0]" % body
    if kind == "reduce":
        return "reduce([n9], (acc9, q9) => %s, 0)" % body
    return "(n9 into (q9 => %s))" % body


def self_referring(defs):
    """names assigned by a top-level statement of `defs` whose right-hand side mentions the name itself"""
    import re
    out, cur, rhs = set(), None, ""
    for ln in defs.split("\n") + ["end9 = 0"]:
        m = re.match(r"([A-Za-z_]\w*) = (.*)$", ln)
        if m:
            if cur and re.search(r"(?<![\w.])%s(?!\w)" % re.escape(cur), rhs):
                out.add(cur)
            cur, rhs = m.group(1), m.group(2)
        else:
            rhs += "\n" + ln
    return out


def max_levels(shape):
    return 900 // LEVEL_COST[shape]


def every_level(defs, call, names, shape, D, cbkind="via"):
    """-> (program, number of results in the list it returns; 0 = the program returns the bare result)"""
    ps = "".join(", " + n for n in names)
    down = "".join(", n9" for _ in names)
    init = "".join(", %d" % (999 - i) for i in range(len(names)))
    if shape == "param":
        rec = "rec9 = (n9%s) => if n9 == 0 then [] else [%s, ...rec9(n9 - 1%s)]" % (ps, call, down)
        return "%s\n%s\nrec9(%d%s)" % (defs, rec, D, init), D
    if shape == "post-order":
        rec = "rec9 = (n9%s) => if n9 == 0 then [] else [...rec9(n9 - 1%s), %s]" % (ps, down, call)
        return "%s\n%s\nrec9(%d%s)" % (defs, rec, D, init), D
    if shape == "do-local":
        loc = "".join("  %s = n9 + %d\n" % (n, i) for i, n in enumerate(names))
        rec = "rec9 = n9 => do {\n%s  r9 = %s\n  return if n9 == 0 then [r9] else [r9, ...rec9(n9 - 1)]\n}" % (loc, call)
        return "%s\n%s\nrec9(%d)" % (defs, rec, D), D + 1
    if shape == "callback":
        q = "".join(", q9" for _ in names)
        rec = "rec9 = (n9%s) => if n9 == 0 then [] else %s" % (ps, _cb(cbkind, "[%s, ...rec9(q9 - 1%s)]" % (call, q)))
        return "%s\n%s\nrec9(%d%s)" % (defs, rec, D, init), D
    if shape == "mutual":
        # od9 is unbound when ev9 is created: it is found through the caller's chain, however long
        sp = "".join(", " + n for n in reversed(names))
        ev = "ev9 = (n9%s) => if n9 == 0 then [] else [%s, ...od9(n9 - 1%s)]" % (ps, call, down)
        od = "od9 = (n9%s) => if n9 == 0 then [] else [%s, ...ev9(n9 - 1%s)]" % (sp, call, down)
        return "%s\n%s\n%s\nev9(%d%s)" % (defs, ev, od, D, init), D
    if shape == "defined-at-depth":
        # a name the definitions themselves assign is not shadowed here: a recursive `fact = n => .. fact(..)`
        # created where `fact` is already bound captures THAT value (capture by value), which is another program
        own = self_referring(defs)
        names = [n for n in names if n not in own]
        ps = "".join(", " + n for n in names)
        down = "".join(", n9" for _ in names)
        init = "".join(", %d" % (999 - i) for i in range(len(names)))
        body = "".join("  " + ln + "\n" for ln in defs.split("\n"))
        rec = "rec9 = (n9%s) => if n9 == 0 then do {\n%s  return %s\n} else rec9(n9 - 1%s)" % (ps, body, call, down)
        return "%s\nrec9(%d%s)" % (rec, D, init), 0
    raise ValueError(shape)


def bottom_only(defs, call, names, shape, d, cbkind="via"):
    """the same recursion with the call made once, d levels down: the minimisation family"""
    ps = "".join(", " + n for n in names)
    down = "".join(", n9" for _ in names)
    init = "".join(", %d" % (999 - i) for i in range(len(names)))
    if shape in ("param", "post-order"):
        rec = "rec9 = (n9%s) => if n9 == 0 then %s else rec9(n9 - 1%s)" % (ps, call, down)
        return "%s\n%s\nrec9(%d%s)" % (defs, rec, d, init)
    if shape == "do-local":
        loc = "".join("  %s = n9 + %d\n" % (n, i) for i, n in enumerate(names))
        rec = "rec9 = n9 => do {\n%s  return if n9 == 0 then %s else rec9(n9 - 1)\n}" % (loc, call)
        return "%s\n%s\nrec9(%d)" % (defs, rec, d)
    if shape == "callback":
        q = "".join(", q9" for _ in names)
        rec = "rec9 = (n9%s) => if n9 == 0 then %s else %s" % (ps, call, _cb(cbkind, "rec9(q9 - 1%s)" % q))
        return "%s\n%s\nrec9(%d%s)" % (defs, rec, d, init)
    if shape == "mutual":
        sp = "".join(", " + n for n in reversed(names))
        ev = "ev9 = (n9%s) => if n9 == 0 then %s else od9(n9 - 1%s)" % (ps, call, down)
        od = "od9 = (n9%s) => if n9 == 0 then %s else ev9(n9 - 1%s)" % (sp, call, down)
        return "%s\n%s\n%s\nev9(%d%s)" % (defs, ev, od, d, init)
    return every_level(defs, call, names, shape, d, cbkind)[0]


def expected_show(ref_last, count):
    """canonical result line of the every-level program, from the canonical result of the bare call"""
    if count == 0:
        return ref_last
    if not ref_last.startswith("OK:"):
        return ref_last                     # the first call already fails the same way
    return "OK:L[" + ",".join([ref_last[3:]] * count) + "]"


def draw_depth(rng, shape, deep):
    """deep: one in a few programs goes close to the call-depth limit"""
    cap = max_levels(shape)
    if deep:
        return cap - rng.below(max(1, cap // 8))
    return min(cap, 130 + rng.below(140))


# ---- WIDTH: closures over many captured names / many parameters (a scope or parameter list that changes
# representation or gets truncated once it is large); they go through the ordinary context grammar and the
# depth family like every other closure
def wide_closures(rng, quick=True):
    out = []
    widths = [9, 17, 33, 65, 129] if quick else [9, 16, 17, 31, 33, 64, 65, 100, 129, 257]
    for w in widths:
        caps = ["w%d" % i for i in range(w)]
        defs = "\n".join("%s = %d" % (n, 1000 + i) for i, n in enumerate(caps))
        pick = sorted({0, 1, w // 2, w - 2, w - 1, rng.below(w)})
        out.append((defs + "\nF = x => [x, %s]" % ", ".join(caps), [caps[i] for i in pick] + ["x"], ["(1)"]))
        # many parameters, one captured name in the middle of the body
        pars = ["p%d" % i for i in range(w)]
        out.append(("k = 7\nF = (%s) => [%s, k, %s]" % (", ".join(pars), ", ".join(pars[: w // 2]), ", ".join(pars[w // 2:])),
                    ["k"] + [pars[i] for i in pick], ["(%s)" % ", ".join(str(i) for i in range(w))]))
    # a closure created by a factory whose frame is wide, captured names last / first in that frame
    out.append(("mk = (%s) => (x => [a0, a39, x])\nF = mk(%s)" % (", ".join("a%d" % i for i in range(40)), ", ".join(str(i) for i in range(40))),
                ["a0", "a39", "x", "a7"], ["(1)"]))
    return out
