"""C03 — bindings are immutable and scoped.  See DESIGN.md section 6 (C03)."""
import itertools
import re
import sys

import common as c
import evalstream as es
import c03_failbind as fb
from gen_programs import Gen

PID = "C03"
MANIFEST = {
    "text": "9 Coq theorems over the evaluator model for every call depth and every operator/built-in "
            "implementation (evaluation only pushes guard-passing fresh names onto the innermost frame; bound names "
            "keep their value across expressions and across whole statement sequences incl. failing ones; forbidden "
            "names never become bound; inputs constant; do-blocks and calls return the caller's chain exactly; bound "
            "names read back; function cell names are write-once), the evaluator transcription tied to the code by "
            "the EVAL and SESSION correspondence streams (model run by vm_compute on the real parser's ASTs), plus "
            "the invariant checked on the implementation alone over exhaustive statement sequences with probes",
    "note": "trusted: Coq kernel + vm_compute; hand transcription of evaluate_ast / FunctionDef::call / "
            "Environment (validated by correspondence); the real pest parser produces the ASTs the model runs; "
            "HashMap frames modelled as association lists (lookup-only); no axioms",
    "design_ref": "DESIGN.md section 6 C03",
}

FORBIDDEN_NAMES = ["sum", "map", "len", "inputs", "constants", "if", "then", "else", "true", "false", "null",
                   "and", "or", "inf", "infinity"]

# the session alphabet on names a, b, f (+ helpers).  Every entry parses on its own.
ALPHABET = [
    "a = 1", "b = 2", "a = 3", "f = x => x + 1", "f = x => a", "b = f", "a = {g: f}", "b = a.g",
    "do {\n  a = 10\n  loc1 = a\n  return loc1 + 1\n}", "[b = 4, b]", "a = [a = 1, 2]", "output a", "output b = 5",
    "f(1)", "(p1 => p1 + 1)(7)", "1 + \"x\"", "nosuch", "sum = 1", "inputs = 5", "constants = 1", "typeof = 1",
    "inf = 5", "infinity = a", "[inf, infinity, {inf}]",
    "a = do {\n  h = n => if n < 1 then 0 else n + h(n - 1)\n  return {g: h}\n}",
    "f = do {\n  k = n => if n < 1 then 0 else n + k(n - 1)\n  return k\n}",
    "do {\n  inputs = {n: 9}\n  return #n\n}", "[1, 2] via (p2 => b = p2)", "f = (a) => a * 2",
    # assignments in return position / inside anonymous function bodies: must stay local
    "do {\n  return a = 7\n}", "do {\n  return leak1 = 1\n}", "(() => leak2 = 1)()", "(() => a = 9)()",
    "(q7 => leak3 = q7)(3)", "(if true then (() => leak4 = 1) else (() => 2))()", "map([1], q8 => leak6 = q8)",
    "g2 = () => leak7 = 1\ng2()", "do {\n  loc1 = 2\n  return do {\n    return leak8 = loc1\n  }\n}",
    "{k: (() => leak9 = 5)()}", "b = (() => do {\n  return a = 3\n})()",
    # functions that already have a name, re-bound inside do-blocks (the name is the self reference)
    "t = do {\n  fact = n => if n < 2 then 1 else n * fact(n - 1)\n  return {f: fact}\n}", "t.f(3)",
    "do {\n  g9 = t.f\n  return g9(3)\n}",
    "mk = () => do {\n  fc = n => if n < 2 then 1 else n * fc(n - 1)\n  return fc\n}", "mk()(4)",
    "do {\n  g8 = mk()\n  return g8(4)\n}", "do {\n  g7 = f\n  return 0\n}",
]
# scripted entries (several statements each): a function whose do-block re-binds a captured name from
# its own captured value, called from contexts where that name means something else; an anonymous
# function inside a bound list that a later do-block / call binds to a local named like one of its
# captured names (the cell gets that name: found by a seeding agent on the unchanged tree, F36)
SCRIPTED = [
    "y0 = 10\nfy = x => do {\n  y0 = y0 + x\n  return y0\n}\nfy(1)",
    "do {\n  y0 = 50\n  return fy(1)\n}\nfy(1)",
    "(y0 => fy(1))(50)\nfy(1)",
    "y0 = 10\ngl = [x => x + y0]\ngl[0](1)",
    "do {\n  y0 = gl[0]\n  return 0\n}\ngl[0](1)",
    "namer = fn9 => do {\n  y0 = fn9\n  return 0\n}\nnamer(gl[0])\ngl[0](1)",
    "mk2 = y0 => (x => do {\n  y0 = y0 + x\n  return y0\n})\nfz = mk2(7)\nfz(1)",
    "do {\n  y0 = 1000\n  return fz(1)\n}\nfz(1)",
    # every list / record built-in applied to a bound value: the bound value must read the same afterwards
    "l9 = [3, 1, 2, 1]\nr9 = {b: 1, a: [2]}\ns9 = \"b,a\"",
    "m9 = [reverse(l9), sort(l9), unique(l9), concat(l9, l9), flatten([l9, [l9]]), slice(l9, 0, 2), tail(l9), head(l9)]\n[l9, r9, s9]",
    "m8 = [sort_by(l9, x => 0 - x), map(l9, x => x + 1), filter(l9, x => x > 1), l9 via (x => x), l9 where (x => x > 1), reduce(l9, (a, x) => a + x, 0)]\n[l9, r9, s9]",
    "m7 = [keys(r9), values(r9), entries(r9), {...r9, c: 3}, [...l9, 4], l9 + 1, zip(l9, l9), chunk(l9, 2), group_by(l9, x => to_string(x)), count_by(l9, x => to_string(x))]\n[l9, r9, s9]",
    "m6 = [split(s9, \",\"), replace(s9, \"b\", \"c\"), uppercase(s9), s9 + \"!\", [...s9], r9.a, reverse(r9.a), sort(values(r9))]\n[l9, r9, s9]",
    # a parameter named like the function itself / like `inputs` is still the parameter
    "fo9 = fo9 => fo9 + 1\nfo9(41)\n(zz9 => zz9 + 1)(41)",
    "gi9 = inputs => inputs * 2\ngi9(21)\n(zz8 => zz8 * 2)(21)",
]
ALPHABET = ALPHABET + SCRIPTED
# (statement, statement) that must have equal results when both succeed in one session
SAME_RESULT = [
    ("do {\n  y0 = 50\n  return fy(1)\n}", "fy(1)"),
    ("(y0 => fy(1))(50)", "fy(1)"),
    ("do {\n  y0 = 1000\n  return fz(1)\n}", "fz(1)"),
]
# ... and (call, reference, function name): once the function is bound, the call must succeed like the reference
SAME_RESULT_STRICT = [
    ("fo9(41)", "(zz9 => zz9 + 1)(41)", "fo9"),
    ("gi9(21)", "(zz8 => zz8 * 2)(21)", "gi9"),
]
TAIL = "[#n, inputs.n]"


def strip_names(s):
    return re.sub(r"@(-|[0-9a-f]+)", "", s)


def parse_env(env):
    """'6b=VALUE,...' -> dict name -> value text (values may contain commas: split on ',<hex>=')"""
    out = {}
    if not env:
        return out
    parts = re.split(r",(?=[0-9a-f]*=)", env)
    for p in parts:
        k, _, v = p.partition("=")
        try:
            out[bytes.fromhex(k).decode("utf-8", "replace")] = v
        except ValueError:
            out["?" + k] = v
    return out


def check_session_invariant(src, out, res, known):
    """The property on the implementation's own answers for one session. Returns #checks."""
    if out in ("REJECT", "BADUTF8") or out.startswith("PANIC") or out.startswith("ABORT"):
        if out.startswith("PANIC") or out.startswith("ABORT"):
            res.violation("the evaluator panicked/aborted during a session",
                          {"kind": "impl", "program": src, "observed": out})
        return 0
    segs_s, _, probes_s = out.partition(" ## ")
    segs = segs_s.split("|") if segs_s else []
    probes = probes_s.split("|") if probes_s else []
    seen = {}
    seen_probe = {}
    checks = 0

    def viol(what, detail):
        res.violation(what, dict({"kind": "impl-law", "program": src, "observed_trace": out,
                                  "rerun": "./check C03 --replay <this file>"}, **detail))

    for i, seg in enumerate(segs):
        body, _, env = seg.partition(";ENV:")
        envd = parse_env(strip_names(env))
        for k, v in envd.items():
            checks += 1
            if k in FORBIDDEN_NAMES:
                viol("a keyword / built-in name / inputs / constants became bound at top level",
                     {"name": k, "after_statement": i})
            if k in ("loc1", "p1", "p2", "x", "n", "h", "k", "q7", "q8") or k.startswith("leak"):
                viol("a do-block local or function parameter is visible at top level after the block/call",
                     {"name": k, "after_statement": i})
            if k in seen and seen[k] != v:
                viol("a bound top-level name changed its value", {"name": k, "before": seen[k], "after": v,
                                                                  "after_statement": i})
            seen.setdefault(k, v)
        for k in seen:
            if k not in envd:
                viol("a bound top-level name disappeared", {"name": k, "after_statement": i})
        if i < len(probes) and probes[i]:
            for p in probes[i].split(","):
                k, _, v = p.partition("=")
                checks += 1
                # late binding is a documented feature: a probe may fail while a free name of the
                # function is still unbound and succeed later; once it has succeeded, every name it
                # used is bound (hence immutable), so the result must never change again
                if k in seen_probe and seen_probe[k].startswith("OK:") and seen_probe[k] != v:
                    nm = bytes.fromhex(k).decode("utf-8", "replace")
                    viol("the behaviour observed through a bound function name changed (probe call name(2))",
                         {"name": nm, "before": seen_probe[k], "after": v, "after_statement": i})
                if v.startswith("OK:") or k not in seen_probe:
                    seen_probe[k] = v if (v.startswith("OK:") or k not in seen_probe) else seen_probe[k]
    # a statement that binds nothing and succeeded once must give the same result whenever it is
    # evaluated again later in the session (every name it used is bound, hence immutable)
    stmts = [x for x in re.split(r"\n(?=[^\s}])", src) if not x.startswith("//")]
    if len(stmts) == len(segs):
        first_ok = {}
        for i, (stx, seg) in enumerate(zip(stmts, segs)):
            # statements containing an assignment anywhere are excluded (an inner assignment is checked
            # against the whole scope chain, so it may start failing once an outer name appears: F32)
            if re.search(r"(?<![=!<>.])=(?![=>])", stx) or stx.startswith("output"):
                continue
            r_ = strip_names(seg.partition(";ENV:")[0])
            if stx in first_ok and first_ok[stx] != r_:
                viol("the same expression statement gave a different result later in the session",
                     {"statement": stx, "before": first_ok[stx], "after": r_, "after_statement": i})
            if r_.startswith("OK:"):
                first_ok.setdefault(stx, r_)
            checks += 1
        # a do-block local / a parameter of ANOTHER function is not visible inside a called function:
        # the call gives what it gives at top level
        ok_of = {}
        for stx, seg in zip(stmts, segs):
            r_ = strip_names(seg.partition(";ENV:")[0])
            if r_.startswith("OK:"):
                ok_of.setdefault(stx, r_)
        last_of = {}
        bound_at = {}
        for i2, (stx, seg) in enumerate(zip(stmts, segs)):
            last_of[stx] = (i2, strip_names(seg.partition(";ENV:")[0]))
            for k2 in parse_env(strip_names(seg.partition(";ENV:")[2])):
                bound_at.setdefault(k2, i2)
        for call, ref, fname in SAME_RESULT_STRICT:
            if call in last_of and ref in ok_of and fname in bound_at and bound_at[fname] < last_of[call][0]:
                checks += 1
                if last_of[call][1] != ok_of[ref]:
                    viol("a parameter named like the function itself or like `inputs` is not the parameter "
                         "(the call differs from the same body under another parameter name)",
                         {"statement": call, "result": last_of[call][1], "reference_statement": ref,
                          "reference_result": ok_of[ref]})
        for wrapped, bare in SAME_RESULT:
            if wrapped in ok_of and bare in ok_of:
                checks += 1
                if ok_of[wrapped] != ok_of[bare]:
                    viol("a do-block local or a parameter of the calling function was visible inside the called "
                         "function (the call gives a different result than at top level)",
                         {"statement": wrapped, "result": ok_of[wrapped], "top_level_statement": bare,
                          "top_level_result": ok_of[bare]})
    if segs:
        last = segs[-1].partition(";ENV:")[0]
        if src.endswith(TAIL) and last != "OK:L[N4014000000000000,N4014000000000000]":
            viol("`inputs` did not keep the record it was given (#n / inputs.n)", {"observed": last})
    return checks


def sessions_exhaustive(depth):
    """every sequence of up to 2 entries of the whole alphabet; of up to `depth` entries of the single-statement
    core and of the scripted entries separately (their product would be 70^3 sessions)"""
    core = [a for a in ALPHABET if a not in SCRIPTED]
    seen = set()
    for pool_, d in ((ALPHABET, min(depth, 2)), (core, depth), (SCRIPTED, depth)):
        for k in range(1, d + 1):
            for combo in itertools.product(range(len(pool_)), repeat=k):
                sx = "\n".join(pool_[i] for i in combo) + "\n" + TAIL
                if sx not in seen:
                    seen.add(sx)
                    yield sx


def main(argv):
    tier, seed, replay = c.tier_and_seed(argv)
    res = c.Result(PID, tier, seed)
    rng = c.Rng(seed)
    try:
        h = c.build_harness()
        c.regen_all(h)
    except c.BrokenTie as e:
        res.tie_broken(e.what, e.detail)
        return res.finish()
    if replay:
        import json
        rp = json.load(open(replay))
        print(json.dumps(rp, indent=1))
        if rp.get("kind") == "impl-law-failbind":
            return fb.replay(c, es, h, rp, strip_names)
        if rp.get("kind") == "repl-failbind":
            return fb.repl_replay(c, rp)
        if rp.get("program"):
            out = c.harness_lines_resilient(h, "session", [c.hexs(rp["program"]) + "\t" + c.hexs(es.DEFAULT_INPUTS_JSON)])[0]
            print("implementation now returns:", out)
            r2 = c.Result(PID, tier, seed)
            check_session_invariant(rp["program"], out, r2, [])
            return 1 if r2.violations else 0
        return 0

    c.proof_step(res, PID, extra_targets=["EvalInst.vo"])

    # ---------------- sessions: exhaustive over the alphabet (implementation only), model on a sample
    depth = 2 if tier == "quick" else 3
    sess = list(sessions_exhaustive(depth))
    n_random = 400 if tier == "quick" else 120000
    for _ in range(n_random):
        k = 3 + rng.below(8)
        sess.append("\n".join(rng.choice(ALPHABET) for _ in range(k)) + "\n" + TAIL)
    lines = [c.hexs(s) + "\t" + c.hexs(es.DEFAULT_INPUTS_JSON) for s in sess]
    outs = c.harness_lines_resilient(h, "session", lines)
    checks = 0
    for s, o in zip(sess, outs):
        checks += check_session_invariant(s, o, res, [])
        if len(res.violations) > 10:
            break
    # model vs implementation on the per-statement snapshots
    n_model = 700 if tier == "quick" else 40000
    idx = list(range(len(sess)))
    if len(idx) > n_model:
        # sessions made of scripted entries are always compared with the model
        scripted = [i for i in idx if sum(1 for e in SCRIPTED if e in sess[i]) >= 2]
        rest = [i for i in idx if i not in set(scripted)]
        idx = sorted(scripted[:n_model // 2] + rng.shuffle(rest)[:n_model - min(len(scripted), n_model // 2)])
    sub = [sess[i] for i in idx]
    mism = []
    agree = 0
    try:
        coq, _ = es.parse_to_coq(h, sub)
        model = es.model_eval(coq, tag="c03s", fn="run_session_full false")
        for j, i in enumerate(idx):
            if model[j] is None or "UNMODELLED" in model[j]:
                continue
            impl = outs[i].partition(" ## ")[0]
            if impl == model[j]:
                agree += 1
            else:
                mism.append((sub[j], impl, model[j]))
    except c.BrokenTie as e:
        res.tie_broken(e.what, e.detail)
    if mism:
        res.tie_broken("correspondence C03/SESSION: model and implementation disagree on %d of %d sessions"
                       % (len(mism), len(idx)),
                       "first: %r\nimpl : %s\nmodel: %s" % mism[0])
    res.streams["SESSION"] = {"sessions": len(sess), "exhaustive_depth": depth, "alphabet": len(ALPHABET),
                              "random_longer": n_random, "impl_invariant_checks": checks,
                              "model_compared": len(idx), "model_agree": agree, "mismatches": len(mism)}

    # ---------------- FAILBIND: statements that fail after a nested assignment bound a name (checks/c03_failbind.py)
    fb_evals, fb_nontrivial, fb_agree = fb.run(c, es, h, res, rng, tier, check_session_invariant, strip_names)
    fb_evals += fb.repl_stream(c, res, rng, tier)

    # ---------------- EVAL: general generated programs, model vs implementation
    n_eval = 300 if tier == "quick" else 40000
    g = Gen(rng)
    progs = ["\n".join(g.program(2 + rng.below(8))) for _ in range(n_eval)]
    try:
        coq, _ = es.parse_to_coq(h, progs)
        rust = es.rust_eval(h, progs)
        model = es.model_eval(coq, tag="c03e")
        agree2, mism2, skipped, rejected = es.compare(progs, rust, model)
        if mism2:
            i, r, m = mism2[0]
            res.tie_broken("correspondence C03/EVAL: model and implementation disagree on %d of %d programs"
                           % (len(mism2), n_eval), "first: %r\nimpl : %s\nmodel: %s" % (progs[i], r, m))
        for r_, p_ in zip(rust, progs):
            if "PANIC" in r_ or r_.startswith("ABORT"):
                res.violation("the evaluator panicked/aborted", {"kind": "impl", "program": p_, "observed": r_})
                break
        res.streams["EVAL"] = {"programs": n_eval, "agree": agree2, "mismatches": len(mism2),
                               "skipped_unmodelled": skipped, "parser_rejected": rejected,
                               "generator_node_histogram": g.stats}
    except c.BrokenTie as e:
        res.tie_broken(e.what, e.detail)
        agree2 = 0

    res.coverage["evaluations"] = len(sess) + n_eval + fb_evals
    res.coverage["distinct_nontrivial"] = len({o for o in outs if "OK:" in o}) + fb_nontrivial
    res.coverage["rule"] = ("sessions = every statement sequence of length <= %d over a %d-statement alphabet (bind, "
                            "rebind, alias, shadow-in-do, nested assignment, self-rebinding initialiser, output, call, "
                            "failing, forbidden names, functions escaping do-blocks) + %d random longer ones, each ending "
                            "in an inputs probe; the invariant is checked after every statement on the implementation's "
                            "snapshots and probe calls; non-trivial = distinct traces with at least one successful "
                            "statement" % (depth, len(ALPHABET), n_random))
    res.coverage["samples"] = [{"session": sess[i], "trace": outs[i]} for i in (0, len(sess) // 2, len(sess) - 1)]
    res.coverage["traces_validated_against_impl"] = agree + agree2 + fb_agree
    res.assumptions = ["sessions continue after a failing statement (REPL semantics); the CLI stops at the first "
                       "failure, which is the prefix case",
                       "display names of functions are not part of the compared value (write-once, see theorem "
                       "C03_function_names_write_once); behaviour is compared through probe calls"]
    for e in c.open_known(PID):
        res.known("%s %s" % (e["id"], e["what"]))
    return res.finish()


if __name__ == "__main__":
    sys.exit(main(sys.argv[1:]))
