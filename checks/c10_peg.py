"""C10 (shared with C07 / C09 / C01 / C16) — the GRAMMAR LAYER: coq/Peg.v (pest 2.8.3 interpreter) running
coq/gen/Grammar.v (grammar.pest after pest_meta's optimizer, regenerated on every run by
translate/pest2coq.py) against pest's generated parser (`get_pairs`, harness stream `pegtree`).
Called from checks/c10.py; see notes/PEG.md."""
import glob
import json
import os
import re
import sys

import common as c

sys.path.insert(0, os.path.join(c.VERIF, "translate"))
import pest2coq  # noqa: E402

REQ = ["Blots.Num", "Blots.Peg", "Blots.gen.Grammar"]


def regen_grammar():
    try:
        txt, info = pest2coq.generate(c.REPO)
    except pest2coq.TranslateError as e:
        raise c.BrokenTie("translate/pest2coq.py cannot translate grammar.pest", str(e))
    except (OSError, IOError) as e:
        raise c.BrokenTie("translate/pest2coq.py: grammar.pest missing", str(e))
    c.write_if_changed(os.path.join(c.GEN, "Grammar.v"), txt)
    info = dict(info)
    info.pop("names", None)
    return info


def model_case(text):
    hx = c.hexs(text)
    return 'show_res grule_name (parse blots_grammar (peg_fuel (hx "%s")) PG_input (hx "%s"))' % (hx, hx)


# --------------------------------------------------------------------------- input texts
def corpus_texts():
    out = []
    keys = ("source", "src", "program", "base", "variant", "script", "a", "b", "stdin")

    def walk(x):
        if isinstance(x, dict):
            for k, v in x.items():
                if isinstance(v, str) and k in keys and len(v) < 3000:
                    out.append(v)
                walk(v)
        elif isinstance(x, list):
            for v in x:
                walk(v)
    for f in sorted(glob.glob(os.path.join(c.VERIF, "corpus", "*", "*.json"))):
        try:
            walk(json.load(open(f)))
        except (ValueError, OSError):
            pass
    return out


def readme_texts():
    out = []
    for f in sorted(glob.glob(os.path.join(c.REPO, "*.md")) + glob.glob(os.path.join(c.REPO, "*", "README.md"))):
        try:
            t = open(f).read()
        except OSError:
            continue
        for m in re.finditer(r"```(?:blots)?\n(.*?)```", t, re.S):
            block = m.group(1)
            if len(block) < 3000:
                out.append(block)
                out.extend(l for l in block.split("\n") if l.strip())
    for f in sorted(glob.glob(os.path.join(c.REPO, "examples", "*.blots"))):
        try:
            t = open(f).read()
        except OSError:
            continue
        if len(t) < 6000:
            out.append(t)
        out.extend(l for l in t.split("\n") if l.strip())
    return out


def generator_texts(rng, n, tree_meta):
    """texts of every existing program generator, tagged by source"""
    import c10_gen as g10
    import c07_gen as g7
    import c0809_gen as g89
    import c09_contexts as X
    from gen_programs import Gen
    out = []
    # c10: the trees of the PARSE-tree stream in their minimal rendering, with random layout, fully parenthesised
    for (t, par, wn) in tree_meta[:n]:
        out.append(("c10-tree", g10.Renderer(par, 0, wn).render(t)))
    for (t, par, wn) in tree_meta[:n // 2]:
        try:
            out.append(("c10-layout", g10.fill(g10.Renderer(par, 0, wn).parts(t), rng)))
        except Exception:       # noqa: BLE001 - generator helper signature; the plain rendering is already in
            break
    tg = g7.TreeGen(rng)
    for _ in range(n):
        out.append(("c07", g7.random_program(rng, tg, 1 + rng.below(4))))
    fg = g89.FmtGen(rng)
    k = 0
    while k < n:
        src, _case = fg.program()
        if len(src) <= 1500:
            out.append(("c0809", src))
            k += 1
    for (src, _case, _w) in X.programs(rng, n // 4):
        out.append(("c09-context", src))
    gen = Gen(rng)
    for _ in range(n):
        out.append(("gen_programs", "\n".join(gen.program(1 + rng.below(5)))))
    return out


STRAY = ['"', "'", "(", ")", "[", "]", "{", "}", ",", ";", "\\", "!", "?", ".", "=", "#", "$", "@", "~", "\r", "\n",
         "\r\n", "\t", " ", "é", "€", "\U0001F600", "//", "/*", "=>", "...", "0x", "1e", "_", "if ", " then ",
         " else ", "do {", "return ", "output ", " ", "\x00", "\x0b"]


def malformed(rng, texts, n):
    """mutated / truncated texts, stray quotes, unbalanced brackets, non-ASCII, CRLF"""
    out = []
    base = [t for t in texts if 0 < len(t) < 400] or ["x = 1"]
    while len(out) < n:
        t = rng.choice(base)
        k = rng.below(9)
        if k == 0:
            out.append(("truncate", t[:rng.below(len(t) + 1)]))
        elif k == 1:
            i = rng.below(len(t))
            out.append(("delete", t[:i] + t[i + 1:]))
        elif k == 2:
            i = rng.below(len(t) + 1)
            out.append(("insert", t[:i] + rng.choice(STRAY) + t[i:]))
        elif k == 3:
            i = rng.below(len(t))
            out.append(("replace", t[:i] + rng.choice(STRAY) + t[i + 1:]))
        elif k == 4:
            out.append(("crlf", t.replace("\n", "\r\n")))
        elif k == 5:
            i = rng.below(len(t))
            j = min(len(t), i + 1 + rng.below(6))
            out.append(("duplicate", t[:j] + t[i:j] + t[j:]))
        elif k == 6:
            q = rng.choice(['"', "'"])
            out.append(("swap-quote", t.replace('"', "\0").replace("'", '"').replace("\0", "'") if q == '"'
                        else t.replace('"', "'", 1)))
        elif k == 7:
            br = [i for i, ch in enumerate(t) if ch in "()[]{}"]
            if br:
                i = rng.choice(br)
                out.append(("unbalance", t[:i] + t[i + 1:]))
            else:
                out.append(("unbalance", t + rng.choice([")", "]", "}", "(", "[", "{"])))
        else:
            i = rng.below(len(t) + 1)
            j = rng.below(len(t) + 1)
            out.append(("two-inserts", t[:min(i, j)] + rng.choice(STRAY) + t[min(i, j):max(i, j)] + rng.choice(STRAY)
                        + t[max(i, j):]))
    return out


HAND = ["", " ", "\n", "\r\n", "\t", "1", "1 +", "(", ")", "\"", "'", "\"abc", "'a\"", "\"a'b\"", "'a\"b'", "\"\"", "''",
        "a // c", "// c", "//", "a //\r\nb", "x = [1, // c\n 2]", "[ // c\n]", "{ // c\n}", "a!", "a!=b", "a!==b",
        "not a", "not  a", "nota", "a and b", "a and\nb", "a\nand b", "a &&\n b", "1 2", "a;b", "é", "\"é\"",
        "xé", "é = 1", "'\U0001F600'", "1_000", "1__0", "1_", "_1", "1.", ".5", "1.5e3", "1e", "1E5", "0x1F",
        "0xg", "0b102", "+1", "-1", "--1", "- 1", "#in", "#1", "# a", "a.b", "a. b", "a .b", "a[0]", "a [0]", "a[ 0 ]",
        "a[\n0\n]", "f(1,2)", "f (1)", "f(\n1,\n2,\n)", "f(1,,2)", "f(,)", "f(1,)", "f(1,\n)", "(a) => a", "a => a",
        "(a, b?) => a", "(...a) => a", "(a,) => a", "( a , b ) => a", "a=>\na", "a =>a", "x = y = 1", "output x",
        "output  x = 1", "outputx", "output", "if a then b else c", "if a\nthen b\nelse c", "ifa then b else c",
        "if(a) then b else c", "do { return 1 }", "do {\n x = 1\n return x\n}", "do { x = 1; return x }", "do{return 1}",
        "do {\n // c\n return 1\n}", "do { return 1 } // c", "[1,2,]", "[,]", "[1 2]", "[...a]", "[... a]", "{a: 1}",
        "{a}", "{\"a\": 1}", "{[a]: 1}", "{...a}", "{a: 1,}", "{,}", "true", "trueish", "truefalse", "null", "nullx",
        "a ?? b", "a .== b", "a.==b", "a . == b", "a via f", "a  via  f", "a via\nf", "a\nvia f", "avia f", "a into f",
        "a where f", "x = 1\n\n\ny = 2", "x = 1 // c\ny = 2 // d\n", "  x = 1  ", "\tx\t=\t1\t", "x = 1\r\ny = 2\r\n",
        "x = 1\ry = 2", "a + // c\n b", "a // c\n + b", "(\n1\n)", "( 1 )", "((1))", "()", "a ! = b", "1 + + 2", "a -b",
        "a - -b", "a^-b", "!a", "!!a", "a!!", "-a!", "\"a\" + 'b'", "\"a\nb\"", "'", "\"'", "f(x)(y)[z].w!", "a.if", "a.true",
        "if = 1", "then", "x = then", "and", "a and and b", "inf", "via = 1"]


# --------------------------------------------------------------------------- the streams
def run(h, res, name, tagged):
    """tagged: list of (kind, text).  Returns (n, agreeing)."""
    # one case per distinct text; texts must be valid UTF-8 (Rust &str) and of a size vm_compute handles quickly
    seen = {}
    for k, t in tagged:
        try:
            t.encode("utf-8")
        except UnicodeEncodeError:
            continue
        if len(t) <= 2500 and t not in seen:
            seen[t] = k
    texts = list(seen)
    impl = c.harness_lines_resilient(h, "pegtree", [c.hexs(t) for t in texts])
    try:
        model = c.coq_eval_batch(REQ, "", [model_case(t) for t in texts], "c10peg" + re.sub(r"[^A-Za-z0-9]", "_", name),
                                 shard=150)
    except c.BrokenTie as e:
        res.tie_broken(e.what, e.detail)
        return len(texts), 0
    kinds = {}
    for t in texts:
        kinds[seen[t]] = kinds.get(seen[t], 0) + 1
    mism = [i for i in range(len(texts)) if impl[i] != model[i]]
    fuel = sum(1 for m in model if m == "FUEL")
    sizes = sorted(len(t.encode("utf-8")) for t in texts)
    st = {"cases": len(texts), "mismatches": len(mism), "model_out_of_fuel": fuel,
          "fuel": "peg_fuel text = 128 + 48 * (length of text in bytes)",
          "impl_accepts": sum(1 for o in impl if (o or "").startswith("OK")),
          "impl_rejects": sum(1 for o in impl if o == "ERR"),
          "impl_panics": sum(1 for o in impl if (o or "").startswith(("PANIC", "ABORT"))),
          "model_panics": sum(1 for m in model if m == "PANIC"),
          "non_ascii": sum(1 for t in texts if any(ord(ch) > 127 for ch in t)),
          "with_cr": sum(1 for t in texts if "\r" in t),
          "with_comment": sum(1 for t in texts if "//" in t),
          "with_string": sum(1 for t in texts if '"' in t or "'" in t),
          "bytes_min_median_max": [sizes[0], sizes[len(sizes) // 2], sizes[-1]] if sizes else [],
          "pairs_compared": sum((o or "").count("(") for o in impl),
          "kinds": dict(sorted(kinds.items()))}
    # implementation only (the parser's share of C01 for REJECTED texts, where the model has no error value):
    # the position pest reports lies inside the text, on a character boundary
    rej = [t for t, o in zip(texts, impl) if o == "ERR"]
    errs = c.harness_lines_resilient(h, "pegerr", [c.hexs(t) for t in rej]) if rej else []
    outside = 0
    for t, o in zip(rej, errs):
        m = re.match(r"^ERR (\d+) (\d+)$", o or "")
        b = t.encode("utf-8")
        good = bool(m) and int(m.group(1)) <= int(m.group(2)) == len(b)
        if good:
            q = int(m.group(1))
            good = q == len(b) or (b[q] & 0xC0) != 0x80
        if not good:
            outside += 1
            res.violation("pest error position outside the text or inside a character: %r -> %s" % (t, o),
                          {"kind": "peg-error-position", "program": t, "observed": o,
                           "expected": "ERR <pos> <len> with pos <= len on a character boundary",
                           "rerun": "harness pegerr < hex(program)"})
    st["error_positions_checked"] = len(rej)
    st["error_positions_outside"] = outside
    res.streams[name] = st
    if fuel:
        res.tie_broken("PEG model ran out of fuel on %d %s inputs (fuel 128 + 48*len)" % (fuel, name),
                       repr(texts[[i for i, m in enumerate(model) if m == "FUEL"][0]]))
    if mism:
        i = mism[0]
        res.tie_broken("correspondence C10/%s: the PEG model (coq/Peg.v on gen/Grammar.v) and pest's generated parser "
                       "disagree on %d of %d texts" % (name, len(mism), len(texts)),
                       "first: text=%r model=%s impl=%s" % (texts[i], (model[i] or "")[:600], (impl[i] or "")[:600]))
    return len(texts), len(texts) - len(mism)


def run_ast(h, res, name, tagged):
    """PARSE-text: text -> pairs (Peg.v) -> items (PegToItems.v) -> AST (Pratt.v) as ONE model, against the real
    parse / pairs_to_expr (harness parse10: Show of the AST of every statement)."""
    seen = {}
    for k, t in tagged:
        try:
            t.encode("utf-8")
        except UnicodeEncodeError:
            continue
        if len(t) <= 1500 and t not in seen:
            seen[t] = k
    texts = list(seen)
    impl = c.harness_lines_resilient(h, "parse10", [c.hexs(t) for t in texts])
    try:
        model = c.coq_eval_batch(["Blots.Num", "Blots.PegToItems"], "", ['parse_text (hx "%s")' % c.hexs(t) for t in texts],
                                 "c10pegast" + re.sub(r"[^A-Za-z0-9]", "_", name), shard=150)
    except c.BrokenTie as e:
        res.tie_broken(e.what, e.detail)
        return len(texts), 0
    kinds = {}
    for t in texts:
        kinds[seen[t]] = kinds.get(seen[t], 0) + 1
    mism = [i for i in range(len(texts)) if impl[i] != model[i]]
    bad = sum(1 for m in model if m in ("FUEL", "OUTOFFUEL"))
    st = {"cases": len(texts), "mismatches": len(mism), "model_out_of_fuel": bad,
          "impl_rejects": sum(1 for o in impl if o == "REJECT"),
          "impl_glue_errors": sum(1 for o in impl if o == "GLUEERR"),
          "impl_panics": sum(1 for o in impl if (o or "").startswith(("PANIC", "ABORT"))),
          "statements_compared": sum((o or "").count(" ;; ") + 1 for o in impl if o and o[0] in "EO"),
          "with_output_declaration": sum(1 for o in impl if (o or "").startswith("O ") or " ;; O " in (o or "")),
          "kinds": dict(sorted(kinds.items()))}
    res.streams[name] = st
    if bad:
        res.tie_broken("text -> AST model ran out of fuel on %d %s inputs" % (bad, name))
    if mism:
        i = mism[0]
        res.tie_broken("correspondence C10/%s: the text -> pairs -> items -> AST model (Peg.v, PegToItems.v, Pratt.v) and "
                       "the real parse / pairs_to_expr disagree on %d of %d texts" % (name, len(mism), len(texts)),
                       "first: text=%r model=%s impl=%s" % (texts[i], (model[i] or "")[:600], (impl[i] or "")[:600]))
    return len(texts), len(texts) - len(mism)


def peg_streams(h, res, rng, tier, tree_meta):
    ok_build, log = c.coq_make(["gen/Grammar.vo", "PegToItems.vo"])
    if not ok_build:
        res.tie_broken("coq/Peg.v / coq/gen/Grammar.v no longer compile", log[-1500:])
        return 0, 0
    n = 250 if tier == "quick" else 3000
    gen = generator_texts(rng, n, tree_meta)
    fixed = [("hand", t) for t in HAND] + [("corpus", t) for t in corpus_texts()] + [("readme", t) for t in readme_texts()]
    total = ok = 0
    a, b = run(h, res, "PEG-tree", gen + fixed)
    total += a
    ok += b
    mal = malformed(rng, [t for _, t in gen + fixed], 900 if tier == "quick" else 12000)
    a, b = run(h, res, "PEG-malformed", mal)
    total += a
    ok += b
    a, b = run_ast(h, res, "PARSE-text", gen + fixed + mal[:len(mal) // 3])
    total += a
    ok += b
    return total, ok
