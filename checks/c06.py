"""C06 — data survives output -> JSON -> input unchanged.  See notes/C06.md (DESIGN.md section 6 C06)."""
import json
import os
import struct
import subprocess
import sys
from concurrent.futures import ThreadPoolExecutor

import common as c

PID = "C06"
MANIFEST = {
    "text": "Coq theorems, by structural induction at any depth and for every instance of the library oracles, over a "
            "transcription of SerializableValue::{from_value,to_json,from_json,to_value} and of parse_json_inputs/"
            "write_outputs: to_value(from_value v) = v; from_json(to_json(from_value v)) = the same tree with sorted "
            "keys; the value read back is .== and bit/byte-identical to the original (reserved function form excluded by "
            "a decidable predicate, with refutation witnesses); a supplied document is echoed up to JSON value equality "
            "(numbers as doubles, duplicate keys/key order quotiented) - for every document the parser model returns, "
            "with NO hypothesis on its numbers: the serde_json::Number invariant (u64 / negative i64 / finite f64) is "
            "established by the parser model and by to_json, and u64/i64 `as f64` is proved finite (Flocq); text level: "
            "serde_json's compact printer and parser transcribed, parse(print j) = j, parse-print-parse for every "
            "accepted input text, and the echo program from the bytes of the input to the bytes of the output, proved "
            "under two hypotheses on the float tokens (printer writes a well-formed float token; reading it gives the "
            "double back) - and these hypotheses are PROVED for a global instance (exact decimal expansion printer + "
            "the correctly rounded reader of C16), for which every text-level theorem is restated hypothesis-free; the "
            "pre-fix number parser (no float_roundtrip) stays transcribed and refuted by a vm_compute witness. Model "
            "tied to the code by tree-level and text-level correspondence streams (incl. the exact reader vs the real "
            "serde_json parser on ryu texts, edge/random number texts and whole documents; the exact printer's texts "
            "re-read by the real parser); the round trip itself searched in process and through the real CLI binary; round 7: LARGE documents in the CLI echo search (2-, 3-, 4-byte characters x 4 alignments, 80-200 KB, through stdin, stdin + -o and -i) after seed C06-11 (piped stdin decoded per 64 KiB chunk)",
    "note": "trusted: Coq kernel + vm_compute; the four standard-library axioms of Flocq/Reals under the theorems that "
            "need u64/i64 `as f64` finite or the correctly rounded reader; hand transcription validated by differential "
            "streams (not proof); NOT proved: that ryu (what serde_json really prints) writes the SHORTEST decimal that "
            "reads back - the exact instance prints the full expansion instead; that ryu's text reads back is compared "
            "per run (NUM/XNUM streams); that serde_json's float_roundtrip parser IS the correctly rounded reader is "
            "compared per run (XNUM/XPARSE); serde_json Map = BTreeMap (preserve_order off) re-checked on every run; "
            "parser/source printer for function values are oracles (C05/C10); PARTIAL: nothing is claimed about "
            "function arms; nesting > 127 excluded (finding C06-F31, also at the echo level)",
    "design_ref": "DESIGN.md section 6 C06; notes/C06.md",
}
FN_KEY = "__blots_function"
REQS = ["Blots.Num", "Blots.gen.Builtins", "Blots.Ast", "Blots.Value", "Blots.Outcome", "Blots.Json"]


# --------------------------------------------------------------------------- trees
def f2b(x):
    return struct.unpack(">Q", struct.pack(">d", x))[0]


def b2f(b):
    return struct.unpack(">d", struct.pack(">Q", b))[0]


def is_finite_bits(b):
    return (b >> 52) & 0x7FF != 0x7FF


def hx(s):
    return s.encode("utf-8").hex()


# value trees: ("num", bits) ("bool", b) ("null",) ("str", s) ("list", [..]) ("rec", [(k, v)..])
def enc_value(v):
    k = v[0]
    if k == "num":
        return "N%016x" % v[1]
    if k == "bool":
        return "T" if v[1] else "F"
    if k == "null":
        return "U"
    if k == "str":
        return "S%s;" % hx(v[1])
    if k == "list":
        return "L[" + ",".join(enc_value(x) for x in v[1]) + "]"
    if k == "rec":
        return "R{" + ",".join("%s:%s" % (hx(kk), enc_value(x)) for kk, x in v[1]) + "}"
    raise ValueError(k)


def coq_value(v):
    k = v[0]
    if k == "num":
        return "(VNum (nb 0x%016x))" % v[1]
    if k == "bool":
        return "(VBool %s)" % ("true" if v[1] else "false")
    if k == "null":
        return "VNull"
    if k == "str":
        return '(VStr (hx "%s"))' % hx(v[1])
    if k == "list":
        return "(VList [" + "; ".join(coq_value(x) for x in v[1]) + "])"
    if k == "rec":
        return "(VRec [" + "; ".join('(hx "%s", %s)' % (hx(kk), coq_value(x)) for kk, x in v[1]) + "])"
    raise ValueError(k)


def vsort(v):
    """records sorted by key bytes at every level (what the round trip returns)"""
    if v[0] == "list":
        return ("list", [vsort(x) for x in v[1]])
    if v[0] == "rec":
        return ("rec", sorted(((k, vsort(x)) for k, x in v[1]), key=lambda kv: kv[0].encode("utf-8")))
    return v


def value_has_nonfinite(v):
    if v[0] == "num":
        return not is_finite_bits(v[1])
    if v[0] == "list":
        return any(value_has_nonfinite(x) for x in v[1])
    if v[0] == "rec":
        return any(value_has_nonfinite(x) for _, x in v[1])
    return False


def value_reserved(v, fn_table):
    """mirrors Json.value_no_reserved (negated): some record has "__blots_function" bound to a string that
    from_json reads as a function (answers of the real parse_function_source in fn_table)"""
    if v[0] == "list":
        return any(value_reserved(x, fn_table) for x in v[1])
    if v[0] == "rec":
        for k, x in v[1]:
            if k == FN_KEY and x[0] == "str" and fn_table.get(x[1], "N") != "N":
                return True
        return any(value_reserved(x, fn_table) for _, x in v[1])
    return False


def value_nodes(v):
    if v[0] in ("list",):
        return 1 + sum(value_nodes(x) for x in v[1])
    if v[0] == "rec":
        return 1 + sum(value_nodes(x) for _, x in v[1])
    return 1


def value_depth(v):
    if v[0] == "list":
        return 1 + max([value_depth(x) for x in v[1]] + [0])
    if v[0] == "rec":
        return 1 + max([value_depth(x) for _, x in v[1]] + [0])
    return 0


# json document trees: ("z",) ("b", bool) ("u", n) ("i", n<0) ("d", bits) ("s", str) ("a", [..]) ("o", [(k, v)..])
def enc_json(j):
    k = j[0]
    if k == "z":
        return "z"
    if k == "b":
        return "t" if j[1] else "f"
    if k == "u":
        return "u%016x" % j[1]
    if k == "i":
        return "i%016x" % (j[1] + (1 << 64))
    if k == "d":
        return "d%016x" % j[1]
    if k == "s":
        return "s%s;" % hx(j[1])
    if k == "a":
        return "a[" + ",".join(enc_json(x) for x in j[1]) + "]"
    if k == "o":
        return "o{" + ",".join("%s:%s" % (hx(kk), enc_json(x)) for kk, x in j[1]) + "}"
    raise ValueError(k)


def coq_json(j):
    k = j[0]
    if k == "z":
        return "JNull"
    if k == "b":
        return "(JBool %s)" % ("true" if j[1] else "false")
    if k == "u":
        return "(JNum (JPosInt %d))" % j[1]
    if k == "i":
        return "(JNum (JNegInt (%d)))" % j[1]
    if k == "d":
        return "(JNum (JFloat (nb 0x%016x)))" % j[1]
    if k == "s":
        return '(JStr (hx "%s"))' % hx(j[1])
    if k == "a":
        return "(JArr [" + "; ".join(coq_json(x) for x in j[1]) + "])"
    if k == "o":
        return "(JObj [" + "; ".join('(hx "%s", %s)' % (hx(kk), coq_json(x)) for kk, x in j[1]) + "])"
    raise ValueError(k)


# --------------------------------------------------------------------------- generators
BOUNDARY_BITS = [
    0x0000000000000000, 0x8000000000000000,             # +0 -0
    0x0000000000000001, 0x8000000000000001,             # 5e-324
    0x000fffffffffffff, 0x0010000000000000,             # largest subnormal, smallest normal
    0x7fefffffffffffff, 0xffefffffffffffff,             # +-max
    0x4340000000000000, 0x433fffffffffffff, 0x4340000000000001,  # 2^53, 2^53-1, 2^53+2
    0xc340000000000000, 0xc340000000000001,
    0x3ff0000000000000, 0xbff0000000000000, 0x3fb999999999999a, 0x3fd3333333333334,  # 1 -1 0.1 0.30000000000000004
    0x4415af1d78b58c40, 0x3e7ad7f29abcaf48, 0x430c6bf526340000, 0x4341c37937e08000,  # 1e20 1e-7 1e15 1e16
    0x444b1ae4d6e2ef50, 0x43abc16d674ec800,             # 1e21 1e18
    0x3ff3c0ca428c59fb, 0x40934a4584f4c6e7, 0x3fe0000000000001, 0x7fe1ccf385ebc8a0,  # 17-digit values
    0x43e0000000000000, 0x43f0000000000000, 0xc3e0000000000000,  # 2^63 2^64 -2^63
]
NONFINITE_BITS = [0x7ff0000000000000, 0xfff0000000000000, 0x7ff8000000000000]

STRINGS = [
    "", "a", "b", "ab", "x", "key", "value_1", "inputs", " ", "a b", "1", "-0", "1e3", "0x10", "01", "true", "null",
    '"', "'", 'a"b', "a'b", "\\", "\\\\", "\\n", 'x"y\\z', "\\u0041", "/", "</script>",
    "\x00", "\x01", "\x08\x09\x0a\x0c\x0d", "\x1f", "\x7f", "a\x00", "tab\there", "line\nbreak",
    "é", "é", "ß", "ﬁ", " ", " ", " ", "﻿", "퟿", "", "�", "￿",
    "\U00010000", "\U0001F600", "\U0010FFFF", "日本語", "a\U0001F600b", "\u0080", "߿", "ࠀ",
    FN_KEY, "__blots_function ", "__blots_functio", "__BLOTS_FUNCTION",
]
# strings that look like something else to a JSON / JavaScript / blots reader, or that end in a character with a
# role in some syntax (round 4: seed C06-7 reserved "NaN"/"Infinity"/"-Infinity", seed C06-8 stripped "//" comments
# with a scanner confused by a string ENDING in a backslash — neither kind of string was in the pool)
TRICKY = [
    "NaN", "nan", "Infinity", "-Infinity", "+Infinity", "inf", "-inf", "undefined", "None", "false", "0", "-", "+1", ".5",
    "1.", "1e400", "-1e400", "//", "// c", "a // b", "http://example.com/a", "/*", "*/", "/* c */ x", "#", "#x", "--",
    "C:\\", "a\\", "\\\\\\", "\\\"", "\"\\", "{", "}", "[", "]", "{}", "[]", ",", ":", "\"x\":1", "{\"a\":1}", "[1]",
    "\n", "\r\n", "\t", "$", "${x}", "%s", "\\u0041", "\\/", "<!--", "&amp;", "'; --",
]
STRINGS += TRICKY
FN_SOURCES = [
    "(y) => y", "sum", "map", "x => x + 1", "(a, b?) => a", "(...r) => r", "(x) => x + nope", "(x) => (y) => x",
    "(x) => {a: x}", "() => 1", "not a function", "", " sum", "Sum", "sum ", "1 + 2", "(y) => y // c", "x = 1",
    "time_now", "print", "(x) => -(x + 1)", "(x) => x!", "f = (y) => y", "output g = (y) => y", "(y) =>", "inputs",
    "(a) => \"s\"", "(a) => 'q\"q'",
]


def rand_scalar_char(rng):
    r = rng.below(10)
    if r < 3:
        cp = 0x20 + rng.below(0x5f)
    elif r < 4:
        cp = rng.below(0x20)
    elif r < 6:
        cp = 0x80 + rng.below(0x780)
    elif r < 8:
        cp = 0x800 + rng.below(0xF800)
    else:
        cp = 0x10000 + rng.below(0x100000)
    if 0xD800 <= cp <= 0xDFFF:
        cp = 0xE000 + (cp - 0xD800)
    return chr(cp)


def gen_string(rng):
    r = rng.below(10)
    if r < 5:
        return rng.choice(STRINGS)
    if r < 7:
        return rng.choice(STRINGS) + rng.choice(STRINGS)
    return "".join(rand_scalar_char(rng) for _ in range(rng.below(6)))


def gen_key(rng):
    r = rng.below(12)
    if r < 4:
        return rng.choice(["a", "b", "c", "k", "x"])
    if r < 5:
        return ""
    if r < 6:
        return rng.choice(["1", "0", "-1", "1e3", "10", "2", "01"])
    return gen_string(rng)


def gen_bits(rng, allow_nonfinite):
    r = rng.below(20)
    if r < 7:
        return rng.choice(BOUNDARY_BITS)
    if allow_nonfinite and r == 7:
        return rng.choice(NONFINITE_BITS)
    if r < 10:
        # small integers and short decimals
        x = rng.choice([float(rng.below(2000) - 1000), (rng.below(200000) - 100000) / 100.0,
                        float(rng.below(1 << 40)), rng.below(10 ** 9) / 1e9])
        return f2b(x)
    while True:
        b = rng.next()
        if is_finite_bits(b):
            return b


def gen_value(rng, depth, allow_nonfinite=False, fn_rate=0):
    r = rng.below(16 if depth > 0 else 9)
    if r < 4:
        return ("num", gen_bits(rng, allow_nonfinite))
    if r < 5:
        return ("bool", rng.chance(1, 2))
    if r < 6:
        return ("null",)
    if r < 9:
        return ("str", gen_string(rng))
    if r < 12:
        return ("list", [gen_value(rng, depth - 1, allow_nonfinite, fn_rate)
                         for _ in range(rng.choice([0, 1, 2, 3, 3, 5]))])
    keys = []
    for _ in range(rng.below(5)):
        k = gen_key(rng)
        if k not in keys:
            keys.append(k)
    ent = [(k, gen_value(rng, depth - 1, allow_nonfinite, fn_rate)) for k in keys]
    if fn_rate and rng.below(100) < fn_rate:
        ent = [(k, x) for k, x in ent if k != FN_KEY]
        fnv = ("str", rng.choice(FN_SOURCES)) if rng.chance(4, 5) else gen_value(rng, 0)
        ent.insert(rng.below(len(ent) + 1), (FN_KEY, fnv))
    return ("rec", ent)


def gen_doc(rng, depth, fn_rate=0):
    r = rng.below(18 if depth > 0 else 10)
    if r < 2:
        return ("d", gen_bits(rng, False))
    if r < 4:
        n = rng.choice([0, 1, 2, 10, 255, (1 << 53) - 1, 1 << 53, (1 << 53) + 1, (1 << 63) - 1, 1 << 63,
                        (1 << 64) - 1, rng.next(), rng.below(1000), 9007199254740993, 12345678901234567890])
        return ("u", n)
    if r < 5:
        n = -rng.choice([1, 2, 10, (1 << 53) + 1, 1 << 63, (1 << 63) - 1, 1 + rng.below(1 << 63), 1 + rng.below(1000)])
        return ("i", n)
    if r < 6:
        return ("b", rng.chance(1, 2))
    if r < 7:
        return ("z",)
    if r < 10:
        return ("s", gen_string(rng))
    if r < 13:
        return ("a", [gen_doc(rng, depth - 1, fn_rate) for _ in range(rng.choice([0, 1, 2, 3, 3, 5]))])
    ent = []
    for _ in range(rng.below(5)):
        k = gen_key(rng)
        ent.append((k, gen_doc(rng, depth - 1, fn_rate)))
    if ent and rng.chance(1, 4):      # duplicate key
        k = rng.choice(ent)[0]
        ent.insert(rng.below(len(ent) + 1), (k, gen_doc(rng, max(depth - 1, 0), fn_rate)))
    if fn_rate and rng.below(100) < fn_rate:
        fnv = ("s", rng.choice(FN_SOURCES)) if rng.chance(4, 5) else gen_doc(rng, 0)
        ent.insert(rng.below(len(ent) + 1), (FN_KEY, fnv))
    return ("o", ent)


def doc_depth(j):
    if j[0] == "a":
        return 1 + max([doc_depth(x) for x in j[1]] + [0])
    if j[0] == "o":
        return 1 + max([doc_depth(x) for _, x in j[1]] + [0])
    return 0


# --------------------------------------------------------------------------- JSON text
def doc_to_text(j, rng=None, fancy=False):
    """Render a document tree as JSON text.  Plain: the compact form with shortest number tokens.
    fancy: random insignificant whitespace, escape choices, alternative number spellings."""
    def ws():
        if not fancy:
            return ""
        return rng.choice(["", "", "", " ", "\n", "\t", "  ", "\r\n"])

    def s_text(s):
        out = ['"']
        for ch in s:
            cp = ord(ch)
            if ch == '"':
                out.append('\\"')
            elif ch == "\\":
                out.append("\\\\")
            elif cp < 0x20:
                short = {8: "\\b", 9: "\\t", 10: "\\n", 12: "\\f", 13: "\\r"}
                if cp in short and not (fancy and rng.chance(1, 3)):
                    out.append(short[cp])
                else:
                    out.append("\\u%04x" % cp if not (fancy and rng.chance(1, 2)) else "\\u%04X" % cp)
            elif fancy and rng.chance(1, 6):
                if cp >= 0x10000:
                    v = cp - 0x10000
                    out.append("\\u%04x\\u%04x" % (0xD800 + (v >> 10), 0xDC00 + (v & 0x3FF)))
                else:
                    out.append("\\u%04x" % cp)
            elif fancy and ch == "/" and rng.chance(1, 2):
                out.append("\\/")
            else:
                out.append(ch)
        out.append('"')
        return "".join(out)

    def n_text(j):
        if j[0] == "u" or j[0] == "i":
            t = str(j[1])
            if fancy and rng.chance(1, 8) and abs(j[1]) < (1 << 53):
                t = rng.choice([t + ".0", t + "e0", t + "E+0", t + ".000"])
            return t
        x = b2f(j[1])
        t = repr(x)
        if t.endswith(".0") and fancy and rng.chance(1, 2) and abs(x) < 1e15:
            t = t[:-2]
        if fancy and rng.chance(1, 6):
            t = "%.17e" % x
        elif fancy and rng.chance(1, 8):
            t = ("%.20e" % x).replace("e", "E")
        return t

    def go(j):
        k = j[0]
        if k == "z":
            return "null"
        if k == "b":
            return "true" if j[1] else "false"
        if k in ("u", "i", "d"):
            return n_text(j)
        if k == "s":
            return s_text(j[1])
        if k == "a":
            return "[" + ws() + ("," + ws()).join(go(x) + ws() for x in j[1]) + "]"
        if k == "o":
            return "{" + ws() + ("," + ws()).join(s_text(kk) + ws() + ":" + ws() + go(x) + ws() for kk, x in j[1]) + "}"
        raise ValueError(k)
    return ws() + go(j) + ws()



HAND_TEXTS = [
    "null", " true ", "false", "nul", "tru", "falsey", "nullx", "", " ", "[]", "{}", "[ ]", "{ }", "[1,]", "[,1]", "[1 2]",
    '{"a":1,}', "{a:1}", '{"a" 1}', '{"a":}', '{"a":1 "b":2}', "[1,2", '{"a":1', '"abc', '"a\\', '"\\x"', '"\\u12"',
    '"\\ud800"', '"\\udc00"', '"\\ud800\\u0041"', '"\\ud83d\\ude00"', '"\\uD83D\\uDE00"', '"\\ud800\\n"', '"\\ud800x"',
    '"\\u0000"', '"\\u001f\\u007f\\u0080\\u07ff\\u0800\\uffff"', '"\\/\\b\\f\\n\\r\\t\\"\\\\"', '"\x01"', '"\t"', '"\x7f"', '"é😀"',
    "0", "-0", "-0.0", "00", "01", "-01", "1.", ".5", "-", "+1", "1e", "1e+", "1E-", "1e5", "1E+5", "1e-5", "0e0", "0.0e0",
    "1.5e300", "1e308", "1e309", "-1e309", "1e400", "1e-400", "-1e-400", "1e99999999999", "0e99999999999",
    "1e-99999999999", "0.0e99999999999", "123456789012345678901234567890", "-123456789012345678901234567890",
    "18446744073709551615", "18446744073709551616", "18446744073709551617.5", "18446744073709551615.5",
    "1844674407370955161.7", "18446744073709551613.3", "184467440737095516157", "184467440737095516153",
    "-9223372036854775808", "-9223372036854775809", "-18446744073709551615", "-18446744073709551616",
    "9007199254740991.0", "9007199254740993", "9007199254740993.0", "0.1", "0.30000000000000004",
    "1.7976931348623157e308", "1.79769313486231570815e308", "2.2250738585072014e-308", "5e-324", "4.9e-324", "2e-324",
    "2.4703282292062327e-324", "2.4703282292062328e-324", "0." + "0" * 400 + "1", "1" + "0" * 400, "1" + "0" * 308,
    "1" + "0" * 309, "0.1e1", "100e-2", "1.0000000000000000000000000000000000001", "\ufeff1", "1\u00a0", "1 2", "1,", "[1]]",
    '{"a":1,"a":2,"b":{"a":3},"a":{"z":1,"y":2}}', '{"__blots_function":"sum"}', "[[[[[[[[1]]]]]]]]", '{"":{"":{"":0}}}',
    "  \n\t\r [ \n 1 \t , \r 2 ] \n ", "1.0E+2", "1.0e+02", "1e0000000000000000000005", "-1.5E-0",
]


def count_floats(j):
    if j[0] == "d":
        return 1
    if j[0] == "a":
        return sum(count_floats(x) for x in j[1])
    if j[0] == "o":
        return sum(count_floats(x) for _, x in j[1])
    return 0


def gen_doc_from_table(rng, depth, nbits):
    """documents whose floats come from the NUM table (their ryu texts are known to the model)"""
    d = gen_doc(rng, depth)

    def fix(j):
        if j[0] == "d":
            return ("d", rng.choice(nbits))
        if j[0] == "a":
            return ("a", [fix(x) for x in j[1]])
        if j[0] == "o":
            return ("o", [(k, fix(x)) for k, x in j[1]])
        return j
    return fix(d)

# serde_json 1.0.x number parser WITHOUT float_roundtrip, transcribed (de.rs parse_integer ... f64_from_parts)
U64_MAX = (1 << 64) - 1
I32_MAX = (1 << 31) - 1


def _overflow(a, b, c):
    return a >= c // 10 and (a > c // 10 or b > c % 10)


def _f64_from_parts(positive, sig, exp):
    f = float(sig)
    while True:
        idx = abs(exp)
        if idx < 309:
            p = float("1e%d" % idx)
            if exp >= 0:
                f *= p
                if f == float("inf"):
                    return None
            else:
                f /= p
            break
        if f == 0.0:
            break
        if exp >= 0:
            return None
        f /= 1e308
        exp += 308
    return f if positive else -f


def shipped_parse_number(tok):
    """-> ("u", n) | ("i", n) | ("d", bits) | None (number out of range) for a syntactically valid JSON number"""
    positive = not tok.startswith("-")
    s = tok[1:] if not positive else tok
    n = len(s)
    i = 0

    def parse_exponent(sig, starting):
        nonlocal i
        i += 1
        pos_exp = True
        if i < n and s[i] in "+-":
            pos_exp = s[i] == "+"
            i += 1
        exp = int(s[i])
        i += 1
        while i < n and s[i].isdigit():
            d = int(s[i])
            i += 1
            if _overflow(exp, d, I32_MAX):
                # parse_exponent_overflow
                if sig != 0 and pos_exp:
                    return None
                return 0.0 if positive else -0.0
            exp = exp * 10 + d
        fin = min(starting + exp, I32_MAX) if pos_exp else max(starting - exp, -(1 << 31))
        return _f64_from_parts(positive, sig, fin)

    def parse_decimal(sig, before):
        nonlocal i
        i += 1
        after = 0
        while i < n and s[i].isdigit():
            d = int(s[i])
            if _overflow(sig, d, U64_MAX):
                # parse_decimal_overflow: the remaining digits are dropped
                while i < n and s[i].isdigit():
                    i += 1
                if i < n and s[i] in "eE":
                    return parse_exponent(sig, before + after)
                return _f64_from_parts(positive, sig, before + after)
            i += 1
            sig = sig * 10 + d
            after -= 1
        if i < n and s[i] in "eE":
            return parse_exponent(sig, before + after)
        return _f64_from_parts(positive, sig, before + after)

    def fl(x):
        return None if x is None else ("d", f2b(x))

    if s[0] == "0":
        sig = 0
        i = 1
    else:
        sig = int(s[0])
        i = 1
        while i < n and s[i].isdigit():
            d = int(s[i])
            if _overflow(sig, d, U64_MAX):
                exponent = 0
                while i < n and s[i].isdigit():
                    i += 1
                    exponent += 1
                if i < n and s[i] == ".":
                    return fl(parse_decimal(sig, exponent))
                if i < n and s[i] in "eE":
                    return fl(parse_exponent(sig, exponent))
                return fl(_f64_from_parts(positive, sig, exponent))
            i += 1
            sig = sig * 10 + d
    if i < n and s[i] == ".":
        return fl(parse_decimal(sig, 0))
    if i < n and s[i] in "eE":
        return fl(parse_exponent(sig, 0))
    if positive:
        return ("u", sig)
    if sig == 0 or sig > (1 << 63):
        return ("d", f2b(-float(sig)))
    return ("i", -sig)


class Tok(object):
    """a number token kept as text by json.loads"""
    __slots__ = ("t",)

    def __init__(self, t):
        self.t = t

    def correct_bits(self):
        return f2b(float(self.t))

    def shipped_bits(self):
        r = shipped_parse_number(self.t)
        if r is None:
            return None
        if r[0] == "d":
            return r[1]
        return f2b(float(r[1]))


def loads_tok(text):
    return json.loads(text, parse_float=Tok, parse_int=Tok, parse_constant=lambda s: ("const", s))


def compare_json(expected, got, path="$"):
    """expected/got: trees from loads_tok.  JSON value equality with numbers as doubles (bit-identical, which for
    JSON numbers implies ==), strings by code point, objects as maps (python dict: last duplicate wins).
    Returns list of (path, kind, detail); kind 'num-shipped' = the observed double is exactly what the shipped
    (not correctly rounded) serde_json number algorithm computes from the expected token."""
    out = []
    if isinstance(expected, Tok):
        if not isinstance(got, Tok):
            return [(path, "type", "expected number %s" % expected.t)]
        eb = expected.correct_bits()
        gb = got.correct_bits()
        if eb != gb:
            if expected.shipped_bits() == gb:
                out.append((path, "num-shipped", "%s -> %s (%016x vs %016x)" % (expected.t, got.t, eb, gb)))
            else:
                out.append((path, "num", "%s -> %s (%016x vs %016x)" % (expected.t, got.t, eb, gb)))
        return out
    if isinstance(got, Tok):
        return [(path, "type", "unexpected number %s" % got.t)]
    if isinstance(expected, dict):
        if not isinstance(got, dict):
            return [(path, "type", "expected object")]
        for k in expected:
            if k not in got:
                out.append((path + "." + repr(k), "missing-key", ""))
            else:
                out += compare_json(expected[k], got[k], path + "." + repr(k))
        for k in got:
            if k not in expected:
                out.append((path + "." + repr(k), "extra-key", ""))
        return out
    if isinstance(expected, list):
        if not isinstance(got, list) or len(got) != len(expected):
            return [(path, "type", "expected array of %d" % len(expected))]
        for i, (a, b) in enumerate(zip(expected, got)):
            out += compare_json(a, b, "%s[%d]" % (path, i))
        return out
    if type(expected) is not type(got) or expected != got:
        return [(path, "value", "%r vs %r" % (expected, got))]
    return out


def collect_tokens(t, acc):
    if isinstance(t, Tok):
        acc.append(t)
    elif isinstance(t, dict):
        for x in t.values():
            collect_tokens(x, acc)
    elif isinstance(t, list):
        for x in t:
            collect_tokens(x, acc)


def tree_has_reserved(t, fn_table):
    """a loads_tok tree contains an object that from_json reads as a function"""
    if isinstance(t, dict):
        f = t.get(FN_KEY)
        if isinstance(f, str) and fn_table.get(f, "N") != "N":
            return True
        return any(tree_has_reserved(x, fn_table) for x in t.values())
    if isinstance(t, list):
        return any(tree_has_reserved(x, fn_table) for x in t)
    return False


# --------------------------------------------------------------------------- running the CLI
def run_cli(cli, args, stdin_text=None, timeout=60):
    """stdin is always a pipe or /dev/null (never a terminal)"""
    try:
        if stdin_text is None:
            p = subprocess.run([cli] + args, stdin=subprocess.DEVNULL, capture_output=True, timeout=timeout)
        else:
            p = subprocess.run([cli] + args, input=stdin_text.encode("utf-8"), capture_output=True, timeout=timeout)
    except subprocess.TimeoutExpired:
        return -999, "", "timeout"
    return p.returncode, p.stdout.decode("utf-8", "replace"), p.stderr.decode("utf-8", "replace")


ECHO = "output x = inputs.x"


ECHO1 = "output x = inputs.value_1"


def cli_echo(cli, doc_text, via):
    """feed {"x": doc} and echo it; via = 'i' (-i flag) or 'stdin'; 'bare-i'/'bare-stdin': the document itself is
    the whole input (not an object: the CLI binds it to inputs.value_1)"""
    wrapped = '{"x":' + doc_text + "}"
    if via.endswith("+o"):
        # the outputs object goes to --output FILE, and an older, longer file is already there
        import tempfile
        fd, path = tempfile.mkstemp(prefix="c06_out_", suffix=".json", dir=c.BUILD)
        stale = "#stale output of an earlier run# " + "x" * 8192 + "\n"
        try:
            with os.fdopen(fd, "w") as f:
                f.write(stale)
            if via == "i+o":
                rc, _, err = run_cli(cli, ["-i", wrapped, "-o", path, ECHO])
            else:
                rc, _, err = run_cli(cli, ["-o", path, ECHO], stdin_text=wrapped)
            with open(path, "rb") as f:
                txt = f.read().decode("utf-8", "replace")
            return rc, ("" if txt == stale else txt), err
        finally:
            os.unlink(path)
    if via == "i":
        return run_cli(cli, ["-i", wrapped, ECHO])
    if via == "bare-i":
        # --input=<text>: a bare negative number would otherwise be taken for a flag by clap
        return run_cli(cli, ["--input=" + doc_text, ECHO1])
    if via == "bare-stdin":
        return run_cli(cli, [ECHO1], stdin_text=doc_text)
    return run_cli(cli, [ECHO], stdin_text=wrapped)


# --------------------------------------------------------------------------- oracles from the real code
def fn_oracle(h, strings):
    outs = c.harness_lines_resilient(h, "c06-fn", [hx(s) for s in strings])
    table = {}
    bodies = set()
    for s, o in zip(strings, outs):
        if o.startswith("L "):
            parts = o.split(" ")
            args = parts[1]
            body = bytes.fromhex(parts[2]).decode("utf-8")
            table[s] = ("L", args, body)
            bodies.add(body)
        elif o == "B":
            table[s] = "B"
        elif o == "N":
            table[s] = "N"
        else:
            table[s] = ("?", o)
    bodies = sorted(bodies)
    bouts = c.harness_lines_resilient(h, "c06-body", [hx(b) for b in bodies])
    btable = {b: o for b, o in zip(bodies, bouts)}
    return table, btable


def coq_args(args_txt):
    items = []
    for a in [x for x in args_txt.split(",") if x]:
        ctor = {"r": "AReq", "o": "AOpt", "s": "ARest"}[a[0]]
        items.append('(%s (hx "%s"))' % (ctor, a[1:]))
    return "[" + "; ".join(items) + "]"


def coq_oracle_defs(table, btable):
    rows = []
    for s, r in sorted(table.items()):
        if isinstance(r, tuple) and r[0] == "L":
            rows.append('(hx "%s", Some (%s, hx "%s"))' % (hx(s), coq_args(r[1]), hx(r[2])))
        else:
            rows.append('(hx "%s", None)' % hx(s))
    brows = ['(hx "%s", %s)' % (hx(b), "true" if o == "OK" else "false") for b, o in sorted(btable.items())]
    return ("Definition PFS := table_fn [%s].\nDefinition PBODY := table_body [%s].\n"
            % ("; ".join(rows), "; ".join(brows)))


def strip_fn_tail(line, nfields):
    """lines that involve a lambda are compared up to the to_value field (the source printer is an oracle)"""
    if "FN(" in line:
        return "|".join(line.split("|")[:nfields])
    return line


# --------------------------------------------------------------------------- known findings
def witness_f16(h):
    v = ("rec", [(FN_KEY, ("str", "(y) => y"))])
    o = c.harness_lines_resilient(h, "c06-rt", [enc_value(v)])[0]
    return o.startswith("OK:FN(") or (o.startswith("OK:") and o.split("|")[1] != "T")


def witness_f17(cli, bits_list):
    """through the real CLI: how many of the witness doubles come back different"""
    bad = []
    for b in bits_list:
        tok = repr(b2f(b))
        rc, out, err = cli_echo(cli, tok, "i")
        try:
            got = loads_tok(out)["x"]
            if not isinstance(got, Tok) or got.correct_bits() != b:
                bad.append((b, tok, out.strip()))
        except Exception:
            bad.append((b, tok, "rc=%d %s %s" % (rc, out.strip(), err.strip()[:100])))
    return bad


def main(argv):
    tier, seed, replay = c.tier_and_seed(argv)
    res = c.Result(PID, tier, seed)
    rng = c.Rng(seed ^ 0xC06)
    if os.environ.get("VERIF_REPO"):
        # a scratch repo gets its own CLI target directory: with a shared one cargo may leave the binary
        # of the other tree in place when switching back (fingerprints are per source path, the
        # uplifted binary is not)
        import hashlib
        c.CLI_TARGET = os.path.join(c.BUILD, "cli-" + hashlib.sha1(c.REPO.encode()).hexdigest()[:8])
    try:
        h = c.build_harness()
        c.regen_builtins(h)
        cli = c.build_cli("release")
        feats = dict(l.split("=") for l in c.harness_oneshot(h, "c06-features").split())
    except c.BrokenTie as e:
        res.tie_broken(e.what, e.detail)
        return res.finish()
    if replay:
        return do_replay(h, cli, replay)

    known = {e["id"]: e for e in c.open_known(PID)}
    quick = tier == "quick"
    if feats.get("map_order") != "sorted":
        res.tie_broken("serde_json::Map is no longer a BTreeMap (preserve_order enabled?): the model's bmap_collect "
                       "does not describe it", str(feats))

    c.proof_step(res, PID)

    # ---------------------------------------------------------------- oracle tables from the real code
    fn_strings = sorted(set(FN_SOURCES + STRINGS))
    fn_table, body_table = fn_oracle(h, fn_strings)
    defs = coq_oracle_defs({s: fn_table[s] for s in FN_SOURCES}, body_table)
    fn_kinds = {}
    for s in FN_SOURCES:
        r = fn_table[s]
        kk = r if isinstance(r, str) else r[0]
        fn_kinds[kk] = fn_kinds.get(kk, 0) + 1

    # ---------------------------------------------------------------- VAL stream (tree level)
    n_val = 1200 if quick else 12000
    vals = [("rec", [("b", ("list", [("num", 0x8000000000000000), ("str", 'x"y'), ("null",)])),
                     ("a", ("rec", [("", ("bool", True)), ("1", ("num", 0x3ff0000000000000))]))]),
            ("rec", [(FN_KEY, ("str", "(y) => y"))]), ("rec", [(FN_KEY, ("str", "sum"))]),
            ("num", 0x7ff0000000000000), ("num", 0x7ff8000000000000)]
    while len(vals) < n_val:
        mode = rng.below(10)
        vals.append(gen_value(rng, 1 + rng.below(6), allow_nonfinite=(mode == 0), fn_rate=(25 if mode in (1, 2) else 0)))
    rust = c.harness_lines_resilient(h, "c06-val", [enc_value(v) for v in vals])
    val_rust = rust
    try:
        model = c.coq_eval_batch(REQS, defs, ["c06_val_line PFS PBODY %s" % coq_value(v) for v in vals], "c06val")
    except c.BrokenTie as e:
        res.tie_broken(e.what, e.detail)
        model = [None] * len(vals)
    mism = [(v, m, r) for v, m, r in zip(vals, model, rust)
            if m is None or strip_fn_tail(m, 4) != strip_fn_tail(r, 4)]
    if mism:
        v, m, r = mism[0]
        res.tie_broken("correspondence C06/VAL: model and SerializableValue disagree on %d of %d values"
                       % (len(mism), len(vals)), "first: value %s ; model=%s ; impl=%s" % (enc_value(v), m, r))
    # the property on the implementation's own answers (tree level): data values come back .== and bit-exact
    val_law = 0
    n_reserved = n_nonfinite = 0
    for v, r in zip(vals, rust):
        if value_has_nonfinite(v):
            n_nonfinite += 1
            continue
        if value_reserved(v, fn_table):
            n_reserved += 1
            continue
        val_law += 1
        f = r.split("|")
        want = "OK:" + enc_value(vsort(v))
        if len(f) != 5 or canon_value_text(f[3]) != want or f[4] != "T":
            res.violation("a data value does not survive from_value -> to_json -> from_json -> to_value",
                          {"kind": "tree-roundtrip", "value": enc_value(v), "observed": r, "expected_value": want,
                           "rerun": "echo '%s' | %s c06-val" % (enc_value(v), h)})
            break
    res.streams["VAL"] = {"cases": len(vals), "mismatches": len(mism), "law_checked": val_law,
                          "with_reserved_form": n_reserved, "with_nonfinite": n_nonfinite,
                          "max_depth": max(value_depth(v) for v in vals),
                          "nodes": sum(value_nodes(v) for v in vals)}

    # ---------------------------------------------------------------- JSON stream (tree level, documents)
    n_doc = 1200 if quick else 12000
    docs = [("o", [("b", ("u", 1)), ("a", ("i", -1)), ("b", ("d", 0x3ff8000000000000))]),
            ("o", [(FN_KEY, ("s", "(y) => y"))]), ("o", [(FN_KEY, ("s", "sum")), ("other", ("u", 1))]),
            ("o", [(FN_KEY, ("s", "sum")), (FN_KEY, ("u", 1))]), ("o", [(FN_KEY, ("u", 1)), (FN_KEY, ("s", "map"))])]
    while len(docs) < n_doc:
        mode = rng.below(10)
        docs.append(gen_doc(rng, 1 + rng.below(6), fn_rate=(25 if mode < 3 else 0)))
    rust = c.harness_lines_resilient(h, "c06-json", [enc_json(d) for d in docs])
    try:
        model = c.coq_eval_batch(REQS, defs, ["c06_json_line PFS PBODY %s" % coq_json(d) for d in docs], "c06json")
    except c.BrokenTie as e:
        res.tie_broken(e.what, e.detail)
        model = [None] * len(docs)
    jm = [(d, m, r) for d, m, r in zip(docs, model, rust)
          if m is None or strip_fn_tail(m, 3) != strip_fn_tail(r, 3)]
    if jm:
        d, m, r = jm[0]
        res.tie_broken("correspondence C06/JSON: model and implementation disagree on %d of %d documents"
                       % (len(jm), len(docs)), "first: doc %s ; model=%s ; impl=%s" % (enc_json(d), m, r))
    res.streams["JSON"] = {"cases": len(docs), "mismatches": len(jm),
                           "with_function_objects": sum(1 for r in rust if "FN(" in r or "|B" in r),
                           "max_depth": max(doc_depth(d) for d in docs)}
    res.streams["FN-oracle"] = {"strings": len(fn_strings), "kinds": fn_kinds,
                                "bodies": len(body_table)}

    # ---------------------------------------------------------------- TEXT streams (serde_json text layer)
    TREQS = REQS + ["Blots.JsonText"]
    fixed_build = feats.get("number_parse") == "exact"

    def f17_text(text):
        """some number token of the text is converted differently by the shipped algorithm and by a correctly
        rounded parser (or rejected by the shipped one): the case belongs to known-finding class C06-F17"""
        try:
            toks = []
            collect_tokens(loads_tok(text), toks)
        except Exception:
            return False
        for t in toks:
            try:
                if t.shipped_bits() != t.correct_bits():
                    return True
            except Exception:
                return True
        return False

    # NUM: finite doubles -> serde_json's own text (ryu) -> serde_json's parse; model: scan, re-render, classify
    n_num = 600 if quick else 8000
    nbits = list(BOUNDARY_BITS)
    while len(nbits) < n_num:
        nbits.append(gen_bits(rng, False))
    nouts = c.harness_lines_resilient(h, "c06-num", ["%016x" % b for b in nbits])
    ntexts = [bytes.fromhex(o.split(" ")[0]).decode("ascii") for o in nouts]
    fmt_table = {b: t for b, t in zip(nbits, ntexts)}
    try:
        nmodel = c.coq_eval_batch(TREQS, "", ['c06_num_line (hx "%s")' % hx(t) for t in ntexts], "c06num")
    except c.BrokenTie as e:
        res.tie_broken(e.what, e.detail)
        nmodel = [None] * len(nbits)
    num_mism = []
    num_f17 = 0
    ryu_bad = 0
    for b, t, o, m in zip(nbits, ntexts, nouts, nmodel):
        if f2b(float(t)) != b:
            ryu_bad += 1           # H_print: the printed decimal denotes (rounds to) the double
        cls17 = f17_text(t)
        num_f17 += cls17
        if cls17 and fixed_build:
            continue
        if m is None or m != o:
            num_mism.append((b, t, o, m))
    if ryu_bad:
        res.violation("serde_json prints a finite double as a decimal that does not round back to it",
                      {"kind": "num-print", "count": ryu_bad})
    if num_mism:
        b, t, o, m = num_mism[0]
        res.tie_broken("correspondence C06/NUM: number token model and serde_json disagree on %d of %d doubles"
                       % (len(num_mism), len(nbits)), "first: bits %016x text %s impl=%s model=%s" % (b, t, o, m))
    res.streams["NUM"] = {"doubles": len(nbits), "mismatches": len(num_mism),
                          "in_class_F17(shipped!=correct)": num_f17, "build_number_parse": feats.get("number_parse")}

    # PARSE: JSON texts (valid with free layout/escapes/number spellings, and malformed) -> tree or ERR
    n_txt = 500 if quick else 6000
    texts = list(HAND_TEXTS)
    for n in (100, 126, 127, 128, 200):
        texts.append("[" * n + "]" * n)
        texts.append('{"a":' * n + "1" + "}" * n)
    while len(texts) < n_txt:
        d = gen_doc(rng, 1 + rng.below(5), fn_rate=0)
        t = doc_to_text(d, rng, fancy=True)
        r = rng.below(10)
        if r < 3 and t:
            # malformed: delete / duplicate / replace one character, or truncate
            i = rng.below(len(t))
            k = rng.below(4)
            if k == 0:
                t = t[:i] + t[i + 1:]
            elif k == 1:
                t = t[:i] + t[i] + t[i:]
            elif k == 2:
                t = t[:i] + rng.choice(list('"\\,:[]{}0e.-x\n\x01')) + t[i + 1:]
            else:
                t = t[:i]
        texts.append(t)
    pouts = c.harness_lines_resilient(h, "c06-parse", [hx(t) for t in texts])
    try:
        pmodel = c.coq_eval_batch(TREQS, "", ['c06_parse_line (hx "%s")' % hx(t) for t in texts], "c06parse")
    except c.BrokenTie as e:
        res.tie_broken(e.what, e.detail)
        pmodel = [None] * len(texts)
    p_mism = []
    p_f17 = 0
    for t, o, m in zip(texts, pouts, pmodel):
        cls17 = f17_text(t)
        p_f17 += cls17
        if cls17 and fixed_build:
            continue
        if m is None or m != o:
            p_mism.append((t, o, m))
    if p_mism:
        t, o, m = p_mism[0]
        res.tie_broken("correspondence C06/PARSE: JSON text parser model and serde_json::from_str disagree on %d of %d texts"
                       % (len(p_mism), len(texts)), "first: text %r impl=%s model=%s" % (t, o, m))
    res.streams["PARSE"] = {"texts": len(texts), "mismatches": len(p_mism), "rejected_by_impl": sum(1 for o in pouts if o == "ERR"),
                            "in_class_F17": p_f17}

    # PRINT: document trees -> serde_json::to_string vs the model's jprint (float texts from the NUM table)
    n_pr = 400 if quick else 5000
    pdocs = []
    while len(pdocs) < n_pr:
        pdocs.append(gen_doc_from_table(rng, 1 + rng.below(5), nbits))
    prouts = c.harness_lines_resilient(h, "c06-print", [enc_json(d) for d in pdocs])
    tbl = "Definition FMT := table_fmt [%s].\n" % "; ".join('(0x%016x, hx "%s")' % (b, hx(t)) for b, t in sorted(fmt_table.items()))
    try:
        prmodel = c.coq_eval_batch(TREQS, tbl, ["hex_of_string (jprint FMT (sj_build %s))" % coq_json(d) for d in pdocs], "c06print")
    except c.BrokenTie as e:
        res.tie_broken(e.what, e.detail)
        prmodel = [None] * len(pdocs)
    pr_mism = [(d, o, m) for d, o, m in zip(pdocs, prouts, prmodel) if m is None or m != o]
    if pr_mism:
        d, o, m = pr_mism[0]
        res.tie_broken("correspondence C06/PRINT: printer model and serde_json::to_string disagree on %d of %d documents"
                       % (len(pr_mism), len(pdocs)), "first: doc %s impl=%s model=%s" % (enc_json(d), o, m))
    res.streams["PRINT"] = {"documents": len(pdocs), "mismatches": len(pr_mism)}

    # ---------------------------------------------------------------- X streams: the exact instance (JsonExact.v)
    # The model's correctly rounded reader rn_float_of_tok against the real serde_json parser (float_roundtrip build),
    # and the model's exact-decimal printer exact_pieces against the real parser: the instance for which
    # proofs/JsonInstance.v proves both library hypotheses is the reader of the build and a printer the build accepts.
    XREQS = TREQS + ["Blots.JsonExact"]
    from fractions import Fraction

    def exp_hist(bits_list):
        hist = {}
        for b in bits_list:
            e = (b >> 52) & 0x7ff
            k = "zero" if (b & 0x7fffffffffffffff) == 0 else "subnormal" if e == 0 else \
                "2^[-1022,-512)" if e < 511 else "2^[-512,-64)" if e < 959 else "2^[-64,0)" if e < 1023 else \
                "2^[0,64)" if e < 1087 else "2^[64,512)" if e < 1535 else "2^[512,1024)"
            hist[k] = hist.get(k, 0) + 1
        return hist

    if not fixed_build:
        res.tie_broken("the linked serde_json does not parse numbers correctly rounded (float_roundtrip off): the exact "
                       "reader rn_float_of_tok of coq/JsonExact.v does not describe the build", str(feats))
        res.streams["X"] = {"skipped": "number_parse=%s" % feats.get("number_parse")}
    else:
        # XNUM: ryu's text of every NUM double read by the model's exact reader: must be the double (H_roundtrip for
        # (ryu, correctly rounded reader)) and must be what serde_json itself reads back — no F17 exclusion
        try:
            xn = c.coq_eval_batch(XREQS, "", ['c06_xnum_line (hx "%s")' % hx(t) for t in ntexts], "c06xnum", shard=80)
        except c.BrokenTie as e:
            res.tie_broken(e.what, e.detail)
            xn = [None] * len(nbits)
        xn_mism = [(b, t, o, m) for b, t, o, m in zip(nbits, ntexts, nouts, xn)
                   if m is None or m != o or not m.endswith("d%016x" % b)]
        if xn_mism:
            b, t, o, m = xn_mism[0]
            res.tie_broken("correspondence C06/XNUM: the correctly rounded reader of the model (rn_float_of_tok) and "
                           "serde_json disagree, or ryu's text does not read back, on %d of %d doubles"
                           % (len(xn_mism), len(nbits)), "first: bits %016x text %s impl=%s model=%s" % (b, t, o, m))
        res.streams["XNUM"] = {"doubles": len(nbits), "mismatches": len(xn_mism), "exponent_classes": exp_hist(nbits),
                               "ryu_text_lengths": {"min": min(map(len, ntexts)), "max": max(map(len, ntexts))}}

        # XPRINT: the model's exact decimal of a double: (a) its rational value IS the double (Python Fraction),
        # (b) a JSON float token, (c) the real serde_json reads it back as that very double
        n_xp = 200 if quick else 2000
        xbits = list(BOUNDARY_BITS)
        while len(xbits) < n_xp:
            xbits.append(gen_bits(rng, False))
        try:
            xt = c.coq_eval_batch(XREQS, "", ["c06_exact_text 0x%016x" % b for b in xbits], "c06xprint", shard=16)
        except c.BrokenTie as e:
            res.tie_broken(e.what, e.detail)
            xt = [None] * len(xbits)
        xtexts = [bytes.fromhex(m).decode("ascii") if m else "null" for m in xt]
        xback = c.harness_lines_resilient(h, "c06-parse", [hx(t) for t in xtexts])
        xp_bad = []
        for b, m, t, o in zip(xbits, xt, xtexts, xback):
            ok = m is not None
            if ok:
                body = t[1:] if t.startswith("-") else t
                ip, _, fp = body.partition(".")
                ok = (ip.isdigit() and fp.isdigit() and (ip == "0" or not ip.startswith("0"))
                      and t.startswith("-") == bool(b >> 63)
                      and Fraction(int(ip + fp), 10 ** len(fp)) == abs(Fraction(b2f(b)))
                      and o == "OK:d%016x" % b)
            if not ok:
                xp_bad.append((b, t[:80], o))
        if xp_bad:
            b, t, o = xp_bad[0]
            res.tie_broken("correspondence C06/XPRINT: the exact decimal printer of the model is not exact, or serde_json "
                           "does not read its text back as the double, on %d of %d doubles" % (len(xp_bad), len(xbits)),
                           "first: bits %016x text %s... serde_json reads %s" % (b, t, o))
        res.streams["XPRINT"] = {"doubles": len(xbits), "mismatches": len(xp_bad), "exponent_classes": exp_hist(xbits),
                                 "text_lengths": {"min": min(map(len, xtexts)), "max": max(map(len, xtexts)),
                                                  "mean": sum(map(len, xtexts)) // len(xtexts)}}

        # XPARSE: the PARSE texts plus number-heavy texts through the parser model WITH the exact reader: every text,
        # no class excluded
        xtexts2 = list(texts)
        edge_nums = ["1.7976931348623157e308", "1.7976931348623158e308", "1.7976931348623159e308",
                     "179769313486231580793728971405303415079934132710037826936173778980444968292764750946649017977587207096"
                     "330286416692887910946555547851940402630657488671505820681908902000708383676273854845817711531764475730"
                     "270069855571366959622842914819860834936475292719074168444365510704342711559699508093042880177904174497791"
                     ".9999999999999999999", "4.9406564584124654e-324", "2.4703282292062327e-324", "2.4703282292062328e-324",
                     "2.47032822920623272088284396434110686182e-324", "2.470328229206232720882843964341106861825299013071623822127928412503377536351043e-324",
                     "9007199254740993.0", "9007199254740993.0000000000000000000000000000001", "9007199254740992.9999",
                     "0.500000000000000166533453693773481063544750213623046875", "1e23", "8.5e22", "9.5e22",
                     "-0.0e-999999999999", "0.000e+999999999999", "1e-323", "1e-324", "1E400", "-1E-400", "123456789e-3",
                     "0.1e-0", "1.0e+00"]
        for t in edge_nums:
            xtexts2.append(t)
            xtexts2.append("[" + t + ",-" + t + "]")
        n_xnumtexts = 150 if quick else 2000
        xn_kinds = {"digits<=17": 0, "digits<=40": 0, "digits>40": 0, "exp": 0, "int-only": 0}
        for _ in range(n_xnumtexts):
            nd = rng.choice([1, 3, 9, 15, 16, 17, 18, 19, 20, 21, 25, 40, 80, 200])
            ds = "".join(str(rng.below(10)) for _ in range(nd)).lstrip("0") or "0"
            cut = rng.below(len(ds) + 1)
            ip, fp = ds[:cut] or "0", ds[cut:]
            ip = ip.lstrip("0") or "0"
            t = ("-" if rng.chance(1, 3) else "") + ip + ("." + fp if fp else "")
            if rng.chance(1, 2):
                ex = rng.choice([0, 1, -1, 22, 23, -22, 300, 308, 309, -308, -323, -324, -340, 400, -400]) + rng.below(7) - 3
                t += rng.choice("eE") + rng.choice(["", "+", "-"] if ex == 0 else ["", "+"] if ex > 0 else ["-"]) + str(abs(ex))
                xn_kinds["exp"] += 1
            elif not fp:
                xn_kinds["int-only"] += 1
            xn_kinds["digits<=17" if len(ds) <= 17 else "digits<=40" if len(ds) <= 40 else "digits>40"] += 1
            xtexts2.append(t)
        xpo = pouts + c.harness_lines_resilient(h, "c06-parse", [hx(t) for t in xtexts2[len(texts):]])
        try:
            xpm = c.coq_eval_batch(XREQS, "", ['c06_xparse_line (hx "%s")' % hx(t) for t in xtexts2], "c06xparse", shard=50)
        except c.BrokenTie as e:
            res.tie_broken(e.what, e.detail)
            xpm = [None] * len(xtexts2)
        xp_mism = [(t, o, m) for t, o, m in zip(xtexts2, xpo, xpm) if m is None or m != o]
        if xp_mism:
            t, o, m = xp_mism[0]
            res.tie_broken("correspondence C06/XPARSE: the parser model with the correctly rounded reader and "
                           "serde_json::from_str disagree on %d of %d texts" % (len(xp_mism), len(xtexts2)),
                           "first: text %r impl=%s model=%s" % (t[:200], o, m))
        res.streams["XPARSE"] = {"texts": len(xtexts2), "mismatches": len(xp_mism), "document_texts": len(texts),
                                 "edge_number_texts": 2 * len(edge_nums), "random_number_texts": n_xnumtexts,
                                 "random_number_kinds": xn_kinds,
                                 "rejected_by_impl": sum(1 for o in xpo if o == "ERR")}

        # XRT: documents printed by the model with the exact printer: the model's own parser reads the document back
        # (what C06_json_text_roundtrip_exact proves) and so does the real serde_json (as the built Value)
        n_xrt = 60 if quick else 600
        xdocs = []
        while len(xdocs) < n_xrt:
            if rng.chance(1, 2):
                xdocs.append(gen_doc_from_table(rng, 1 + rng.below(4), xbits))
            else:
                fl = [("d", rng.choice(xbits)) for _ in range(1 + rng.below(5))]
                xdocs.append(("o", [(gen_key(rng), ("a", fl)), (gen_key(rng), rng.choice(fl))]) if rng.chance(1, 2)
                             else ("a", fl))
        try:
            xr = c.coq_eval_batch(XREQS, "", ["c06_xrt_line %s" % coq_json(d) for d in xdocs], "c06xrt", shard=8)
        except c.BrokenTie as e:
            res.tie_broken(e.what, e.detail)
            xr = [None] * len(xdocs)
        xr_f = [m.split(" ") if m else ["", "?", ""] for m in xr]
        xr_back = c.harness_lines_resilient(h, "c06-parse", [f[0] for f in xr_f])
        xr_mism = [(d, f, o) for d, f, o in zip(xdocs, xr_f, xr_back) if f[1] != "T" or o != "OK:" + f[2]]
        if xr_mism:
            d, f, o = xr_mism[0]
            res.tie_broken("correspondence C06/XRT: a document printed with the exact printer is not read back (model "
                           "parser: %s) or serde_json reads something else, on %d of %d documents"
                           % (f[1], len(xr_mism), len(xdocs)),
                           "first: doc %s text %s... impl=%s expected=OK:%s" % (enc_json(d)[:300], f[0][:120], o[:300], f[2][:300]))
        res.streams["XRT"] = {"documents": len(xdocs), "mismatches": len(xr_mism),
                              "float_leaves": sum(count_floats(d) for d in xdocs),
                              "text_bytes": sum(len(f[0]) // 2 for f in xr_f)}

    # ---------------------------------------------------------------- XECHO: the echo program, model vs the real binary
    # cli_text_echo (coq/JsonWf.v) with the exact reader and C16's executable ryu reference as printer, against
    # `blots --input=<text> 'output x = inputs.<key>'`: stdout byte for byte, or failure on both sides
    if fixed_build:
        n_xe = 140 if quick else 2000
        xe_jobs = []
        xe_kinds = {}
        while len(xe_jobs) < n_xe:
            kind = rng.choice(["obj", "obj", "obj", "fancy", "fancy", "dup", "missing", "bare", "bare", "malformed", "nums"])
            d = gen_doc(rng, 1 + rng.below(5))
            if kind == "nums":
                d = ("a", [("d", gen_bits(rng, False)) for _ in range(1 + rng.below(6))]
                     + [("u", rng.choice([0, 1, (1 << 53) + 1, (1 << 63), (1 << 64) - 1])), ("i", -rng.choice([1, (1 << 53) + 1, 1 << 63]))])
            t = doc_to_text(d, rng, fancy=(kind == "fancy"))
            key, prog = "x", ECHO
            if kind in ("obj", "fancy", "nums"):
                text = '{"x":' + t + "}"
            elif kind == "dup":
                text = '{"x":' + doc_to_text(gen_doc(rng, 2), rng) + ',"y":0, "x" : ' + t + "}"
            elif kind == "missing":
                text = '{"y":' + t + "}"
            elif kind == "bare":
                if d[0] == "o":
                    continue
                text, key, prog = t, "value_1", ECHO1
            else:
                text = '{"x":' + t + "}"
                i = rng.below(len(text))
                text = text[:i] + text[i + 1:] if rng.chance(1, 2) else text[:i]
            try:
                if tree_has_reserved(loads_tok(text), fn_table):
                    continue
            except Exception:
                pass
            if "\x00" in text:
                continue            # not passable as a process argument
            xe_kinds[kind] = xe_kinds.get(kind, 0) + 1
            xe_jobs.append((kind, text, key, prog))
        def xe_one(j):
            rc, out, err = run_cli(cli, ["--input=" + j[1], j[3]])
            # second leg (C06_cli_text_echo_fixed_point): the bytes written, fed back, are written again unchanged
            out2 = run_cli(cli, [ECHO], stdin_text=out)[1] if rc == 0 else None
            return rc, out, err, out2

        with ThreadPoolExecutor(max_workers=8) as ex:
            xe_real4 = list(ex.map(xe_one, xe_jobs))
        xe_real = [r[:3] for r in xe_real4]
        for j, r in zip(xe_jobs, xe_real4):
            if r[0] == 0 and r[3] != r[1]:
                res.violation("the output of the echo program, fed back as input, is not reproduced byte for byte",
                              {"kind": "cli-echo-fixed-point", "input_json": j[1], "program": j[3], "first_output": r[1][:2000],
                               "second_output": (r[3] or "")[:2000],
                               "rerun": "blots --input=<input_json> '%s' | blots '%s'" % (j[3], ECHO)})
                break
        try:
            xe_model = c.coq_eval_batch(XREQS, "", ['c06_xecho_line (hx "%s") "%s" "x"' % (hx(j[1]), j[2]) for j in xe_jobs],
                                        "c06xecho", shard=10)
        except c.BrokenTie as e:
            res.tie_broken(e.what, e.detail)
            xe_model = [None] * len(xe_jobs)
        xe_mism = []
        xe_err = 0
        for (kind, text, key, prog), (rc, out, err), m in zip(xe_jobs, xe_real, xe_model):
            real = "OK:" + out.rstrip("\n").encode("utf-8").hex() if rc == 0 else "ERR"
            xe_err += rc != 0
            if m is None or m != real:
                xe_mism.append((kind, text, prog, real, m, err))
        if xe_mism:
            kind, text, prog, real, m, err = xe_mism[0]
            res.tie_broken("correspondence C06/XECHO: the text-level echo model (cli_text_echo) and the real binary disagree "
                           "on %d of %d inputs" % (len(xe_mism), len(xe_jobs)),
                           "first (%s): blots --input=%r %r -> %s %s ; model=%s" % (kind, text[:300], prog, real[:300], err[:100], (m or "")[:300]))
        res.streams["XECHO"] = {"inputs": len(xe_jobs), "mismatches": len(xe_mism), "kinds": xe_kinds,
                                "failing_on_both_sides": xe_err,
                                "second_leg_byte_identical": sum(1 for r in xe_real4 if r[0] == 0 and r[3] == r[1])}

    # ---------------------------------------------------------------- search 1: in process, THROUGH TEXT
    n_rt = 4000 if quick else 60000
    rts = []
    while len(rts) < n_rt:
        if rng.chance(1, 3):
            rts.append(("list", [("num", gen_bits(rng, False)) for _ in range(1 + rng.below(8))]))
        else:
            rts.append(gen_value(rng, 1 + rng.below(6)))
    outs = c.harness_lines_resilient(h, "c06-rt", [enc_value(v) for v in rts])
    rt_known17 = 0
    rt_nums = 0
    rt_bad = None
    for v, o in zip(rts, outs):
        want = enc_value(vsort(v))
        f = o.split("|")
        if canon_value_text(f[0]) == "OK:" + want and f[1] == "T":
            continue
        # classify: re-read the text the implementation wrote with a correctly rounded parser
        cls = "other"
        if f[0].startswith("OK:") and len(f) == 3:
            text = bytes.fromhex(f[2]).decode("utf-8")
            try:
                t = loads_tok(text)["x"]
                exp_tree = loads_tok(doc_to_text(value_to_doc(vsort(v))))
                diffs = compare_json(exp_tree, t)
                if not diffs:
                    # the text is right; the damage happened on re-reading it
                    got_tree = value_show_to_tree(f[0][3:])
                    d2 = compare_value_trees(vsort(v), got_tree)
                    if d2 and all(k == "num-shipped" for _, k in d2):
                        cls = "F17"
            except Exception as e:      # noqa
                cls = "other"
        if cls == "F17" and "C06-F17" in known:
            rt_known17 += 1
            continue
        rt_bad = (v, o, want)
        break
    if rt_bad:
        v, o, want = rt_bad
        res.violation("a data value does not survive output -> JSON text -> input (in process, serde_json text layer)",
                      {"kind": "text-roundtrip", "value": enc_value(v), "observed": o, "expected_value": want,
                       "rerun": "echo '%s' | %s c06-rt" % (enc_value(v), h)})
    res.streams["RT-inproc"] = {"cases": len(rts), "known_F17_number_parse": rt_known17}

    # ---------------------------------------------------------------- search 2: the real CLI
    n_cli = 160 if quick else 2500
    cli_docs = []
    for b in BOUNDARY_BITS:
        cli_docs.append(("d", b))
    while len(cli_docs) < n_cli:
        r = rng.below(4)
        if r == 0:
            cli_docs.append(("a", [("d", gen_bits(rng, False)) for _ in range(12)]))
        else:
            cli_docs.append(gen_doc(rng, 1 + rng.below(6)))
    # adjacency documents: every tricky string immediately before and after every other one (as array
    # neighbours and as key / value), so that a reader whose state is upset by one string meets the other
    adj = TRICKY if not quick else [t for i, t in enumerate(TRICKY) if i % 2 == (seed % 2)] + ["C:\\", "a // b", "NaN", "\\\""]
    for s1 in adj:
        cli_docs.append(("a", [("a", [("s", s1), ("s", t), ("s", s1)]) for t in TRICKY]))
        cli_docs.append(("a", [("o", [(s1, ("s", t)), (t + "k", ("s", s1))]) for t in TRICKY]))
    jobs = []
    for i, d in enumerate(cli_docs):
        fancy = i % 3 == 2
        text = doc_to_text(d, rng, fancy)
        via = "i" if i % 2 == 0 else "stdin"
        if d[0] != "o" and i % 5 == 4:
            via = "bare-" + via
        elif i % 7 == 3:
            via = via + "+o"
        jobs.append((d, text, via))

    # LARGE documents (round 7, after seed C06-11: piped stdin decoded chunk by chunk, so that a multi-byte character
    # lying across a 64 KiB read boundary is replaced): documents well above common buffer sizes (8 KiB, 64 KiB,
    # 128 KiB) made of 2-, 3- and 4-byte characters at every alignment, through stdin (pipe), stdin + -o and -i
    big = []
    for ch, reps in (("\u00e9", 40000), ("\u20ac", 30000), ("\U0001F600", 50000)):
        for shift in range(4):
            big.append(("s", "a" * shift + ch * reps))
    big.append(("a", [("s", "\u20ac" * 3000) for _ in range(40)]))
    big.append(("o", [("k\u20ac%d" % i, ("s", "\U0001F600" * 700)) for i in range(60)]))
    for i, d in enumerate(big if not quick else big[:: 2] + big[-2:]):
        text = doc_to_text(d)
        jobs.append((d, text, "stdin" if i % 3 else "stdin+o"))
        if len(text.encode("utf-8")) < 100000:
            jobs.append((d, text, "i"))
    n_big = len(big)

    def one(job):
        d, text, via = job
        rc, out, err = cli_echo(cli, text, via)
        rc2 = out2 = None
        if rc == 0:
            rc2, out2, _ = run_cli(cli, [ECHO], stdin_text=out)
        return rc, out, err, rc2, out2

    with ThreadPoolExecutor(max_workers=8) as ex:
        results = list(ex.map(one, jobs))
    def cli_fails(d, via):
        """the two-leg echo oracle on one document, as a predicate (used only to shrink a failing document)"""
        text = doc_to_text(d)
        rc, out, err = cli_echo(cli, text, via)
        if rc != 0:
            return True
        try:
            exp, got = loads_tok('{"x":' + text + "}"), loads_tok(out)
        except Exception:
            return True
        if tree_has_reserved(exp, fn_table):
            return False
        if [x for x in compare_json(exp, got) if x[1] != "num-shipped"]:
            return True
        rc2, out2, _ = run_cli(cli, [ECHO], stdin_text=out)
        return rc2 != 0 or bool([x for x in compare_json(got, loads_tok(out2)) if x[1] != "num-shipped"])

    def shrink(d, via):
        """smallest failing sub-document found by descending into failing children (arrays / objects)"""
        if via.startswith("bare-"):
            return d
        for _round in range(8):
            kids = [x for x in d[1]] if d[0] == "a" else ([("o", [kv]) for kv in d[1]] + [v for _, v in d[1]] if d[0] == "o" else [])
            nxt = next((k for k in kids if k != d and cli_fails(k, via)), None)
            if nxt is None:
                return d
            d = nxt
        return d

    cli_known17 = cli_rejected17 = cli_ok = 0
    for (d, text, via), (rc, out, err, rc2, out2) in zip(jobs, results):
        bare = via.startswith("bare-")
        if not bare and (rc != 0 or rc2 not in (0, None)) and d[0] in ("a", "o") and len(text) > 200:
            try:
                d2_ = shrink(d, via)
                if d2_ != d:
                    d, text = d2_, doc_to_text(d2_)
                    rc, out, err = cli_echo(cli, text, via)
                    rc2 = out2 = None
                    if rc == 0:
                        rc2, out2, _ = run_cli(cli, [ECHO], stdin_text=out)
            except Exception:       # shrinking is best effort; the original document is reported otherwise
                pass
        rep = {"kind": "cli-echo", "input_json": text if bare else '{"x":' + text + "}", "via": via,
               "program": ECHO1 if bare else ECHO,
               "rerun": "blots %s '%s'  (input via %s)" % ("-i <input_json>" if via.endswith("i") else "",
                                                            ECHO1 if bare else ECHO, via)}
        if rc != 0:
            # same defect class as F17: the shipped number algorithm overflows to "number out of range" on a token
            # whose correctly rounded value is finite (e.g. DBL_MAX written with 21 digits)
            toks = []
            collect_tokens(loads_tok('{"x":' + text + "}"), toks)
            rejected = [t.t for t in toks if t.shipped_bits() is None and is_finite_bits(t.correct_bits())]
            if rejected and "number out of range" in err and "C06-F17" in known:
                cli_rejected17 += 1
                continue
            res.violation("the CLI fails on a valid JSON input document (exit %d)" % rc,
                          dict(rep, observed=(out + err)[:500]))
            break
        try:
            exp = loads_tok('{"x":' + text + "}")
            got = loads_tok(out)
        except Exception as e:
            res.violation("the CLI wrote something that is not JSON", dict(rep, observed=out[:500], error=str(e)))
            break
        if tree_has_reserved(exp, fn_table):
            continue
        diffs = compare_json(exp, got)
        hard = [x for x in diffs if x[1] != "num-shipped"]
        if hard or (diffs and "C06-F17" not in known):
            res.violation("an input document is not reproduced by `output x = inputs.x` (JSON value equality, numbers "
                          "as doubles)", dict(rep, observed=out.strip()[:2000], differences=[list(x) for x in diffs[:10]]))
            break
        cli_known17 += len(diffs)
        # second leg: the text just written, fed back, must come out again unchanged
        if rc2 != 0:
            res.violation("the CLI rejects its own output as input", dict(rep, first_output=out[:2000]))
            break
        d2 = compare_json(got, loads_tok(out2))
        hard2 = [x for x in d2 if x[1] != "num-shipped"]
        if hard2 or (d2 and "C06-F17" not in known):
            res.violation("output fed back as input is not reproduced (output -> JSON -> input)",
                          dict(rep, first_output=out.strip()[:2000], second_output=out2.strip()[:2000],
                               differences=[list(x) for x in d2[:10]]))
            break
        cli_known17 += len(d2)
        cli_ok += 1
    res.streams["CLI"] = {"documents": len(jobs), "passed_both_legs": cli_ok,
                          "number_leaves_off_by_shipped_parser(F17)": cli_known17,
                          "documents_rejected_by_shipped_parser_overflow(F17)": cli_rejected17,
                          "via": {v: sum(1 for j in jobs if j[2] == v) for v in ("i", "stdin", "bare-i", "bare-stdin", "i+o", "stdin+o")},
                          "fancy_text": sum(1 for i in range(len(jobs)) if i % 3 == 2)}

    # ---------------------------------------------------------------- search 3: nesting depth through the CLI
    depth_res = {}
    for n in (6, 40, 100, 126, 127, 200):
        prog = "output x = reduce(range(%d), (acc, i) => [acc], 0)" % n
        rc1, out1, err1 = run_cli(cli, [prog])
        if rc1 != 0:
            res.violation("the CLI fails to output a nested list", {"kind": "cli-depth", "program": prog,
                                                                     "observed": (out1 + err1)[:300]})
            break
        rc2, out2, err2 = run_cli(cli, [ECHO], stdin_text=out1)
        ok = rc2 == 0 and out2 == out1
        depth_res[n] = "ok" if ok else ("rejected" if "recursion limit" in err2 else "differs")
        if ok:
            continue
        if n + 1 > 127 and depth_res[n] == "rejected" and "C06-F31" in known:
            continue
        res.violation("a nested list written by `output` is not read back (output -> JSON -> input)",
                      {"kind": "cli-depth", "program": prog, "depth": n, "second_run": (out2 + err2)[:300],
                       "rerun": "blots '%s' | blots '%s'" % (prog, ECHO)})
        break
    # the same limit at the echo level (Coq: C06_cli_text_echo_non_object needs nesting <= 126,
    # C06_cli_text_echo_depth_refuted): a bare array nested n deep is echoed one level deeper
    for n in (100, 126, 127):
        txt = "[" * n + "]" * n
        rc1, out1, err1 = run_cli(cli, ["-i", txt, ECHO1])
        if rc1 != 0:
            res.violation("the CLI rejects a bare JSON array nested %d deep" % n,
                          {"kind": "cli-depth", "input_json": txt, "program": ECHO1, "observed": (out1 + err1)[:300]})
            break
        rc2, out2, err2 = run_cli(cli, [ECHO], stdin_text=out1)
        ok = rc2 == 0 and out2 == out1
        depth_res["bare-%d" % n] = "ok" if ok else ("rejected" if "recursion limit" in err2 else "differs")
        if ok or (n + 1 > 127 and depth_res["bare-%d" % n] == "rejected" and "C06-F31" in known):
            continue
        res.violation("the echo of a bare nested array is not read back (input -> output -> input)",
                      {"kind": "cli-depth", "input_json": txt, "program": ECHO1, "depth": n,
                       "second_run": (out2 + err2)[:300]})
        break
    res.streams["CLI-depth"] = depth_res

    # ---------------------------------------------------------------- known findings
    for kid, e in sorted(known.items()):
        if kid == "C06-F16":
            still = witness_f16(h)
            res.known("%s a record {\"__blots_function\": \"(y) => y\"} output as DATA is read back as a function%s"
                      % (kid, "" if still else " (no longer reproduces)"))
        elif kid == "C06-F17":
            wb = [int(x, 16) for x in e["witness"]["bits"]]
            bad = witness_f17(cli, wb)
            res.known("%s JSON number parsing is not correctly rounded: %d of %d witness doubles come back 1 ulp off "
                      "through `blots -i` (serde_json without float_roundtrip)%s"
                      % (kid, len(bad), len(wb), "" if bad else " (no longer reproduces)"))
        elif kid == "C06-F31":
            still = depth_res.get(127) == "rejected"
            res.known("%s a list nested 127 deep is written by `output` but rejected as input (serde_json recursion "
                      "limit 128)%s" % (kid, "" if still else " (no longer reproduces)"))
        else:
            res.known("%s %s" % (kid, e.get("what", "")))

    x_cases = x_ok = 0
    if fixed_build:
        x_cases = len(nbits) + len(xbits) + len(xtexts2) + len(xdocs) + len(xe_jobs)
        x_ok = x_cases - len(xn_mism) - len(xp_bad) - len(xp_mism) - len(xr_mism) - len(xe_mism)
    res.coverage["evaluations"] = (len(vals) + len(docs) + len(rts) + 2 * len(jobs) + len(nbits) + len(texts)
                                   + len(pdocs) + x_cases)
    res.coverage["distinct_nontrivial"] = (len({enc_value(v) for v in vals if v[0] in ("list", "rec")})
                                           + len({enc_json(d) for d in docs if d[0] in ("a", "o")})
                                           + len({enc_value(v) for v in rts}))
    res.coverage["rule"] = ("VAL/JSON: distinct container-valued trees run through all four conversions in model and "
                            "implementation; RT: distinct values pushed through serde_json text in process; CLI: "
                            "documents echoed by the real binary and fed back once more")
    res.coverage["samples"] = ([{"stream": "VAL", "value": enc_value(vals[i]), "impl": val_rust[i]} for i in (5, 6, 7)]
                               + [{"stream": "CLI", "input": jobs[i][1][:300], "via": jobs[i][2],
                                   "stdout": results[i][1].strip()[:300]} for i in (40, 41)])
    res.coverage["traces_validated_against_impl"] = ((len(vals) - len(mism)) + (len(docs) - len(jm))
                                                     + (len(nbits) - len(num_mism)) + (len(texts) - len(p_mism))
                                                     + (len(pdocs) - len(pr_mism)) + x_ok)
    res.assumptions = [
        "JSON text <-> double conversion is library code (serde_json/ryu): two hypotheses of the text-level theorems, "
        "proved for the instance (exact decimal printer, correctly rounded reader) of coq/JsonExact.v; that the build's "
        "reader is that reader and that ryu's shortest text reads back is compared per run (XNUM/XPARSE/NUM), not proved",
        "parse_function_source / body parser / source printer are oracles (tables filled from the real code per run)",
        "serde_json::Map iterates in byte-wise key order (BTreeMap; preserve_order off) - probed on every run",
    ]
    return res.finish()


# --------------------------------------------------------------------------- helpers for classification
def canon_value_text(t):
    """"OK:<value text>" with the records of the value sorted by key at every level (.== ignores key order, and so
    does the law check; the exact order is the business of the correspondence streams)"""
    if not t.startswith("OK:"):
        return t
    try:
        return "OK:" + enc_value(vsort(value_show_to_tree(t[3:])))
    except Exception:
        return t


def value_to_doc(v):
    k = v[0]
    if k == "num":
        return ("d", v[1])
    if k == "bool":
        return ("b", v[1])
    if k == "null":
        return ("z",)
    if k == "str":
        return ("s", v[1])
    if k == "list":
        return ("a", [value_to_doc(x) for x in v[1]])
    return ("o", [(kk, value_to_doc(x)) for kk, x in v[1]])


def value_show_to_tree(s):
    """parse the canonical value text back into a value tree"""
    pos = [0]

    def go():
        ch = s[pos[0]]
        pos[0] += 1
        if ch == "N":
            b = int(s[pos[0]:pos[0] + 16], 16)
            pos[0] += 16
            return ("num", b)
        if ch == "T":
            return ("bool", True)
        if ch == "F":
            return ("bool", False)
        if ch == "U":
            return ("null",)
        if ch == "S":
            e = s.index(";", pos[0])
            t = bytes.fromhex(s[pos[0]:e]).decode("utf-8")
            pos[0] = e + 1
            return ("str", t)
        if ch == "L":
            pos[0] += 1
            items = []
            if s[pos[0]] == "]":
                pos[0] += 1
                return ("list", items)
            while True:
                items.append(go())
                sep = s[pos[0]]
                pos[0] += 1
                if sep == "]":
                    return ("list", items)
        if ch == "R":
            pos[0] += 1
            ent = []
            if s[pos[0]] == "}":
                pos[0] += 1
                return ("rec", ent)
            while True:
                e = s.index(":", pos[0])
                k = bytes.fromhex(s[pos[0]:e]).decode("utf-8")
                pos[0] = e + 1
                ent.append((k, go()))
                sep = s[pos[0]]
                pos[0] += 1
                if sep == "}":
                    return ("rec", ent)
        raise ValueError("bad value text at %d" % pos[0])
    return go()


def compare_value_trees(a, b, path="$"):
    """a: expected, b: observed -> list of (path, kind)"""
    if a[0] != b[0]:
        return [(path, "type")]
    if a[0] == "num":
        if a[1] == b[1]:
            return []
        tok = repr(b2f(a[1]))
        r = shipped_parse_number(tok)
        sb = None if r is None else (r[1] if r[0] == "d" else f2b(float(r[1])))
        return [(path, "num-shipped" if sb == b[1] else "num")]
    if a[0] in ("bool", "str"):
        return [] if a[1] == b[1] else [(path, "value")]
    if a[0] == "null":
        return []
    if a[0] == "list":
        if len(a[1]) != len(b[1]):
            return [(path, "length")]
        out = []
        for i, (x, y) in enumerate(zip(a[1], b[1])):
            out += compare_value_trees(x, y, "%s[%d]" % (path, i))
        return out
    if [k for k, _ in a[1]] != [k for k, _ in b[1]]:
        return [(path, "keys")]
    out = []
    for (k, x), (_, y) in zip(a[1], b[1]):
        out += compare_value_trees(x, y, path + "." + repr(k))
    return out


def do_replay(h, cli, path):
    with open(path) as f:
        rp = json.load(f)
    print(json.dumps(rp, indent=1))
    kind = rp.get("kind")
    if kind in ("tree-roundtrip", "text-roundtrip"):
        sub = "c06-val" if kind == "tree-roundtrip" else "c06-rt"
        o = c.harness_lines_resilient(h, sub, [rp["value"]])[0]
        print("implementation now returns:", o)
        f = o.split("|")
        if kind == "tree-roundtrip":
            ok = len(f) == 5 and canon_value_text(f[3]) == rp["expected_value"] and f[4] == "T"
        else:
            ok = canon_value_text(f[0]) == "OK:" + rp["expected_value"] and f[1] == "T"
        return 0 if ok else 1
    if kind == "cli-depth":
        rc1, out1, err1 = run_cli(cli, [rp["program"]])
        rc2, out2, err2 = run_cli(cli, [ECHO], stdin_text=out1)
        print("first run exit", rc1, "second run exit", rc2, (err2 or out2)[:300])
        return 0 if (rc1 == 0 and rc2 == 0 and out1 == out2) else 1
    if kind == "cli-echo":
        text = rp["input_json"]
        via = rp.get("via", "i")
        prog = rp.get("program", ECHO)
        if via.endswith("i"):
            rc, out, err = run_cli(cli, ["--input=" + text, prog])
        else:
            rc, out, err = run_cli(cli, [prog], stdin_text=text)
        print("exit", rc, "stdout:", out.strip()[:2000], "stderr:", err.strip()[:500])
        if rc != 0:
            return 1
        try:
            exp_text = '{"x":' + text + "}" if via.startswith("bare-") else text
            diffs = compare_json(loads_tok(exp_text), loads_tok(out))
        except Exception as e:
            print("not JSON:", e)
            return 1
        print("differences:", diffs[:10])
        if diffs:
            return 1
        rc2, out2, _ = run_cli(cli, [ECHO], stdin_text=out)
        d2 = compare_json(loads_tok(out), loads_tok(out2)) if rc2 == 0 else [("$", "exit", str(rc2))]
        print("second leg differences:", d2[:10])
        return 0 if not d2 else 1
    return 0


if __name__ == "__main__":
    sys.exit(main(sys.argv[1:]))
