"""C01 — SESSIONS: several different source texts evaluated one after the other in one process.

One case of harness kind "S" is a list of source texts (+ optional inputs JSON).  The harness evaluates the
texts in order on ONE thread against one heap and one environment — what the REPL, the wasm bindings and any
embedding that reads programs in a loop do — under four placements of the text in memory (one reused buffer,
a fresh String per text, all texts alive in separate Strings, all texts joined into one program) and checks,
for every reported error, that the location lies inside the attached text, that the attached text is the text
being evaluated (or an earlier one of the session: errors inside functions defined earlier), and that message,
location, attached text and rendered report do not depend on the placement (harness/src/s_c01.rs, "S").

Why a family of its own: every other C01 stream evaluates ONE text per thread (s_c01.rs spawns a thread per
case), so state that an evaluation leaves behind in the process (thread-locals, statics, caches keyed by the
address / length / span of the text) is never observed by a second, different text.

The generator controls what such state would be keyed on: the LENGTH RELATION of consecutive texts (longer,
shorter, exactly equal, identical text repeated), where the failing location lies (beyond / within the length
of the earlier texts, obtained by padding in front), multi-byte characters in the earlier text (so that a stale
text is cut inside a character), which text DEFINED the function whose body fails (an earlier one, the current
one) and how many texts lie in between.  Everything random comes from the c.Rng handed in."""
import json

import c01_gen as g
import gen_programs as gp

# ------------------------------------------------------------------ pieces
# texts that define things and evaluate without an error (several contain multi-byte characters)
DEFS = [
    "double = x => x * 2",
    "a = [1, 2, 3]",
    "b = [1, 2, 3] via (x => x + 1)",
    "base = 10",
    "rec = {k: 1, \"ключ\": 2}",
    "s = \"héllo wörld ✓ 日本語\"",
    "// заметка — with dashes …\nq = 1",
    "pick = (l, i) => l[i]",
    "cmp = (x, y) => x < y",
    "app = (f, x) => f(x)",
    "e1 = \"😀😀😀😀😀😀😀😀\"",
    "t = true",
    "n = null",
    "w = [1, 2, 3] where (x => x > 1)",
    "id = x => x",
    "k2 = do {\n  y = 2\n  return y * 2\n}",
]
# texts that DEFINE a function whose body fails when it is called (the error belongs to this text)
FAILING_DEFS = [
    ("scale", "scale = v => [v * 10, v * 20, v * 30] + undefined_factor"),
    ("deep", "deep = x => do {\n  y = x + 1\n  return y + missing_in_body\n}"),
    ("lens", "lens = l => l + [1, 2, 3, 4, 5, 6, 7]"),
    ("cmpf", "cmpf = x => \"é✓é✓é✓é✓\" < x"),
    ("callf", "callf = x => x(1)"),
    ("nest", "nest = x => [x] via (q => q + no_such_name_here)"),
    ("outer", "outer = x => (y => y + still_missing)(x)"),
    ("idx", "idx = l => l[\"é\"]"),
]
# expressions that fail at run time; most carry a location
FAILING = [
    "missing_name", "nothing_here_", "a_rather_long_unknown_identifier_name", "[1, 2] + [1, 2, 3]", "(1 < \"a\")",
    "5(3)", "\"a\" - 1", "[1, 2] via 3", "null into 4", "{a: 1}.b.c", "[1, 2, 3][\"x\"]", "sum(\"x\")", "true + 1",
    "(x => x + ghost)(1)", "[1, 2, 3] where (x => x + 1)", "\"ééé\"(1)", "[1] + {a: 1}", "map(3, 4)", "-\"s\"",
    "if 1 then 2 else 3", "not_defined_fn(1, 2)", "{...5}", "[...7]", "\"✓✓✓\" < [1]", "#absent.field.deeper",
]
# padding in front of a failing expression: moves the location to the right (past the end of earlier texts)
PADS = ["", "1 + ", "1 + 2 + 3 + 4 + 5 + 6 + 7 + 8 + 9 + ", "[\"ééé\", 1][1] + ", "\"日本語\".length + ", "  ", "\n\n", "// ✓ первый\n",
        "x_ = 1\ny_ = 2\n", "0 * 100000 + 0 * 200000 + 0 * 300000 + 0 * 400000 + 0 * 500000 + 0 * 600000 + 0 * 700000 + "]
LENGTH_RELATIONS = ["as-is", "equal-bytes", "longer", "shorter", "repeat-then-other", "equal-bytes-multibyte"]


def _pad_to(text, nbytes):
    """the same program made exactly nbytes long (UTF-8) by a trailing comment / spaces, or None"""
    cur = len(text.encode("utf-8"))
    if cur == nbytes:
        return text
    if cur > nbytes:
        return None
    gap = nbytes - cur
    if gap >= 3:
        return text + " //" + "x" * (gap - 3)
    return text + " " * gap


def _failing_use(rng, defined):
    """one failing text; `defined` = names of failing functions defined earlier in the session"""
    pad = rng.choice(PADS)
    if defined and rng.chance(1, 2):
        f = rng.choice(defined)
        arg = rng.choice(["2", "[1, 2]", "\"é\"", "null", "x => x"])
        call = rng.choice(["%s(%s)", "[%s(%s)]", "{r: %s(%s)}", "1 + %s(%s)", "%s(%s) + 1"]) % (f, arg)
        if rng.chance(1, 4):
            call = "%s into %s" % (arg, f)
        if rng.chance(1, 4):
            call = "[%s] via %s" % (arg, f)
        return pad + call, "call-earlier-function"
    e = rng.choice(FAILING)
    if rng.chance(1, 5):
        e = "r_ = " + e
    if rng.chance(1, 6):
        e = e + "  // хвост"
    return pad + e, "direct"


def scripted(rng):
    """definitions and failing uses interleaved, with a chosen length relation between the first text and the
    failing ones -> (texts, tags)"""
    texts, roles, defined = [], [], []
    n_defs = 1 + rng.below(3)
    for _ in range(n_defs):
        parts = [rng.choice(DEFS) for _ in range(1 + rng.below(3))]
        if rng.chance(1, 2):
            name, d = rng.choice(FAILING_DEFS)
            parts.insert(rng.below(len(parts) + 1), d)
            defined.append(name)
        texts.append("\n".join(parts) + ("\n" if rng.chance(1, 2) else ""))
        roles.append("def")
    n_fail = 1 + rng.below(3)
    how = []
    for _ in range(n_fail):
        t, h = _failing_use(rng, defined)
        how.append(h)
        pos = len(texts) if rng.chance(3, 4) else 1 + rng.below(len(texts))
        texts.insert(pos, t)
        roles.insert(pos, "fail")
        if rng.chance(1, 4):
            k = rng.choice(DEFS)
            texts.insert(pos + 1, k)
            roles.insert(pos + 1, "def")
    rel = rng.choice(LENGTH_RELATIONS)
    first = len(texts[0].encode("utf-8"))
    if rel in ("equal-bytes", "equal-bytes-multibyte"):
        if rel == "equal-bytes-multibyte":
            texts[0] = "m_ = \"" + "é✓" * (4 + rng.below(12)) + "\"\n" + texts[0]
            first = len(texts[0].encode("utf-8"))
        for i in range(1, len(texts)):
            if roles[i] == "fail":
                p = _pad_to(texts[i], first)
                if p is None:           # make the first text as long as the failing one instead
                    q = _pad_to(texts[0], len(texts[i].encode("utf-8")))
                    if q is not None:
                        texts[0] = q
                        first = len(q.encode("utf-8"))
                else:
                    texts[i] = p
    elif rel == "longer":
        for i in range(1, len(texts)):
            if roles[i] == "fail" and len(texts[i].encode("utf-8")) <= first:
                texts[i] = "0 * 1 + " * (1 + (first - len(texts[i].encode("utf-8"))) // 8 + rng.below(3)) + texts[i]
    elif rel == "shorter":
        texts[0] = texts[0] + "\n" + "\n".join(rng.choice(DEFS) for _ in range(3 + rng.below(4)))
    elif rel == "repeat-then-other":
        texts.insert(1, texts[0])
        roles.insert(1, "def")
    return texts, {"family": "scripted", "relation": rel, "how": "+".join(sorted(set(how)))}


def split_program(rng):
    """a typed program (gen_programs, failing statements allowed) fed statement by statement, the way a REPL
    user types it; consecutive statements are sometimes kept together in one text"""
    gen = gp.Gen(rng, allow_fail=True, max_depth=3)
    stmts = gen.program(3 + rng.below(7))
    texts = []
    i = 0
    while i < len(stmts):
        k = 1 + (rng.below(3) if rng.chance(1, 3) else 0)
        texts.append("\n".join(stmts[i:i + k]))
        i += k
    if rng.chance(1, 3):
        t, _ = _failing_use(rng, [])
        texts.insert(1 + rng.below(len(texts)), t)
    return texts, {"family": "typed-split", "relation": "as-is", "how": "generated"}


def wild_statements(rng, w):
    """statements of the wild grammar (any surface syntax, mostly failing at run time), one per text"""
    texts = [w.statement() for _ in range(2 + rng.below(5))]
    return texts, {"family": "wild-statements", "relation": "as-is", "how": "generated"}


def corpus_chunks(rng, corpus):
    """a repository source (sometimes mutated) cut at line boundaries into consecutive texts"""
    t = rng.choice(corpus)
    if rng.chance(1, 2):
        t = g.mutate(rng, t, rng.choice(corpus))
    t = t[:1500]
    lines = t.split("\n")
    k = 2 + rng.below(4)
    cuts = sorted({1 + rng.below(max(1, len(lines))) for _ in range(k - 1)})
    texts, prev = [], 0
    for cpos in cuts + [len(lines)]:
        if cpos > prev:
            texts.append("\n".join(lines[prev:cpos]))
            prev = cpos
    if rng.chance(1, 2):
        f, _ = _failing_use(rng, [])
        texts.append(f)
    return texts, {"family": "corpus-chunks", "relation": "as-is", "how": "mutated"}


FUNCTION_INPUTS = [
    "x => x + 1", "x => x + missing_in_input_function", "(a, b) => a < b", "l => l + [1, 2, 3]", "x => \"é✓é✓é✓é✓é✓\" < x",
    "f => f(1)", "x => do {\n  y = x\n  return y + nope_\n}",
]


def with_function_inputs(rng):
    """functions arriving as JSON inputs (they carry their own text) called from several texts"""
    doc = {"f": {"__blots_function": rng.choice(FUNCTION_INPUTS)}, "g": {"__blots_function": rng.choice(FUNCTION_INPUTS)},
           "v": rng.choice([1, "é", [1, 2], None])}
    calls = ["inputs.f(1)", "inputs.g(\"é\", 2)", "inputs.f(inputs.v)", "[1, 2] via inputs.f", "h = inputs.g\nh([1])", "inputs.f(inputs.g)",
             "1 + 2 + 3 + 4 + 5 + 6 + 7 + 8 + 9 + inputs.f(null)", "keep = x => inputs.f(x)", "keep(3)", "missing_name"]
    texts = [rng.choice(calls) for _ in range(2 + rng.below(4))]
    return texts, {"family": "function-inputs", "relation": "as-is", "how": "json"}, json.dumps(doc, ensure_ascii=False)


def sessions(rng, builtins, corpus, n):
    """-> list of harness cases {kind: "S", src: JSON array of texts, inputs, label, tags}"""
    w = g.WildGen(rng, builtins, 12)
    w.avoid_slow = True
    out = []
    for _ in range(n):
        k = rng.below(20)
        inputs = None
        if k < 10:
            texts, tags = scripted(rng)
        elif k < 14:
            texts, tags = split_program(rng)
        elif k < 16:
            texts, tags = wild_statements(rng, w)
        elif k < 18 and corpus:
            texts, tags = corpus_chunks(rng, corpus)
        else:
            texts, tags, inputs = with_function_inputs(rng)
        case = {"kind": "S", "src": json.dumps(texts, ensure_ascii=False), "label": "session/" + tags["family"], "tags": tags,
                "ntexts": len(texts)}
        if inputs is not None:
            case["inputs"] = inputs
        out.append(case)
    return out


def distribution(cases, results):
    """what the family built and what the sessions reached (summaries of the reference placement)"""
    import re
    d = {"family": {}, "length_relation": {}, "failing_text": {}, "texts_per_session": {}, "reached": {}}
    for cs in cases:
        t = cs["tags"]
        for key, val in (("family", t["family"]), ("length_relation", t["relation"]), ("failing_text", t["how"]),
                         ("texts_per_session", str(min(cs["ntexts"], 8)) + ("+" if cs["ntexts"] >= 8 else ""))):
            d[key][val] = d[key].get(val, 0) + 1
    tot = {}
    sess = {"with_located_error": 0, "with_error_located_beyond_first_text": 0, "with_error_located_within_first_text": 0,
            "with_error_in_function_of_earlier_text": 0, "all_texts_parse": 0, "compared_with_joined_program": 0}
    for o in results:
        if not o:
            continue
        kv = dict(m.groups() for m in re.finditer(r"(\w+)=(\w+)", o.split(";EV:")[0]))
        for key in ("texts", "stmts", "ok", "err", "located", "later_beyond_first", "later_within_first", "earlier_text", "panics"):
            try:
                tot[key] = tot.get(key, 0) + int(kv.get(key, "0"))
            except ValueError:
                pass
        sess["with_located_error"] += kv.get("located", "0") not in ("0", "")
        sess["with_error_located_beyond_first_text"] += kv.get("later_beyond_first", "0") not in ("0", "")
        sess["with_error_located_within_first_text"] += kv.get("later_within_first", "0") not in ("0", "")
        sess["with_error_in_function_of_earlier_text"] += kv.get("earlier_text", "0") not in ("0", "")
        sess["all_texts_parse"] += kv.get("parse") == "ok"
        sess["compared_with_joined_program"] += kv.get("joined") == "cmp"
    d["reached"] = {"totals": tot, "sessions": sess}
    return d


# ------------------------------------------------------------------ the real binary: interactive sessions
# The only entry point of the shipped binary that evaluates several texts in one process is the interactive session
# (stdin on a terminal).  Law: a failing line that uses nothing defined earlier prints the SAME error report (message,
# location, source line shown, underline) as the same line evaluated alone by `blots <file>`; nothing else in the
# transcript starts with "[evaluation error]".  Lines are single-line, so every typed line is one input.
REPL_DEFS = [d for d in DEFS if "\n" not in d] + [d for _, d in FAILING_DEFS if "\n" not in d]
REPL_PADS = [p for p in PADS if "\n" not in p]
REPL_FAILING = [e for e in FAILING if not e.startswith("#")]


def repl_scripts(rng, n):
    """-> list of scripts; a script is a list of (line, role) with role in {"def", "fail"}"""
    out = []
    for _ in range(n):
        defs = rng.shuffle(list(REPL_DEFS))      # every definition at most once: defining a name again is an error
        lines = [(defs.pop(), "def") for _ in range(1 + rng.below(2))]
        for _ in range(1 + rng.below(2)):
            line = rng.choice(REPL_PADS) + rng.choice(REPL_FAILING)
            first = len(lines[0][0].encode("utf-8"))
            rel = rng.below(3)
            if rel == 0:
                line = _pad_to(line, first) or line
            elif rel == 1 and len(line.encode("utf-8")) <= first:
                line = "0 * 1 + " * (1 + (first - len(line.encode("utf-8"))) // 8) + line
            lines.append((line, "fail"))
            if rng.chance(1, 3):
                lines.append((defs.pop(), "def"))
        out.append(lines)
    return out


def report_blocks(text):
    """the error reports in what the binary printed: from "[evaluation error]" to the closing corner of the report
    (or the end of that line when the report has no location) -> list of strings without colour codes"""
    import re
    t = re.sub(r"\x1b\[[0-9;?]*[A-Za-z]", "", text).replace("\r", "")
    blocks = []
    pos = 0
    while True:
        i = t.find("[evaluation error]", pos)
        if i < 0:
            break
        eol = t.find("\n", i)
        eol = len(t) if eol < 0 else eol
        first = t[i:eol]
        nxt = t[eol + 1:eol + 200]
        if re.match(r"\s*╭─\[", nxt):
            j = t.find("───╯", eol)
            if j < 0:
                blocks.append(None)        # cut off: not observed
                break
            blocks.append("\n".join(l.rstrip() for l in t[i:j + 4].split("\n")))
            pos = j + 4
        else:
            blocks.append(first.rstrip())
            pos = eol
    return blocks


def run_repl_law(cli, scripts, repl_session, nproc=6):
    """-> (failures [(script, index of the line, observed report, expected report)], stats)"""
    import os
    import subprocess
    import tempfile
    import threading
    stats = {"sessions": len(scripts), "compared_reports": 0, "reports_with_source_line": 0, "not_observed": 0, "lines_typed": 0}
    fails = []
    lock = threading.Lock()
    nxt = [0]

    def alone(line):
        fd, path = tempfile.mkstemp(prefix="c01repl_", suffix=".blots")
        try:
            with os.fdopen(fd, "wb") as f:
                f.write((line + "\n").encode("utf-8"))
            p = subprocess.run([cli, path], stdin=subprocess.DEVNULL, capture_output=True, timeout=60)
            return report_blocks((p.stdout + p.stderr).decode("utf-8", "replace"))
        except (OSError, subprocess.TimeoutExpired):
            return [None]
        finally:
            try:
                os.remove(path)
            except OSError:
                pass

    def work():
        while True:
            with lock:
                k = nxt[0]
                nxt[0] += 1
            if k >= len(scripts):
                return
            sc = scripts[k]
            expected = []
            for idx, (line, role) in enumerate(sc):
                for b in alone(line):       # every line of a script is independent of the others (definitions too)
                    expected.append((idx, b))
            try:
                _, shown = repl_session(cli, [l for l, _ in sc], per_line_timeout=30)
            except OSError:
                shown = ""
            got = report_blocks(shown)
            with lock:
                stats["lines_typed"] += len(sc)
                if len(got) != len(expected) or any(b is None for b in got) or any(b is None for _, b in expected):
                    stats["not_observed"] += 1     # the terminal transcript is incomplete: nothing is concluded
                    continue
                for (idx, e), o in zip(expected, got):
                    stats["compared_reports"] += 1
                    stats["reports_with_source_line"] += "│" in e
                    if e != o:
                        fails.append((sc, idx, o, e))
                        break
    ts = [threading.Thread(target=work) for _ in range(min(nproc, max(1, len(scripts))))]
    for t in ts:
        t.start()
    for t in ts:
        t.join()
    return fails, stats
