"""Shared machinery for all property checks (see DESIGN.md sections 4 and 5).

Build products live in /verif/_build (git-ignored).  Everything is rebuilt from /repo's
current working tree on every check: the harness crate depends on /repo/blots-core by path,
the CLI is built with cargo from /repo, and coq/gen/*.v are regenerated (write-if-changed)."""
import fcntl
import hashlib
import json
import os
import re
import subprocess
import sys
import time

VERIF = os.path.dirname(os.path.dirname(os.path.abspath(__file__)))
REPO = os.environ.get("VERIF_REPO", "/repo")
BUILD = os.path.join(VERIF, "_build")
COQ = os.path.join(VERIF, "coq")
GEN = os.path.join(COQ, "gen")
HARNESS_DIR = os.path.join(VERIF, "harness")
# cargo decides freshness of path packages by source mtimes under one target dir, so a scratch
# tree (VERIF_REPO) must never share build directories with /repo
_SFX = "" if REPO == "/repo" else "-" + hashlib.sha1(REPO.encode()).hexdigest()[:8]
TARGET = os.path.join(BUILD, "target" + _SFX)
CLI_TARGET = os.path.join(BUILD, "cli" + _SFX)
NCPU = os.cpu_count() or 4

ENV = dict(os.environ)
ENV["CARGO_NET_OFFLINE"] = "true"
ENV.setdefault("CARGO_TERM_COLOR", "never")


class BrokenTie(Exception):
    """A translator / build / proof / correspondence step that no longer checks."""

    def __init__(self, what, detail=""):
        super().__init__(what)
        self.what = what
        self.detail = detail


def log(*a):
    print("[check]", *a, file=sys.stderr, flush=True)


def sh(cmd, cwd=None, timeout=3600, env=None, input=None):
    p = subprocess.run(cmd, cwd=cwd, env=env or ENV, input=input, capture_output=True,
                       text=True, timeout=timeout)
    return p.returncode, p.stdout, p.stderr


class Lock:
    def __init__(self, name):
        os.makedirs(BUILD, exist_ok=True)
        self.path = os.path.join(BUILD, name + ".lock")

    def __enter__(self):
        self.f = open(self.path, "w")
        fcntl.flock(self.f, fcntl.LOCK_EX)
        return self

    def __exit__(self, *a):
        fcntl.flock(self.f, fcntl.LOCK_UN)
        self.f.close()


def write_if_changed(path, text):
    os.makedirs(os.path.dirname(path), exist_ok=True)
    try:
        with open(path) as f:
            if f.read() == text:
                return False
    except FileNotFoundError:
        pass
    with open(path, "w") as f:
        f.write(text)
    return True


# --------------------------------------------------------------------------- builds
def build_harness(profile="release"):
    """Build the harness against /repo's working tree. Returns the binary path."""
    with Lock("cargo-harness"):
        lock_src = os.path.join(REPO, "Cargo.lock")
        lock_dst = os.path.join(HARNESS_DIR, "Cargo.lock")
        if not os.path.exists(lock_dst):
            import shutil
            shutil.copy(lock_src, lock_dst)
        with open(os.path.join(HARNESS_DIR, "Cargo.toml.in")) as f:
            write_if_changed(os.path.join(HARNESS_DIR, "Cargo.toml"), f.read().replace("@REPO@", REPO))
        env = dict(ENV)
        env["CARGO_TARGET_DIR"] = TARGET
        cmd = ["cargo", "build", "--offline"] + (["--release"] if profile == "release" else [])
        rc, out, err = sh(cmd, cwd=HARNESS_DIR, env=env, timeout=3000)
        if rc != 0:
            raise BrokenTie("harness build (cargo build of /verif/harness against /repo/blots-core)",
                            err[-4000:])
    return os.path.join(TARGET, "release" if profile == "release" else "debug", "verif-harness")


def build_cli(profile="release"):
    with Lock("cargo-cli"):
        env = dict(ENV)
        cmd = ["cargo", "build", "--offline", "-p", "blots", "--target-dir", CLI_TARGET]
        if profile == "release":
            cmd.append("--release")
        rc, out, err = sh(cmd, cwd=REPO, env=env, timeout=3000)
        if rc != 0:
            raise BrokenTie("CLI build (cargo build -p blots)", err[-4000:])
    return os.path.join(CLI_TARGET, "release" if profile == "release" else "debug", "blots")


def harness_lines(binary, sub, lines, args=(), timeout=1800):
    """Feed lines to a harness subcommand; returns output lines (same count)."""
    inp = "\n".join(lines) + ("\n" if lines else "")
    p = subprocess.run([binary, sub, *args], input=inp, capture_output=True, text=True,
                       timeout=timeout)
    out = p.stdout.split("\n")
    if out and out[-1] == "":
        out.pop()
    if p.returncode != 0 and len(out) < len(lines):
        # the process died (abort / stack overflow): mark the case that killed it
        out.append("ABORT rc=%d" % p.returncode)
        while len(out) < len(lines):
            out.append("NOTRUN")
    return out


def harness_lines_resilient(binary, sub, lines, args=(), timeout=1800):
    """Like harness_lines but restarts after a process-killing case."""
    res = []
    i = 0
    while i < len(lines):
        out = harness_lines(binary, sub, lines[i:], args, timeout)
        k = 0
        for o in out:
            if o == "NOTRUN":
                break
            res.append(o)
            k += 1
        if k == 0:
            res.append("ABORT")
            k = 1
        i += k
    return res


def harness_oneshot(binary, sub, args=()):
    rc, out, err = sh([binary, sub, *args], timeout=600)
    if rc != 0:
        raise BrokenTie("harness %s" % sub, err[-2000:])
    return out


# --------------------------------------------------------------------------- generated Coq
def regen_builtins(binary):
    """coq/gen/Builtins.v from the built crate (BuiltInFunction::all/name/arity/from_ident)."""
    txt = harness_oneshot(binary, "dump-builtins")
    rows = [l.split("\t") for l in txt.strip().split("\n")]
    names = [r[0] for r in rows]
    bad = [r[0] for r in rows if r[4] != "1"]
    o = []
    o.append("(* GENERATED by checks/common.py:regen_builtins from the built blots-core crate\n"
             "   (BuiltInFunction::all(), name(), arity(), from_ident()). Do not edit. *)")
    o.append("From Coq Require Import String List ZArith.\nImport ListNotations.\nOpen Scope string_scope.")
    o.append("Inductive builtin :=\n" + "\n".join("| B_%s" % n for n in names) + ".")
    o.append("Definition all_builtins : list builtin :=\n  [" + "; ".join("B_%s" % n for n in names) + "].")
    o.append("Definition builtin_name (b : builtin) : string :=\n  match b with\n" +
             "\n".join('  | B_%s => "%s"' % (n, n) for n in names) + "\n  end.")
    o.append("Inductive arity := AExact (n : nat) | AAtLeast (n : nat) | ABetween (a b : nat).")

    def ar(r):
        if r[1] == "exact":
            return "AExact %s" % r[2]
        if r[1] == "atleast":
            return "AAtLeast %s" % r[2]
        return "ABetween %s %s" % (r[2], r[3])
    o.append("Definition builtin_arity (b : builtin) : arity :=\n  match b with\n" +
             "\n".join("  | B_%s => %s" % (r[0], ar(r)) for r in rows) + "\n  end.")
    o.append("Definition builtin_eqb (a b : builtin) : bool :=\n  match a, b with\n" +
             "\n".join("  | B_%s, B_%s => true" % (n, n) for n in names) + "\n  | _, _ => false\n  end.")
    # from_ident as the real code computes it on its own names: dumped, not assumed
    o.append("(* from_ident restricted to the names the crate itself reports; the dump records for\n"
             "   each built-in whether from_ident(name(b)) == Some(b): failures listed here. *)")
    o.append("Definition from_ident_failures : list builtin := [" + "; ".join("B_%s" % n for n in bad) + "].")
    o.append("Fixpoint find_builtin (l : list builtin) (s : string) : option builtin :=\n"
             "  match l with [] => None | b :: r => if String.eqb (builtin_name b) s then Some b else find_builtin r s end.")
    o.append("Definition builtin_of_name (s : string) : option builtin := find_builtin all_builtins s.")
    text = "\n\n".join(o) + "\n"
    write_if_changed(os.path.join(GEN, "Builtins.v"), text)
    return names


# --------------------------------------------------------------------------- Coq build
FORBIDDEN = re.compile(
    r"\b(Admitted|admit|Axiom|Axioms|Parameter|Parameters|Conjecture|Conjectures|Abort All|"
    r"Unset Guard Checking|Unset Positivity Checking|Unset Universe Checking|bypass_check|"
    r"type-in-type|impredicative-set|Admit Obligations)\b")

AXIOM_ALLOW = {
    # standard-library axioms that Flocq's real-number layer depends on (named in DESIGN.md 8)
    "ClassicalDedekindReals.sig_forall_dec",
    "ClassicalDedekindReals.sig_not_dec",
    "Classical_Prop.classic",
    "FunctionalExtensionality.functional_extensionality_dep",
}


def scan_forbidden():
    """Grep the whole development for vernacular that would declare an axiom or switch off a check."""
    hits = []
    for root, _, files in os.walk(COQ):
        for fn in files:
            if not fn.endswith(".v"):
                continue
            p = os.path.join(root, fn)
            with open(p) as f:
                txt = f.read()
            # strip comments (non-nested is enough for our own sources; nested handled by loop)
            prev = None
            while prev != txt:
                prev = txt
                txt = re.sub(r"\(\*(?:(?!\(\*|\*\)).)*\*\)", " ", txt, flags=re.S)
            txt = re.sub(r'"(?:[^"]|"")*"', '""', txt)
            for m in FORBIDDEN.finditer(txt):
                hits.append("%s: %s" % (os.path.relpath(p, VERIF), m.group(0)))
            # Variable/Hypothesis outside a section
            depth = 0
            for line in txt.split("\n"):
                s = line.strip()
                if re.match(r"Section\s+\w+", s):
                    depth += 1
                elif re.match(r"End\s+\w+", s) and depth > 0:
                    depth -= 1
                elif depth == 0 and re.match(r"(Variable|Variables|Hypothesis|Hypotheses|Context)\b", s):
                    hits.append("%s: %s outside a Section" % (os.path.relpath(p, VERIF), s.split()[0]))
    return hits


def coq_project_files():
    """Every .v file under coq/ (model, gen/, proofs/, Properties/), sorted."""
    out = []
    for root, dirs, files in os.walk(COQ):
        dirs.sort()
        for fn in sorted(files):
            if fn.endswith(".v") and not fn.startswith("."):
                out.append(os.path.relpath(os.path.join(root, fn), COQ))
    return sorted(out)


def write_coq_project():
    txt = ("-Q . Blots\n-arg -w -arg -notation-overridden,-deprecated-hint-without-locality,"
           "-deprecated-instance-without-locality\n" + "\n".join(coq_project_files()) + "\n")
    return write_if_changed(os.path.join(COQ, "_CoqProject"), txt)


def coq_make(targets, timeout=3000):
    """Full .vo build of the given targets (paths relative to coq/, ending in .vo).
    Returns (ok, log).  Uses coq_makefile; never -vos/-vok."""
    with Lock("coq"):
        mk = os.path.join(COQ, "Makefile")
        proj = os.path.join(COQ, "_CoqProject")
        write_coq_project()
        if (not os.path.exists(mk)) or os.path.getmtime(mk) < os.path.getmtime(proj):
            rc, out, err = sh(["coq_makefile", "-f", "_CoqProject", "-o", "Makefile"], cwd=COQ)
            if rc != 0:
                return False, err
        # regenerate dependencies when generated files appeared
        cmd = ["timeout", str(timeout), "make", "-j%d" % NCPU] + list(targets)
        t0 = time.time()
        rc, out, err = sh(cmd, cwd=COQ, timeout=timeout + 60)
        return rc == 0, (out + "\n" + err)


def property_theorems(pid):
    """(names, assumptions) parsed from Properties/<pid>.v: every `Check name : stmt.` pin is an
    obligation; Print Assumptions output is recovered by re-running coqc on the file."""
    path = os.path.join(COQ, "Properties", pid + ".v")
    with open(path) as f:
        txt = f.read()
    names = re.findall(r"^\s*Theorem\s+(\w+)", txt, flags=re.M)
    pins = re.findall(r"^\s*Check\s+\(?@?(\w+)\)?\s*:", txt, flags=re.M)
    return names, pins


def print_assumptions(pid, timeout=1200):
    """Re-run coqc on Properties/<pid>.v (dependencies already built) and parse the
    `Print Assumptions` output. Returns dict theorem -> list of axioms ([] = closed)."""
    path = os.path.join("Properties", pid + ".v")
    with Lock("coq"):
        rc, out, err = sh(["timeout", str(timeout), "coqc", "-Q", ".", "Blots", path], cwd=COQ,
                          timeout=timeout + 60)
    if rc != 0:
        raise BrokenTie("coqc Properties/%s.v" % pid, (out + err)[-3000:])
    with open(os.path.join(COQ, path)) as f:
        src = f.read()
    order = re.findall(r"Print Assumptions\s+(\w+)\s*\.", src)
    local_names = set(re.findall(r"^\s*(?:Theorem|Lemma|Example|Definition|Corollary|Remark|Fact)\s+(\w+)", src, flags=re.M))
    local_names |= set(re.findall(r"^\s*Check\s+\(?@?(\w+)\)?", src, flags=re.M))
    blocks = []
    cur = None
    for line in out.split("\n"):
        # the echo of a following `Check name : stmt.` (name on its own line) ends an Axioms: block
        m0 = re.match(r"^([A-Za-z_][\w']*)\s*(:|$)", line)
        if cur is not None and m0 and m0.group(1) in local_names:
            cur = None
        if line.startswith("Closed under the global context"):
            blocks.append([])
            cur = None
        elif line.startswith("Axioms:"):
            cur = []
            blocks.append(cur)
        elif cur is not None:
            # an axiom is printed as `name : type` or, for long types, `name` alone on one line
            # followed by an indented `  : type`
            m = re.match(r"^([A-Za-z_][\w.']*)\s*(:|$)", line)
            if m and not line.startswith(" "):
                cur.append(m.group(1))
            elif line.strip() == "":
                pass
    res = {}
    for i, name in enumerate(order):
        res[name] = blocks[i] if i < len(blocks) else ["<no Print Assumptions output>"]
    return res


# --------------------------------------------------------------------------- running the model
def coq_eval_batch(requires, defs, exprs, tag, shard=400, timeout=1800):
    """Evaluate Coq terms of type `string` with vm_compute inside coqc (the kernel's VM).
    `requires`: list of module names (Blots.X); `defs`: extra vernacular; `exprs`: list of terms.
    Returns list of result strings (or None where evaluation failed)."""
    os.makedirs(os.path.join(BUILD, "cases"), exist_ok=True)
    shards = [exprs[i:i + shard] for i in range(0, len(exprs), shard)]
    procs = []
    results = [None] * len(exprs)

    def launch(si):
        fn = os.path.join(BUILD, "cases", "%s_%d_%d.v" % (tag, os.getpid(), si))
        with open(fn, "w") as f:
            f.write("From Coq Require Import String List ZArith.\n")
            for r in requires:
                f.write("Require Import %s.\n" % r)
            f.write("Import ListNotations.\nOpen Scope string_scope.\nOpen Scope Z_scope.\n")
            f.write("Set Printing Width 100000000.\nSet Printing Depth 100000000.\n")
            f.write(defs + "\n")
            for j, e in enumerate(shards[si]):
                f.write('Eval vm_compute in ("#%d#" ++ (%s)).\n' % (j, e))
        p = subprocess.Popen(["timeout", str(timeout), "coqc", "-noglob", "-Q", COQ, "Blots", fn],
                             stdout=subprocess.PIPE, stderr=subprocess.PIPE, text=True)
        return fn, p

    running = []
    nxt = 0
    errors = []
    while nxt < len(shards) or running:
        while nxt < len(shards) and len(running) < NCPU:
            running.append((nxt,) + launch(nxt))
            nxt += 1
        si, fn, p = running.pop(0)
        out, err = p.communicate()
        for m in re.finditer(r'= "#(\d+)#((?:[^"]|"")*)"', out):
            results[si * shard + int(m.group(1))] = m.group(2).replace('""', '"')
        if p.returncode != 0:
            errors.append(err[-1500:])
        for ext in (".v", ".vo", ".vok", ".vos", ".glob"):
            try:
                os.remove(fn[:-2] + ext)
            except FileNotFoundError:
                pass
    if errors:
        raise BrokenTie("model evaluation (coqc vm_compute) for %s" % tag, errors[0])
    return results


# --------------------------------------------------------------------------- PRNG (SplitMix64)
class Rng:
    def __init__(self, seed):
        self.s = seed & 0xFFFFFFFFFFFFFFFF

    def next(self):
        self.s = (self.s + 0x9E3779B97F4A7C15) & 0xFFFFFFFFFFFFFFFF
        z = self.s
        z = ((z ^ (z >> 30)) * 0xBF58476D1CE4E5B9) & 0xFFFFFFFFFFFFFFFF
        z = ((z ^ (z >> 27)) * 0x94D049BB133111EB) & 0xFFFFFFFFFFFFFFFF
        return z ^ (z >> 31)

    def below(self, n):
        return self.next() % n

    def choice(self, xs):
        return xs[self.below(len(xs))]

    def chance(self, num, den):
        return self.below(den) < num

    def shuffle(self, xs):
        xs = list(xs)
        for i in range(len(xs) - 1, 0, -1):
            j = self.below(i + 1)
            xs[i], xs[j] = xs[j], xs[i]
        return xs


def hexs(s):
    if isinstance(s, str):
        s = s.encode("utf-8")
    return s.hex()


def unhex(h):
    return bytes.fromhex(h).decode("utf-8", "replace")


# --------------------------------------------------------------------------- verdict / evidence
def load_known(pid):
    p = os.path.join(VERIF, "known_findings.json")
    if not os.path.exists(p):
        return []
    with open(p) as f:
        data = json.load(f)
    return [e for e in data.get("findings", []) if e.get("property") == pid]


def open_known(pid):
    return [e for e in load_known(pid) if e.get("status") == "open"]


class Result:
    def __init__(self, pid, tier, seed):
        self.pid = pid
        self.tier = tier
        self.seed = seed
        self.t0 = time.time()
        self.violations = []        # (kind, text, replay dict)
        self.broken = []            # (what, detail)
        self.known_lines = []
        self.coverage = {"evaluations": 0, "distinct_nontrivial": 0, "rule": "", "samples": [],
                         "obligations": 0, "discharged": 0, "checker_cmd": "",
                         "trusted_base": [], "traces_validated_against_impl": 0}
        self.assumptions = []
        self.streams = {}

    def violation(self, what, replay):
        self.violations.append((what, replay))

    def tie_broken(self, what, detail=""):
        self.broken.append((what, detail))

    def known(self, text):
        self.known_lines.append(text)

    def finish(self):
        os.makedirs(os.path.join(VERIF, "evidence"), exist_ok=True)
        os.makedirs(os.path.join(VERIF, "replays"), exist_ok=True)
        lines = []
        rc = 0
        for what, replay in self.violations:
            h = hashlib.sha1(json.dumps(replay, sort_keys=True).encode()).hexdigest()[:10]
            path = os.path.join(VERIF, "replays", "%s-%s.json" % (self.pid, h))
            replay = dict(replay)
            replay["property"] = self.pid
            replay["what"] = what
            with open(path, "w") as f:
                json.dump(replay, f, indent=1)
            lines.append("VIOLATION property=%s replay=%s" % (self.pid, path))
            rc = 1
        if not self.violations and self.broken:
            replay = {"property": self.pid, "no_failing_input_found": True,
                      "no_longer_checks": [{"what": w, "detail": d} for w, d in self.broken]}
            h = hashlib.sha1(json.dumps(replay, sort_keys=True).encode()).hexdigest()[:10]
            path = os.path.join(VERIF, "replays", "%s-tie-%s.json" % (self.pid, h))
            with open(path, "w") as f:
                json.dump(replay, f, indent=1)
            lines.append("VIOLATION property=%s replay=%s no-failing-input-found" % (self.pid, path))
            rc = 1
        for k in self.known_lines:
            lines.append("KNOWN-FINDING: property=%s %s" % (self.pid, k))
        ev = {
            "property_id": self.pid,
            "tier": self.tier,
            "seed": self.seed,
            "level": "proof",
            "coverage": dict(self.coverage, streams=self.streams),
            "assumptions": self.assumptions,
            "wall_s": round(time.time() - self.t0, 2),
            "violations": len(self.violations) + (1 if (self.broken and not self.violations) else 0),
        }
        with open(os.path.join(VERIF, "evidence", self.pid + ".json"), "w") as f:
            json.dump(ev, f, indent=1)
        for l in lines:
            print(l)
        sys.stdout.flush()
        return rc


TRUSTED_BASE_COMMON = [
    "Coq 8.16.1 kernel (coqc); vm_compute for finite-domain theorems and for running the model; no native_compute",
    "hand-written Gallina model tied to /repo by the correspondence streams named in coverage.streams (differential test, not proof)",
    "harness/ (Rust glue, canonical printers duplicated in coq/Show.v) and checks/*.py (generators, diff)",
    "rustc/cargo as installed; libm, core::fmt, serde_json, pest, indexmap are library code: modelled, not verified",
]


def proof_step(res, pid, extra_targets=()):
    """Build Properties/<pid>.vo (full .vo build), parse Print Assumptions, grep for forbidden
    vernacular.  Fills obligations/discharged.  Returns True when every obligation checked."""
    hits = scan_forbidden()
    if hits:
        res.tie_broken("forbidden vernacular in the Coq development", "; ".join(hits[:10]))
    try:
        names, pins = property_theorems(pid)
    except FileNotFoundError:
        res.tie_broken("Properties/%s.v missing" % pid)
        return False
    res.coverage["obligations"] = len(names)
    target = "Properties/%s.vo" % pid
    ok, logtxt = coq_make([target] + list(extra_targets))
    res.coverage["checker_cmd"] = ("cd /verif/coq && coq_makefile -f _CoqProject -o Makefile && make -j%d %s"
                                   " (full .vo build), then coqc Properties/%s.v for Print Assumptions"
                                   % (NCPU, target, pid))
    if not ok:
        m = re.findall(r'File "([^"]+)", line (\d+)[^\n]*\n(?:.*\n){0,6}?Error[^\n]*\n?[^\n]*', logtxt)
        res.tie_broken("Coq proof obligations of %s no longer check (make %s failed)" % (pid, target),
                       logtxt[-3000:])
        res.coverage["discharged"] = 0
        return False
    missing = [n for n in names if n not in pins]
    if missing:
        res.tie_broken("theorems without a `Check name : statement.` pin: %s" % ", ".join(missing))
    try:
        assum = print_assumptions(pid)
    except BrokenTie as e:
        res.tie_broken(e.what, e.detail)
        return False
    bad = []
    allax = set()
    for n in names:
        ax = assum.get(n)
        if ax is None:
            bad.append("%s: no Print Assumptions" % n)
            continue
        for a in ax:
            allax.add(a)
            if a not in AXIOM_ALLOW:
                bad.append("%s depends on %s" % (n, a))
    if bad:
        res.tie_broken("axiom allow-list violated", "; ".join(bad))
    res.coverage["discharged"] = len(names) if not bad else 0
    res.coverage["theorems"] = names
    res.coverage["trusted_base"] = TRUSTED_BASE_COMMON + [
        "axioms reported by Print Assumptions under the property theorems: %s"
        % (", ".join(sorted(allax)) if allax else "none (Closed under the global context)")]
    return not bad and not missing and not hits


def tier_and_seed(argv):
    tier = os.environ.get("VERIF_TIER", "quick")
    replay = None
    i = 0
    while i < len(argv):
        if argv[i] == "--tier":
            tier = argv[i + 1]
            i += 1
        elif argv[i] == "--replay":
            replay = argv[i + 1]
            i += 1
        i += 1
    if tier not in ("quick", "thorough"):
        tier = "quick"
    try:
        seed = int(os.environ.get("VERIF_SEED", "20260926"))
    except ValueError:
        seed = 20260926
    return tier, seed, replay


def generic_replay(harness, path):
    """Re-run the input recorded in a replay file on the implementation and print what it does."""
    with open(path) as f:
        rp = json.load(f)
    print(json.dumps(rp, indent=1))
    prog = rp.get("program")
    if prog is None and rp.get("program_prefix"):
        prog = rp["program_prefix"]
    if prog is not None:
        line = hexs(prog)
        if rp.get("inputs") is not None:
            line += "\t" + hexs(json.dumps(rp["inputs"]))
        out = harness_lines_resilient(harness, "eval", [line])
        print("implementation now returns:", out[0])
        if rp.get("expected") is not None:
            got = out[0].split(";ENV:")[0].split("|")[-1]
            return 0 if got == rp["expected"] else 1
    return 0


def regen_all(harness):
    """Regenerate every coq/gen/*.v from /repo (source text and built crate): the shared built-in
    table plus every `regen_*` function that a check module (checks/cNN.py) defines — a full .vo
    build needs all generated tables, whichever property is being checked."""
    import glob
    import importlib
    import inspect
    regen_builtins(harness)
    here = os.path.dirname(os.path.abspath(__file__))
    for path in sorted(glob.glob(os.path.join(here, "c[0-9][0-9].py"))):
        name = os.path.basename(path)[:-3]
        try:
            mod = importlib.import_module(name)
        except Exception as e:          # a broken check module must not take the others down
            log("regen_all: cannot import %s: %s" % (name, e))
            continue
        for attr in sorted(dir(mod)):
            fn = getattr(mod, attr)
            if attr.startswith("regen_") and callable(fn) and getattr(fn, "__module__", None) == mod.__name__:
                try:
                    nparams = len([p_ for p_ in inspect.signature(fn).parameters.values()
                                   if p_.default is inspect.Parameter.empty])
                    fn(harness) if nparams >= 1 else fn()
                except BrokenTie:
                    raise
                except Exception as e:
                    raise BrokenTie("generated table %s.%s could not be rebuilt from /repo" % (name, attr), repr(e))
