"""C05 — two enumerated input families added after the seeds xsc05/C05-1 and xsc05/C05-2 were missed by the quick tier
(notes/C05.md, section "KEYS / BINDERS").  Called from checks/c05.py:main with one line; everything here is additive.

EMIT-KEYS     record keys over the identifier boundary: every character class (ASCII, Latin-1 letters, letters of other
              scripts, Unicode decimal digits, other numerics, combining marks, connectors, punctuation, spaces, emoji)
              x every position (after an ASCII first character, first, alone, in the middle), every reserved word of the
              GRAMMAR (read from blots.pest on every run) with its prefixes / extensions, number-like keys; at every SITE
              where the emission writes a key: captured record, nested captured record, record captured by a captured
              closure, record literal in the body (plain and under an inner lambda), computed key, the session's
              `inputs` record, record built at run time.
EMIT-BINDERS  the function's OWN parameter (or a captured name) is re-bound by an inner binder of every kind (required /
              optional / rest / second lambda parameter, callback lambda, nested lambdas, do-block local, do-block local
              under a lambda, via-lambda) and used again BEFORE / AFTER / on BOTH sides of it, in every two-hole context,
              x every environment at the definition site (no variable of that name, top-level variable, do-block local,
              parameter of an enclosing function, a closure of that name).

Oracles (implementation alone, each gives a concrete replayable input):
  * four-generation law  original == reloaded == re-emitted == third re-emission (the existing R field);
  * closed by construction => accepted as an output and emitted as text that parses as a function;
  * environment independence: a function whose names are all parameters is emitted as THE SAME TEXT whatever else is
    defined where it is created (metamorphic; no model needed);
and the model ties: real parser's AST of the emitted text == Emit.emit_ast (emit_report), model says closed, and every name
the implementation captured is free in the lambda by the model's Env.free_vars (collect_free_variables transcription)."""
import json
import os
import re
import time

import common as c

# --------------------------------------------------------------------------- EMIT-KEYS
CHAR_CLASSES = [
    ("ascii", ["b", "Z", "7", "_"]),
    ("latin1-letter", ["é", "ß", "ï", "Å", "ª"]),
    ("other-script-letter", ["λ", "ж", "名", "א", "ｘ", "İ"]),
    ("unicode-decimal-digit", ["١", "７", "५"]),
    ("other-numeric", ["²", "½", "Ⅷ"]),
    ("mark-or-joiner", ["́", "‍", "⃣"]),
    ("connector", ["‿", "＿"]),
    ("punctuation", ["-", ".", "$", "#", ":", "?", "!", "'", "@", "/", "+", "(", "["]),
    ("space", [" ", " ", "\t"]),
    ("emoji", ["\U0001F600", "✓"]),
]
KEY_SHAPES = [("after-ascii-first", "a%s"), ("after-underscore", "_%s"), ("middle", "a%sb"), ("first", "%sa"),
              ("alone", "%s"), ("late", "A1_%s_")]
NUMBER_LIKE = ["9", "007", "1e5", "0x10", "0b1", "1_000", "-1", "1.5", ".5", "1k", "inf", "infinity", "NaN"]
ROLE_NAMES = ["inputs", "constants", "sin", "map", "via", "into", "where", "x", "k", "f", "t", "__blots_function"]


def grammar_reserved_words():
    """the reserved_word rule of the grammar, as it is in the working tree"""
    path = os.path.join(c.REPO, "blots-core", "src", "grammar.pest")
    if not os.path.exists(path):
        for fn in sorted(os.listdir(os.path.join(c.REPO, "blots-core", "src"))):
            if fn.endswith(".pest"):
                path = os.path.join(c.REPO, "blots-core", "src", fn)
    try:
        src = open(path).read()
        m = re.search(r"^reserved_word\s*=\s*_?\{([^}]*)\}", src, re.M)
        words = re.findall(r'"(\w+)"', m.group(1))
    except (OSError, AttributeError) as e:
        raise c.BrokenTie("translator c05_binders.grammar_reserved_words: rule reserved_word not found in the grammar", repr(e))
    if not words:
        raise c.BrokenTie("translator c05_binders.grammar_reserved_words: empty reserved_word rule", path)
    return words


def key_pool(rng, tier):
    """(class, key) — enumerated classes x positions, reserved words and neighbours, number-like keys, random mixtures"""
    out = []
    for cls, chars in CHAR_CLASSES:
        for ch in chars:
            for sname, shape in KEY_SHAPES:
                out.append((cls + "/" + sname, shape % ch))
    for w in grammar_reserved_words():
        out += [("reserved", w), ("reserved-extended", w + "s"), ("reserved-extended", w + "_"), ("reserved-extended", w + "1"),
                ("reserved-prefix", w[:-1] or "_"), ("reserved-case", w.upper()), ("reserved-case", w.capitalize())]
    out += [("number-like", s) for s in NUMBER_LIKE] + [("role-name", s) for s in ROLE_NAMES]
    allch = [ch for _, chars in CHAR_CLASSES for ch in chars]
    n_rand = 60 if tier == "quick" else 600
    for _ in range(n_rand):
        n = 2 + rng.below(4)
        out.append(("random-mixture", "".join(rng.choice(allch) if rng.chance(1, 2) else rng.choice("abXY_09") for _ in range(n))))
    seen, uniq = set(), []
    for cls, k in out:
        # one literal must be able to hold the key (both quote kinds: the both-quote strings of the main pool)
        if k and k not in seen and not ('"' in k and "'" in k) and "\n" not in k:
            seen.add(k)
            uniq.append((cls, k))
    return uniq


def lit(s):
    return '"%s"' % s if '"' not in s else "'%s'" % s


IDENT = re.compile(r"^[A-Za-z_][A-Za-z0-9_]*$")

# site -> program over the key literal @K (args: the tuples applied)
KEY_SITES = [
    ("captured-record", "k = {@K: 3, t: 2}\nf = x => [k[@K] * x, k, keys(k)]"),
    ("captured-nested", "k = [1, {a: {@K: [3]}, @K: {@K: null}}]\nf = x => [k[1].a[@K][0] * x, k]"),
    ("captured-by-closure", "c0 = {@K: 3}\nk = z => c0[@K] * z\nf = x => [k(x), k(2)]"),
    ("closure-in-record", "c0 = {@K: 3}\nk = {@K: z => [c0, z]}\nf = x => k[@K](x)"),
    ("body-literal", "k = 5\nf = x => [{@K: x, t: k}[@K], {@K: {@K: k}}]"),
    ("body-literal-under-lambda", "k = 5\nf = x => (z => {@K: [z, k]})(x)[@K]"),
    ("computed-key", "k = @K\nf = x => [{[k]: x}, {[k]: x}[k], {[@K]: k}]"),
    ("runtime-built", "k = {[join([@K], \"\")]: 3, ...{@K: 4}}\nf = x => [k, entries(k), x]"),
    ("returned-function", "k = {@K: 3}\nf = x => y => [k[@K] * x * y, {@K: y}]"),
    ("inputs-record", "//#inputs @J\nf = x => [inputs[@K] * x, inputs, keys(inputs)]"),
    ("inputs-captured-value", "//#inputs @J\nk = inputs\nf = x => [k[@K], x]"),
]
KEY_ARGS = {"returned-function": ["2)(3", "\"s\")(1"]}


def key_cases(rng, tier):
    pool = key_pool(rng, tier)
    reserved = set(grammar_reserved_words())
    cases, dist = [], {}
    nsite = len(KEY_SITES)
    for n, (cls, key) in enumerate(pool):
        # quick: every key at three sites (rotating with the seed and the key number, so every class meets every
        # site); thorough: every key at every site
        if tier == "quick":
            r = rng.below(nsite)
            sites = [KEY_SITES[(r + j * 4) % nsite] for j in range(3)]
        else:
            sites = KEY_SITES
        for sname, tmpl in sites:
            prog = tmpl.replace("@K", lit(key)).replace("@J", json.dumps({key: 3, "t": 2}, ensure_ascii=bool(rng.below(2))))
            cases.append(("keys/%s/%s" % (cls, sname), prog, KEY_ARGS.get(sname, ["2", "\"s\""])))
            dist[cls.split("/")[0]] = dist.get(cls.split("/")[0], 0) + 1
        # the bare spellings: an identifier-shaped key written without quotes, and the `#key` / `.key` forms
        if IDENT.match(key):
            for sname, tmpl in (("bare-key", "k = {@B: 3, t: 2}\nf = x => [k[@K] * x, k]"),
                                ("bare-key-body", "k = 5\nf = x => {@B: x, t: k}"),
                                ("inputs-hash-ref", "//#inputs @J\nf = x => [#@B, x]"),
                                ("dot-access", "k = {@K: {@K: 3}}\nf = x => [k.@B.@B * x, k.@B]")):
                if key in reserved and sname != "inputs-hash-ref":
                    continue                # the grammar does not read a reserved word as a bare key / field (`#if` it does)
                prog = tmpl.replace("@K", lit(key)).replace("@B", key).replace("@J", json.dumps({key: 3, "t": 2}))
                cases.append(("keys/%s/%s" % (cls, sname), prog, ["2"]))
    return cases, {"keys": len(pool), "functions": len(cases), "by_class": dist,
                   "sites": [s for s, _ in KEY_SITES] + ["bare-key", "bare-key-body", "inputs-hash-ref", "dot-access"],
                   "reserved_words_from_grammar": grammar_reserved_words()}


# --------------------------------------------------------------------------- EMIT-BINDERS
# an inner binder of the name @ (its value does not depend on the outer @)
INNER = [
    ("lam-required", "(@ => @ * 2)(5)"),
    ("lam-optional", "(@? => @ ?? 7)()"),
    ("lam-rest", "((...@) => @)(1, 2)"),
    ("lam-second", "((z, @) => [z, @])(1, 2)"),
    ("lam-callback", "map([1, 2], @ => @ + 1)"),
    ("lam-callback-index", "map([1, 2], (z, @) => [z, @])"),
    ("lam-nested-inner", "(z => @ => [z, @])(1)(2)"),
    ("lam-nested-outer", "(@ => z => [@, z])(1)(2)"),
    ("do-local", "do {\n  @ = 5\n  return @ + 1\n}"),
    ("do-local-twice", "do {\n  @ = 5\n  @ = [@]\n  return @\n}"),
    ("do-local-under-lam", "(z => do {\n  @ = z\n  return [@]\n})(4)"),
    ("lam-under-do", "do {\n  g = @ => @ + 1\n  return g(1)\n}"),
    ("via-lam", "([1, 2] via (@ => @ * 3))"),
    ("where-lam", "([1, 2] where (@ => @ > 1))"),
    ("into-lam", "(3 into (@ => [@]))"),
    ("returned-closure", "(@ => (z => [@, z]))(1)(2)"),
]
# a use of the OUTER @
USES = [("plain", "@"), ("in-list", "[@]"), ("arith", "@ * 1"), ("in-closure", "(z => [z, @])(0)"), ("shorthand", "{@}"),
        ("field-value", "{a: @}.a"), ("with-captured", "[@, k]"), ("call-arg", "typeof(@)"), ("returned-closure", "(z => @)")]
# two-hole contexts, evaluated (and walked) left to right
CONTEXTS = [
    ("list", "[%s, %s]"), ("record", "{a: %s, b: %s}"), ("call-args", "((p, q) => [p, q])(%s, %s)"),
    ("conditional", "if typeof(%s) == \"null\" then 0 else %s"), ("binary", "[%s] == [%s]"),
    ("do-statements", "do {\n  t = %s\n  u = %s\n  return [t, u]\n}"), ("do-then-return", "do {\n  t = %s\n  return [t, %s]\n}"),
    ("computed-key", "{[typeof(%s)]: %s}"), ("spread", "[...[%s], %s]"), ("under-lambda", "(z => [%s, %s, z])(0)"),
    ("index", "[[%s], 0][1 * 0][0 * len([%s])]"), ("callee-then-arg", "(w => [w, %s])(%s)"),
    ("nested-list", "[[[%s]], [[%s]]]"), ("record-spread", "{...{a: %s}, b: %s}"),
]
ORDERS = ["binder-then-use", "use-then-binder", "use-binder-use"]
# parameter lists containing @ (name, text, argument tuples)
PARAMS = [("required", "@", ["1", "\"s\""]), ("first-of-two", "@, y", ["1, 5"]), ("second-of-two", "y, @", ["5, 1", "5"]),
          ("optional", "@?", ["", "1"]), ("rest", "...@", ["1, 2", ""]), ("after-optional", "y?, ...@", ["", "1, 2, 3"])]
# @ is NOT a parameter: the captured name itself is shadowed by the inner binder and used around it
PARAMS_CAPTURED = [("captured", "y", ["1", "\"s\""])]
# what is defined where the function is created: (name, program template over @P params, @F the lambda)
ENVS = [
    ("no-such-variable", "k = 5\nf = @F"),
    ("top-level-variable", "@ = 10\nk = 5\nf = @F"),
    ("do-block-local", "k = 5\nf = do {\n  @ = 10\n  return @F\n}"),
    ("enclosing-parameter", "k = 5\nmk = @ => (@F)\nf = mk(10)"),
    ("top-level-closure", "c0 = 3\n@ = z => z + c0\nk = 5\nf = @F"),
    ("enclosing-do-and-parameter", "k = 5\nmk = w => do {\n  @ = [w]\n  return @F\n}\nf = mk(10)"),
]
NAMES = ["x", "n", "v", "inputs"]


def fill(ctx, inner, use, order):
    if order == "binder-then-use":
        return ctx % (inner, use)
    if order == "use-then-binder":
        return ctx % (use, inner)
    return ctx % ("[%s, %s]" % (use, inner), use)


def binder_groups(rng, tier):
    """groups = one (params, body) under every environment.  quick: every (inner binder, context, order) once, the use /
    parameter list / name rotating so that every use and every parameter list meets every inner binder; thorough: x4 and
    the full parameter x use grid for the list context"""
    groups = []
    reps = 1 if tier == "quick" else 4
    n = rng.below(1000)
    for rep in range(reps):
        for ii, (iname, inner) in enumerate(INNER):
            for ci, (cname, ctx) in enumerate(CONTEXTS):
                for oi, order in enumerate(ORDERS):
                    n += 1
                    uname, use = USES[(n + ii) % len(USES)]
                    plist = PARAMS_CAPTURED if rng.chance(1, 6) else PARAMS
                    pname, ptxt, pargs = rng.choice(plist)
                    name = NAMES[(n // 7) % len(NAMES)] if rng.chance(3, 4) else rng.choice(NAMES)
                    groups.append((iname, cname, order, uname, pname, ptxt, pargs, name, fill(ctx, inner, use, order)))
    if tier != "quick":
        for iname, inner in INNER:
            for uname, use in USES:
                for pname, ptxt, pargs in PARAMS + PARAMS_CAPTURED:
                    for order in ORDERS:
                        groups.append((iname, "list", order, uname, pname, ptxt, pargs, "x", fill("[%s, %s]", inner, use, order)))
    return groups


def binder_cases(rng, tier):
    cases, meta = [], []
    dist = {"inner": {}, "context": {}, "order": {}, "use": {}, "params": {}, "env": {}, "name": {}}
    for gi, (iname, cname, order, uname, pname, ptxt, pargs, name, body) in enumerate(binder_groups(rng, tier)):
        lam = "(%s) => %s" % (ptxt, body)
        for ename, etmpl in ENVS:
            captured = pname == "captured"
            if captured and ename == "no-such-variable":
                continue                    # not closed: outside the property
            if name == "inputs" and (captured or ename in ("top-level-variable", "top-level-closure")):
                # `inputs` cannot be assigned at top level; a CAPTURED variable spelled `inputs` is hidden by the caller's
                # inputs record (lookup order parameters > self / inputs > captured scope: F9 of C04, excluded by the theorems)
                continue
            prog = etmpl.replace("@F", lam).replace("@", name)
            cases.append(("binders/%s/%s/%s/%s/%s/%s" % (iname, cname, order, uname, pname, ename), prog, pargs))
            meta.append({"group": gi, "env": ename, "captured": captured, "name": name,
                         "lambda": lam.replace("@", name)})
            for key, val in (("inner", iname), ("context", cname), ("order", order), ("use", uname), ("params", pname),
                             ("env", ename), ("name", name)):
                dist[key][val] = dist[key].get(val, 0) + 1
    return cases, meta, dist


# --------------------------------------------------------------------------- model side
COQ_DEFS = """
Fixpoint xsc05_extra_captures (v : value) : list string :=
  match v with
  | VLam _ args body scope =>
      (filter (fun n => negb (Env.mem n (Env.free_vars (ELam args body) []))) (map fst scope)
       ++ flat_map (fun kv => xsc05_extra_captures (snd kv)) scope)%list
  | VList l => flat_map xsc05_extra_captures l
  | VRec r => flat_map (fun kv => xsc05_extra_captures (snd kv)) r
  | _ => []
  end.
Definition xsc05_report (v : value) : string :=
  String.concat "," (xsc05_extra_captures v).
"""


def model_extra_captures(api, parsed, tag):
    idx = [i for i, d in enumerate(parsed) if d.get("VAL")]
    exprs = []
    for i in idx:
        st, _, val = parsed[i]["VAL"].partition("] ")
        exprs.append("(xsc05_report %s)" % val)
    outs = c.coq_eval_batch(api.REQ, COQ_DEFS, exprs, tag, shard=150)
    res = [None] * len(parsed)
    for i, o in zip(idx, outs):
        res[i] = o
    return res


# --------------------------------------------------------------------------- the two streams
def _suspect(d):
    """refused / not parsed / some generation differs — decided without the model"""
    if d.get("PORT") != "1" or d.get("SRC", "-") == "-" or not d.get("AST1", "REJECT").startswith("(ELam"):
        return True
    return any(not (len(r) == 4 and r[0] == r[1] == r[2] == r[3]) for r in d["R"])


def _law_and_ties(api, h, res, cases, state, open_ids, want, stream, closed_by_construction, tag, model_every=1, offset=0):
    """shared part: run the EMIT stream of the harness, the four-generation law, 'closed => emitted', and the AST tie.
    The implementation-level oracles run on EVERY case; the model (coqc) on every `model_every`-th case and on every case
    that an implementation-level oracle suspects (its known-finding class bits come from the model)"""
    rust = api.rust_emit(h, cases)
    parsed = [api.fields(o) for o in rust]
    for_model = [d if "VAL" in d and (i % model_every == offset % model_every or _suspect(d)) else {} for i, d in enumerate(parsed)]
    st = {"functions": len(cases), "errprog": 0, "accepted_as_output": 0, "refused": 0, "law_checked": 0, "law_ok": 0,
          "law_excused": {}, "law_violations": 0, "ok_results": 0, "err_results": 0, "fn_results": 0, "ast_agree": 0,
          "ast2_agree": 0, "ast_excused": {}, "ast_mismatch": 0, "model_says_closed": 0}
    for (kind, prog, args), o in zip(cases, rust):
        if o.startswith("PANIC") or o.startswith("ABORT"):
            res.violation("emitting / reloading a function panicked or aborted",
                          {"kind": "impl", "family": stream, "case": kind, "program": prog, "args": args, "observed": o[:300]})
    try:
        reports = api.model_reports(for_model, tag)
    except c.BrokenTie as e:
        res.tie_broken(e.what, e.detail)
        reports = [None] * len(cases)
    st["model_reports"] = sum(1 for r in reports if r)
    fails, refused, mism, errprogs, notclosed = [], [], [], [], []
    for (kind, prog, args), d, rep, o in zip(cases, parsed, reports, rust):
        if "VAL" not in d:
            st["errprog"] += 1
            errprogs.append((kind, prog, o[:200]))
            continue
        bits = rep[1:10] if rep else None
        ex = api.excuse(bits, state, "law", open_ids) if bits else None
        ex1 = api.excuse(bits, state, "ast1", open_ids) if bits else None
        is_f53 = "F53" in open_ids and api.f52_class(prog, d["VAL"], args)
        if bits and bits[5] == "1":
            st["model_says_closed"] += 1
        elif bits and closed_by_construction and not kind.endswith("/inputs-hash-ref"):
            # (closed_after_capture contains no_inref: the theorems leave bodies with `#name` out)
            notclosed.append((kind, prog, rep))
        # --- closed by construction: must be accepted as an output and emitted as text that parses as a function
        emitted = d.get("PORT") == "1" and d.get("SRC", "-") != "-" and d.get("AST1", "REJECT").startswith("(ELam")
        if emitted:
            st["accepted_as_output"] += 1
        else:
            st["refused"] += 1
            if closed_by_construction and ex is None and ex1 is None:
                refused.append((kind, prog, args, d))
        # --- AST tie
        if rep:
            a1 = rep.split(" A1")[1][:4]
            a2 = rep.split(" A2")[1][:4]
            if a1[want] == "1":
                st["ast_agree"] += 1
                if a2[want] == "1":
                    st["ast2_agree"] += 1
                elif ex is None:
                    mism.append((prog, "body of the reloaded function (AST2)", rep))
            elif ex1 is not None:
                st["ast_excused"][ex1] = st["ast_excused"].get(ex1, 0) + 1
            else:
                mism.append((prog, "parse of the emitted text (AST1)", rep))
        # --- the law
        if d.get("PORT") != "1" or (bits and bits[5] != "1" and not closed_by_construction) or (closed_by_construction and not emitted):
            continue                        # (not emitted: reported once, above)
        for a, r in zip(args, d["R"]):
            st["law_checked"] += 1
            if r[0].startswith("OK"):
                st["ok_results"] += 1
                if "FN(" in r[0]:
                    st["fn_results"] += 1
            else:
                st["err_results"] += 1
            if len(r) == 4 and r[0] == r[1] == r[2] == r[3]:
                st["law_ok"] += 1
            elif ex is not None:
                st["law_excused"][ex] = st["law_excused"].get(ex, 0) + 1
            elif is_f53:
                st["law_excused"]["F53"] = st["law_excused"].get("F53", 0) + 1
            else:
                st["law_violations"] += 1
                fails.append((kind, prog, a, r, rep, d))
    for kind, prog, a, r, rep, d in fails[:4]:
        res.violation("a closed-after-capture function and its reloaded emission disagree (%s)" % stream,
                      {"kind": "impl-law", "family": stream, "case": kind, "program": prog, "args": [a],
                       "emitted": c.unhex(d["SRC"]) if d.get("SRC", "-") != "-" else None,
                       "observed": {"original": r[0], "reloaded": r[1], "re-emitted and reloaded": r[2] if len(r) > 2 else None,
                                    "third re-emission": r[3] if len(r) > 3 else None},
                       "expected": "all four equal", "classes": rep, "rerun": "./check C05 --replay <this file>"})
    for kind, prog, args, d in refused[:3]:
        res.violation("a function that is closed by construction (every name is a parameter, a variable defined before it or "
                      "a built-in) is refused as an output, or its emitted text does not parse as a function (%s)" % stream,
                      {"kind": "impl-law", "family": stream, "case": kind, "program": prog, "args": args,
                       "observed": {"validate_portable_value_ok": d.get("PORT"),
                                    "emitted": c.unhex(d["SRC"]) if d.get("SRC", "-") != "-" else None,
                                    "parse_of_emitted": d.get("AST1", "-")[:80], "results": d.get("R")},
                       "expected": "PORT 1, a __blots_function text, parsed as a lambda",
                       "rerun": "./check C05 --replay <this file>"})
    st["law_violations"] += len(refused)
    if errprogs:
        res.tie_broken("C05/%s: %d generated programs did not evaluate to a function (generator out of step with the language)"
                       % (stream, len(errprogs)), "first: %s\n%r\n%s" % errprogs[0])
    if notclosed:
        res.tie_broken("C05/%s: the model (Emit.closed_after_capture over Env.free_vars) calls %d functions not closed that are "
                       "closed by construction" % (stream, len(notclosed)), "first: %s\n%r\n%s" % notclosed[0])
    if mism:
        st["ast_mismatch"] = len(mism)
        res.tie_broken("correspondence C05/%s: the AST of the emitted text differs from the model's inlined AST on %d of %d functions"
                       % (stream, len(mism), len(cases)), "first: %r\nwhat: %s\nreport: %s" % mism[0])
    return parsed, reports, st


def run(api, h, cli, res, rng, tier, state, open_ids, want):
    """both streams; `api` is the c05 module (rust_emit, fields, model_reports, excuse, f52_class, cli_chain, REQ)"""
    every = 3 if tier == "quick" else 1          # share of the functions also run through the model
    # ------------------------------------------------------------------ EMIT-KEYS
    t0 = time.time()
    try:
        kcases, kdist = key_cases(rng, tier)
    except c.BrokenTie as e:
        res.tie_broken(e.what, e.detail)
        kcases, kdist = [], {}
    if kcases:
        kparsed, kreports, kst = _law_and_ties(api, h, res, kcases, state, open_ids, want, "EMIT-KEYS", True, "c05k", every, rng.below(3))
        # through the real binary (another entry point: JSON text on stdout / stdin): a sample, one per class first
        good_idx = [i for i, d in enumerate(kparsed) if d.get("PORT") == "1" and d.get("R") and "//#inputs" not in kcases[i][1]
                    and all(r[0].startswith("OK") and "FN(" not in r[0] for r in d["R"])]
        by_cls, pick = {}, []
        for i in rng.shuffle(list(good_idx)):
            cls = kcases[i][0].split("/")[1]
            if by_cls.get(cls, 0) < (2 if tier == "quick" else 12):
                by_cls[cls] = by_cls.get(cls, 0) + 1
                pick.append(i)
        chain_ok = 0
        for i in pick:
            kind, prog, args = kcases[i]
            o1, o2, o3 = api.cli_chain(cli, prog, args)
            good = isinstance(o1, dict) and isinstance(o2, dict) and isinstance(o3, dict) and all(
                o1.get("r%d" % j) == o2.get("r%d" % j) == o3.get("r%d" % j) for j in range(len(args)))
            if good:
                chain_ok += 1
            elif api.excuse(kreports[i][1:10], state, "law", open_ids) is None if kreports[i] else True:
                res.violation("blots prog1 | blots prog2 | blots prog2: the reloaded function gives different outputs (EMIT-KEYS)",
                              {"kind": "cli-chain", "family": "EMIT-KEYS", "case": kind, "program": prog, "args": args, "prog1": o1,
                               "prog2": o2 if isinstance(o2, dict) else str(o2), "prog2_again": o3 if isinstance(o3, dict) else str(o3)})
        res.streams["EMIT-KEYS"] = dict(kst, distribution=kdist, cli_chains=len(pick), cli_chains_ok=chain_ok,
                                        wall_s=round(time.time() - t0, 1))
        res.coverage["evaluations"] = res.coverage.get("evaluations", 0) + kst["law_checked"] * 4
    # ------------------------------------------------------------------ EMIT-BINDERS
    t0 = time.time()
    bcases, bmeta, bdist = binder_cases(rng, tier)
    off = rng.below(3)
    bparsed, breports, bst = _law_and_ties(api, h, res, bcases, state, open_ids, want, "EMIT-BINDERS", True, "c05n", every, off)
    # environment independence: the same lambda over its own parameters only => the same emitted text and the same results
    groups = {}
    for i, m in enumerate(bmeta):
        if not m["captured"] and "SRC" in bparsed[i]:
            groups.setdefault(m["group"], []).append(i)
    env_checked = env_viol = 0
    for gi, idx in sorted(groups.items()):
        base = idx[0]
        for i in idx[1:]:
            env_checked += 1
            same_src = bparsed[i].get("SRC") == bparsed[base].get("SRC")
            same_res = [r[0] for r in bparsed[i]["R"]] == [r[0] for r in bparsed[base]["R"]]
            if same_src and same_res:
                continue
            env_viol += 1
            if env_viol <= 3:
                dec = lambda d: c.unhex(d["SRC"]) if d.get("SRC", "-") != "-" else None
                res.violation("the emitted text of a function over its own parameters depends on what else is defined where it "
                              "is created (EMIT-BINDERS, environment independence)",
                              {"kind": "impl-law", "family": "EMIT-BINDERS", "case": bcases[i][0], "program": bcases[i][1],
                               "args": bcases[i][2], "lambda": bmeta[i]["lambda"],
                               "observed": {"environment": bmeta[i]["env"], "emitted": dec(bparsed[i]), "results": bparsed[i]["R"]},
                               "expected": {"environment": bmeta[base]["env"], "program": bcases[base][1], "emitted": dec(bparsed[base]),
                                            "results": bparsed[base]["R"]},
                               "rerun": "./check C05 --replay <this file>"})
    # model tie: every name the implementation captured is free in the lambda by Env.free_vars
    extra_n = checked_n = 0
    try:
        extra = model_extra_captures(api, [d if (i + 1) % every == off % every or bmeta[i]["captured"] else {} for i, d in enumerate(bparsed)], "c05x")
        bad = []
        for i, e in enumerate(extra):
            if e is None:
                continue
            checked_n += 1
            if e != "":
                extra_n += 1
                bad.append((bcases[i][1], e))
        if bad:
            res.tie_broken("correspondence C05/EMIT-BINDERS: the implementation captured names that are not free in the function by "
                           "the model's Env.free_vars (collect_free_variables transcription) on %d of %d functions" % (len(bad), checked_n),
                           "first: %r\ncaptured but not free: %s" % bad[0])
    except c.BrokenTie as e:
        res.tie_broken(e.what, e.detail)
    res.streams["EMIT-BINDERS"] = dict(bst, distribution=bdist, groups=len(groups), environment_pairs_compared=env_checked,
                                       environment_dependent=env_viol, captured_scope_checked_against_model_free_vars=checked_n,
                                       captured_but_not_free=extra_n, wall_s=round(time.time() - t0, 1))
    res.coverage["evaluations"] = res.coverage.get("evaluations", 0) + bst["law_checked"] * 4
    return kcases, bcases
