"""CONTEXT programs for C09/C08: a small commented container (list, record or do-block, one comment
at each position class the grammar admits) placed under every kind of parent node, alone and under
every PAIR of parents, short enough to fit on one line.  The random generator reaches these shapes
only occasionally; a formatter that decides "does this subtree carry comments?" per node kind is
wrong for exactly one (parent, child) combination (e.g. the else-branch of an `else if` chain), so
the combinations are enumerated.

-> list of (source, Case, width) like c0809_lib.gen_programs.
"""
import c0809_gen as G

# (text with %(c)s comment holes, [(hole, position class)])
CONTAINERS = [
    ("[1, %(a)s\n 2]", [("a", "list_after_comma")]),
    ("[ %(a)s\n 1, 2]", [("a", "list_open")]),
    ("[1, 2 %(a)s\n]", [("a", "list_item_eol")]),
    ("[1, 2, %(a)s\n]", [("a", "list_after_comma")]),
    ("[1,\n %(a)s\n 2\n %(b)s\n]", [("a", "list_after_comma"), ("b", "list_before_close")]),
    ("{k: 1, %(a)s\n j: 2}", [("a", "rec_after_comma")]),
    ("{ %(a)s\n k: 1}", [("a", "rec_open")]),
    ("{k: 1 %(a)s\n}", [("a", "rec_item_eol")]),
    ("{k: 1, j: 2\n %(a)s\n}", [("a", "rec_before_close")]),
    ("do {\n %(a)s\n return 1\n}", [("a", "do_open")]),
    ("do {\n y = 1 %(a)s\n return y\n}", [("a", "do_stmt_eol")]),
]

# parents: one hole %s for the child expression
PARENTS = [
    "%s",
    "1 + %s",
    "%s + 1",
    "(%s)",
    "f(%s)",
    "f(1, %s)",
    "[0, %s]",
    "[...%s]",
    "{k: %s}",
    "{[\"k\"]: %s}",
    "if a then %s else 2",
    "if %s then 1 else 2",
    "if a then 1 else %s",
    "if a then 1 else if b then %s else 3",
    "if a then 1 else if %s then 2 else 3",
    "if a then 1 else if b then 2 else %s",
    "if a then 1 else if b then 2 else if d then %s else 4",
    "y => %s",
    "(y, z) => (%s)",
    "%s via f",
    "l via (y => %s)",
    "%s where f",
    "%s into f",
    "%s.k",
    "%s[0]",
    "xs[%s]",
    "xs[%s[0]]",
    "!%s",
    "-%s",
    "%s ?? 0",
    "a && %s",
    "do {\n  y = %s\n  return y\n}",
    "do {\n  return %s\n}",
]
STATEMENTS = ["x = %s", "output x = %s", "%s"]


def _instantiate(n0, container):
    text, holes = container
    names = {}
    comments = []
    n = n0
    for hole, cls in holes:
        n += 1
        t = "// ctx %d" % n
        names[hole] = t
        comments.append((t, cls))
    return text % names, comments, n


def _case(comments, do_trailing=False):
    case = G.Case()
    case.comments = [(t, cls, frozenset()) for t, cls in comments]
    case.do_trailing = do_trailing
    case.note("context")
    for _, cls in comments:
        case.note("comment:" + cls)
    return case


def programs(rng, pairs):
    """every (statement, parent, container) triple, plus `pairs` random (parent, parent, container)"""
    out = []
    widths = [None, 80, 120, 40]
    n = 0
    k = 0
    for ci, cont in enumerate(CONTAINERS):
        for pi, par in enumerate(PARENTS):
            child, comments, n = _instantiate(n, cont)
            st = STATEMENTS[(ci + pi) % len(STATEMENTS)]
            src = st % (par % child)
            out.append((src, _case(comments), widths[k % len(widths)]))
            k += 1
    total = len(PARENTS) * len(PARENTS) * len(CONTAINERS)
    if pairs >= total:
        picks = [(a, b, ci) for a in range(len(PARENTS)) for b in range(len(PARENTS)) for ci in range(len(CONTAINERS))]
    else:
        # every pair of parents with one list and one record container, plus random triples
        picks = [(a, b, ci) for a in range(len(PARENTS)) for b in range(len(PARENTS)) for ci in (0, 5)]
        picks += [(rng.below(len(PARENTS)), rng.below(len(PARENTS)), rng.below(len(CONTAINERS))) for _ in range(pairs)]
    for a, b, ci in picks:
        child, comments, n = _instantiate(n, CONTAINERS[ci])
        src = "x = " + (PARENTS[a] % (PARENTS[b] % child))
        out.append((src, _case(comments), widths[k % len(widths)]))
        k += 1
    return out
