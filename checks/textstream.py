"""TEXT-EVAL correspondence (C01 + C10): program TEXT -> outputs as ONE model function.

Model side: coq/TextRun.v `run_text_tab T INP (hx "<text>")` under vm_compute — the model is handed ONLY the bytes of the
program (hex-encoded): Peg.parse on gen/Grammar.v -> PegToItems.conv -> Pratt.pratt_impl per statement -> Program.exec_stmt
over EvalAll.eval_all with the oracle record instantiated by the lookup tables the harness dumps (AllRun.v; the lambda-text
table is keyed by the model's own parse of the lambda source, TextRun.lam_table_of_texts).
Implementation side: harness `text-eval` (harness/src/s_text.rs): the real get_pairs + evaluate_pairs per statement + output
bookkeeping (streams::run_program, the mirror of blots/src/main.rs::evaluate_source), printing the per-statement outcomes,
the root bindings and the outputs object; for a subset the real `blots` binary (exit status class + the outputs JSON).
The complete line is compared.  Layout variants of the same program must give the same line on both sides.
Called additively from checks/c01.py (part="all") and checks/c10.py (part="layout")."""
import glob
import json
import os
import re
import struct
import subprocess
import tempfile

import common as c
import evalstream as es

REQ = es.ALL_REQUIRES + ["Blots.TextRun"]
MAXLEN = 1500


# ----------------------------------------------------------------------------------------------- texts
def _corpus_texts():
    import c10_peg
    return c10_peg.corpus_texts()


def _readme_texts():
    import c10_peg
    return c10_peg.readme_texts()


STMT_SEPS = ["\n", "\n\n", "\n// note\n", "  \n", " // t\n", "\n  ", "\n\n// a\n// b\n"]
PRELUDE_VALS = ["1", "2", "3", "0", "5", "0.5", "-2", "[1, 2, 3]", "[]", "\"s\"", "\"a b\"", "true", "false", "null",
                "{f: 1, name: \"n\", x1: [1], len_: 2}", "{}", "p => p", "(p, q) => p + q", "(...r) => r", "[[1, 2], [3]]",
                "{f: q => q * 2, name: null}", "9"]


def layout_cases(rng, tree_meta, ntrees, variants):
    """c10 trees (the PARSE-tree generator): the same tree rendered minimally and with random layout (c10_gen.fill over the
    Gap kinds the grammar admits), after a common prelude that binds the generator's identifiers so that evaluation goes
    somewhere.  -> list of groups [(kind, text), ...]; all texts of a group must have the same result."""
    import c10_gen as g10
    groups = []
    meta = list(tree_meta[:ntrees])
    if len(meta) < ntrees:
        tg = g10.TreeGen(rng)
        while len(meta) < ntrees:
            t = tg.tree(1 + rng.below(5))
            par, wn = g10.random_oracles(rng, t)
            meta.append((t, par, wn))
    for (t, par, wn) in meta:
        pre = "".join("%s = %s\n" % (x, rng.choice(PRELUDE_VALS)) for x in g10.IDENTS if rng.chance(4, 5))
        need = g10.text_level_parens(t)
        base = g10.Renderer(need, 0, set()).render(t)
        # the tree sits inside a list literal: a statement that starts with `-` would continue the prelude's last line
        grp = [("layout-base", pre + "[" + base + "]")]
        try:
            for _ in range(variants):
                v = g10.fill(g10.Renderer(need, 0, set()).parts(t), rng, 1, 2)
                if v != base:
                    grp.append(("layout-variant", pre + "[" + v + "]"))
            v = g10.fill(g10.Renderer(par, 0, wn).parts(t), rng, 1, 2)
            grp.append(("layout+parens-variant", pre + "[" + v + "]"))
        except Exception:       # noqa: BLE001 - generator helper; the base rendering is already in
            pass
        groups.append(grp)
    return groups


def stmt_layout_cases(rng, n):
    """gen_programs.Gen.program: the statements joined by a plain newline vs by random statement separators"""
    from gen_programs import Gen
    gen = Gen(rng, allow_fail=True, max_depth=3)
    groups = []
    for _ in range(n):
        st = gen.program(2 + rng.below(5))
        base = "\n".join(st)
        var = rng.choice(["", "// lead\n", "\n", "  "]) + "".join(s + rng.choice(STMT_SEPS) for s in st[:-1]) + st[-1] \
            + rng.choice(["", "\n", " // trail", "\n// end\n", "  "])
        grp = [("gen_programs", base)]
        if var != base:
            grp.append(("gen_programs-stmt-layout", var))
        groups.append(grp)
    return groups


# ----------------------------------------------------------------------------------------------- tables
def coq_tables(g, h, extra_powf):
    """AllRun.tables from the AllGen state; the lambda-text table as (source, text) pairs parsed BY THE MODEL"""
    g._query_powf(extra_powf)
    lid = {f: i for i, f in enumerate(es.LIBM)}
    sid = {f: i for i, f in enumerate(es.STRFN)}
    libm = "; ".join("(%d, 0x%016x, 0x%016x)" % (lid[f], b, r) for (f, b), r in sorted(g.libm.items()))
    powf = "; ".join("(0x%016x, 0x%016x, 0x%016x)" % (x, y, r) for (x, y), r in sorted(g.powf.items()))
    strs = "; ".join('(%d, hx "%s", hx "%s")' % (sid[f], c.hexs(s), c.hexs(r)) for (f, s), r in sorted(g.strt.items()))
    srcs = list(g.LAMS)
    outs = es.rust_eval(h, ["to_string(%s)" % s for s in srcs], None)
    lam = []
    for s, o in zip(srcs, outs):
        if o.startswith("OK:S") and ";" in o:
            lam.append('(hx "%s", hx "%s")' % (c.hexs("(%s)" % s), o[4:o.index(";")]))
    return ("Definition LAMT : list (Ast.expr * string) := Eval vm_compute in lam_table_of_texts [%s].\n"
            "Definition T : tables := {| t_libm := [%s]; t_powf := [%s]; t_str := [%s]; t_lam := LAMT; t_now := Some 0x%016x |}."
            % ("; ".join(lam), libm, powf, strs, g.now_bits)), len(lam)


# ----------------------------------------------------------------------------------------------- canonical line parsing
def _unbits(hx):
    return struct.unpack(">d", struct.pack(">Q", int(hx, 16)))[0]


def parse_value(s, i):
    """canonical value text (show.rs show_value / Show.v) -> (python object, next index).  Functions -> ("fn",)"""
    ch = s[i]
    if ch == "N":
        return ("num", _unbits(s[i + 1:i + 17])), i + 17
    if ch == "T":
        return True, i + 1
    if ch == "F" and not s.startswith("FN(", i):
        return False, i + 1
    if ch == "U":
        return None, i + 1
    if ch == "S":
        j = s.index(";", i)
        return bytes.fromhex(s[i + 1:j]).decode("utf-8", "replace"), j + 1
    if ch == "L":
        i += 2
        out = []
        while s[i] != "]":
            v, i = parse_value(s, i)
            out.append(v)
            if s[i] == ",":
                i += 1
        return out, i + 1
    if ch == "R":
        i += 2
        out = []
        while s[i] != "}":
            j = s.index(":", i)
            k = bytes.fromhex(s[i:j]).decode("utf-8", "replace")
            v, i = parse_value(s, j + 1)
            out.append((k, v))
            if s[i] == ",":
                i += 1
        return ("rec", out), i + 1
    if ch == "F":
        j = s.index(")", i) + 1
        if j < len(s) and s[j] == "@":
            j += 1
            while j < len(s) and s[j] in "0123456789abcdef-":
                j += 1
        return ("fn",), j
    if ch == "B":
        j = s.index(";", i)
        return ("fn",), j + 1
    if ch == "X":
        v, i = parse_value(s, i + 1)
        return ("spread", v), i
    raise ValueError("canonical value text: %r at %d" % (s, i))


def parse_outputs(line):
    """'...;OUT:k=v,k=v' -> [(name, value)]"""
    o = line.split(";OUT:", 1)[1]
    out, i = [], 0
    while i < len(o):
        j = o.index("=", i)
        k = bytes.fromhex(o[i:j]).decode("utf-8", "replace")
        v, i = parse_value(o, j + 1)
        out.append((k, v))
        if i < len(o) and o[i] == ",":
            i += 1
    return out


def json_matches(j, v):
    """the CLI's JSON of one output value against the canonical value (non-finite numbers and function texts are C06's /
    C05's business: only their kind is compared)"""
    if isinstance(v, tuple) and v and v[0] == "num":
        x = v[1]
        if x != x or x in (float("inf"), float("-inf")):
            return True
        return isinstance(j, (int, float)) and not isinstance(j, bool) and float(j) == x
    if isinstance(v, tuple) and v and v[0] == "fn":
        return isinstance(j, dict) and "__blots_function" in j
    if isinstance(v, tuple) and v and v[0] == "rec":
        # nested records: serde_json::Map is a BTreeMap in this build (keys sorted); the top level is an IndexMap
        return (isinstance(j, dict) and "__blots_function" not in j and sorted(j.keys()) == sorted(k for k, _ in v[1])
                and all(json_matches(j[k], x) for k, x in v[1]))
    if isinstance(v, list):
        return isinstance(j, list) and len(j) == len(v) and all(json_matches(a, b) for a, b in zip(j, v))
    if v is None:
        return j is None
    if isinstance(v, bool):
        return j is v
    if isinstance(v, str):
        return j == v
    return False


def outcome_class(line):
    """class of a canonical line: REJECT / PANIC / FUEL / the last statement's outcome (OK ERR ERRDEPTH OUTERR UNMODELLED) / EMPTY"""
    if line is None:
        return "NONE"
    if line.startswith(("PANIC", "ABORT")):
        return "PANIC"
    if line == "FUEL":
        return "FUEL"
    head = line.split(";ENV:", 1)[0]
    if head == "":
        return "EMPTY"
    last = head.split("|")[-1]
    return "OK" if last.startswith("OK:") else last


def cli_expect(line):
    """what the real binary must do for a text whose canonical line is `line`: (exit code, stream, prefix)"""
    k = outcome_class(line)
    if k == "REJECT":
        return 1, "stderr", b"Parse error"
    if k in ("ERR", "ERRDEPTH"):
        return 1, "stdout", b"[evaluation error]"
    if k == "OUTERR":
        return 1, "stderr", b"[output error]"
    if k == "PANIC":
        return 101, "stderr", b""
    return 0, "stdout", b"{"


def text_in_bang_class(text):
    """c10.text_in_bang_class (known/C10.json, C10-bang-equals): `!=` written directly after an operand"""
    return re.search(r"(?<![\s.])!=", text) is not None and not text.startswith("!=")


# ----------------------------------------------------------------------------------------------- the stream
def run_text_stream(h, rng, quick, res, cli=None, tag="text", part="all", tree_meta=()):
    """part="all": every source (C01);  part="layout": the layout-variant groups only (C10).  Returns the evidence dict
    (also stored as res.streams["TEXT-EVAL"])."""
    import time
    t0 = time.time()
    try:
        ev = _run_text_stream(h, rng, quick, res, cli, tag, part, tree_meta)
        ev["wall_s"] = round(time.time() - t0, 1)
        c.log("TEXT-EVAL correspondence (%s) %.1fs" % (part, time.time() - t0))
        return ev
    except c.BrokenTie as e:
        res.tie_broken(e.what, e.detail)
        res.streams["TEXT-EVAL"] = {"part": part, "completed": False}
        return res.streams["TEXT-EVAL"]


def _run_text_stream(h, rng, quick, res, cli, tag, part, tree_meta):
    ok_build, log = c.coq_make(["TextRun.vo"])
    if not ok_build:
        res.tie_broken("coq/TextRun.v no longer compiles", log[-1500:])
        res.streams["TEXT-EVAL"] = {"built": False}
        return res.streams["TEXT-EVAL"]
    g = es.AllGen(rng, h, quick)
    groups = []          # each: list of (kind, text) that must agree among themselves
    full = part == "all"
    if full:
        groups += [[("all-stream", s)] for s in g.programs(600 if quick else 6000)]
        groups += stmt_layout_cases(rng, 300 if quick else 3000)
        groups += layout_cases(rng, tree_meta, 120 if quick else 1200, 1)
        # operator x value-pool grid of the EVAL stream (c01_gen), as text; `^` stays with the ALL programs (powf tables)
        import c01_gen as g01
        core = g01.pool(g01.POOL_CORE)
        ops = [o for o in g01.BINOPS + g01.NATOPS if o != "^"]
        nums = core[:10]                # the numeric values of the pool: exhaustive under the five arithmetic operators
        for op in ["+", "-", "*", "/", "%"]:
            groups += [[("operator-grid", "%s %s %s" % (a[1], op, b[1]))] for a in nums for b in nums]
        for _ in range(250 if quick else 2500):
            groups.append([("operator-grid", "%s %s %s" % (rng.choice(core)[1], rng.choice(ops), rng.choice(core)[1]))])
        import c10_peg
        groups += [[("hand", t)] for t in c10_peg.HAND]
        groups += [[("corpus", t)] for t in _corpus_texts()]
        groups += [[("readme", t)] for t in _readme_texts()]
    else:
        groups += layout_cases(rng, tree_meta, 150 if quick else 1500, 2)
        groups += stmt_layout_cases(rng, 60 if quick else 600)
    # one case per distinct valid-UTF-8 text of moderate size
    texts, kind_of, gid = [], {}, []
    for gi, grp in enumerate(groups):
        for k, t in grp:
            try:
                b = t.encode("utf-8")
            except UnicodeEncodeError:
                continue
            if len(b) > MAXLEN or "\x00" in t:
                continue
            if t not in kind_of:
                kind_of[t] = k
                texts.append(t)
            gid.append((gi, t))
    # powf on small numbers: the layout trees apply `^` to the prelude values / one-digit literals
    small = [float(x) for x in range(-3, 11)] + [0.5, 2.5]
    defs_t, nlam = coq_tables(g, h, [(a, b) for a in small for b in small])
    inp = "[" + "; ".join('((hx "%s"), %s)' % (c.hexs(k), v.coq()) for k, v in es.DEFAULT_INPUTS.p) + "]"
    defs = "Definition INP : list (string * value) := %s.\n%s" % (inp, defs_t)
    impl = c.harness_lines_resilient(h, "text-eval", [c.hexs(t) + "\t" + c.hexs(es.DEFAULT_INPUTS_JSON) for t in texts])
    try:
        model = c.coq_eval_batch(REQ, defs, ['(run_text_tab T INP (hx "%s"))' % c.hexs(t) for t in texts], tag, shard=90)
    except c.BrokenTie as e:
        res.tie_broken(e.what, e.detail)
        res.streams["TEXT-EVAL"] = {"texts": len(texts), "model_evaluated": False}
        return res.streams["TEXT-EVAL"]
    line_of_impl = dict(zip(texts, impl))
    line_of_model = dict(zip(texts, model))
    per_kind, classes, miss_kind = {}, {}, {}
    agree, mism, failed, unm, fuel, miss_all = 0, [], 0, [], [], []
    glue_err_stmt = 0
    for t, a, m in zip(texts, impl, model):
        k = kind_of[t]
        per_kind[k] = per_kind.get(k, 0) + 1
        if m is None:
            failed += 1
            continue
        if m == "FUEL":
            fuel.append(t)
            continue
        if "UNMODELLED" in m:
            unm.append(t)
            continue
        if es.MISS_NUM in m or es.MISS_STR in m:
            miss_kind[k] = miss_kind.get(k, 0) + 1
            if k == "all-stream":
                miss_all.append(t)
            continue
        a_n = a or ""
        if a_n.startswith("PANIC") and outcome_class(m) == "PANIC":
            a_n = m
        if a_n == m:
            agree += 1
            kc = outcome_class(m)
            classes[kc] = classes.get(kc, 0) + 1
        else:
            mism.append((t, a, m))
    # ---- layout: all texts of a group give the same line, on the implementation and in the model
    lay_groups = lay_texts = lay_impl_diff = lay_model_diff = lay_known_bang = 0
    first_lay = None
    by_group = {}
    for gi, t in gid:
        by_group.setdefault(gi, [])
        if t not in by_group[gi]:
            by_group[gi].append(t)
    for gi, ts in by_group.items():
        if len(ts) < 2:
            continue
        lay_groups += 1
        lay_texts += len(ts)
        base = ts[0]
        for v in ts[1:]:
            di = line_of_impl[v] != line_of_impl[base]
            dm = (line_of_model[v] is not None and line_of_model[base] is not None and line_of_model[v] != line_of_model[base])
            if (di or dm) and text_in_bang_class(v) and not text_in_bang_class(base):
                lay_known_bang += 1           # C10's open finding (`a ! = b`): counted there
                continue
            lay_impl_diff += di
            lay_model_diff += dm
            if (di or dm) and first_lay is None:
                first_lay = (base, v, line_of_impl[base], line_of_impl[v], line_of_model[base], line_of_model[v])
    lay_cls = {}
    for t in texts:
        if kind_of[t] == "layout-base":
            kc = outcome_class(line_of_impl[t])
            lay_cls[kc] = lay_cls.get(kc, 0) + 1
    sizes = sorted(len(t.encode("utf-8")) for t in texts)
    rejects = sum(1 for a in impl if (a or "").startswith("REJECT"))
    ev = {"part": part, "texts": len(texts), "texts_per_source": dict(sorted(per_kind.items())),
          "agree": agree, "mismatches": len(mism), "model_not_evaluated": failed,
          "impl_accepts": len(texts) - rejects, "impl_rejects": rejects,
          "model_rejects": sum(1 for m in model if (m or "").startswith("REJECT")),
          "statements_evaluated(impl)": sum((a or "").split(";ENV:")[0].count("|") + 1 for a in impl
                                            if a and not a.startswith(("REJECT", ";ENV"))),
          "texts_with_outputs_object": sum(1 for a in impl if a and not a.endswith(";OUT:")),
          "outcome_classes(agreeing; class of the last statement)": dict(sorted(classes.items())),
          "model_out_of_fuel": len(fuel), "model_unmodelled": len(unm),
          "oracle_table_miss_skipped_per_source": dict(sorted(miss_kind.items())),
          "oracle_tables": {"libm": len(g.libm), "powf": len(g.powf), "str": len(g.strt), "lambda_text(parsed by the model)": nlam},
          "bytes_min_median_max": [sizes[0], sizes[len(sizes) // 2], sizes[-1]] if sizes else [],
          "non_ascii": sum(1 for t in texts if any(ord(ch) > 127 for ch in t)),
          "with_comment": sum(1 for t in texts if "//" in t),
          "layout": {"groups": lay_groups, "texts_in_groups": lay_texts, "impl_lines_differing": lay_impl_diff,
                     "model_lines_differing": lay_model_diff, "known_bang_equals_skipped": lay_known_bang,
                     "tree_base_outcome_classes": dict(sorted(lay_cls.items()))},
          "model": "TextRun.run_text_tab T INP (hx text): the model sees only the bytes",
          "fuel": "peg_fuel text = 128 + 48 * (length of text in bytes)"}
    if failed:
        res.tie_broken("correspondence TEXT-EVAL: the model did not evaluate %d texts (coqc failed)" % failed)
    if fuel:
        res.tie_broken("correspondence TEXT-EVAL: the text -> outputs model ran out of PEG fuel on %d texts" % len(fuel), repr(fuel[0]))
    if unm:
        res.tie_broken("correspondence TEXT-EVAL: run_text answered Unmodelled on %d texts (complete evaluator / Pratt fuel)"
                       % len(unm), repr(unm[0]))
    if miss_all:
        res.tie_broken("correspondence TEXT-EVAL: %d ALL-stream programs consulted an oracle table entry the harness did not dump"
                       % len(miss_all), repr(miss_all[0]))
    if mism:
        res.tie_broken("correspondence TEXT-EVAL: the text -> outputs model (TextRun.run_text_tab) and the real parse + evaluate "
                       "disagree on %d of %d texts" % (len(mism), len(texts)), "first: text=%r\nimpl : %s\nmodel: %s" % mism[0])
    if lay_impl_diff or lay_model_diff:
        res.tie_broken("correspondence TEXT-EVAL: a layout variant of a program gives a different result (impl %d, model %d pairs)"
                       % (lay_impl_diff, lay_model_diff),
                       "base=%r\nvariant=%r\nimpl base   : %s\nimpl variant: %s\nmodel base   : %s\nmodel variant: %s" % first_lay)
    # ---- the real binary on a subset: exit class + the outputs object it writes
    if cli is not None:
        cand = [t for t, m in zip(texts, model) if m is not None and m != "FUEL" and "UNMODELLED" not in m
                and es.MISS_NUM not in m and es.MISS_STR not in m and "time_now" not in t]
        with_out = [t for t in cand if not line_of_model[t].endswith(";OUT:")]
        rest = [t for t in cand if line_of_model[t].endswith(";OUT:")]
        n_cli = 60 if quick else 400
        pick = rng.shuffle(with_out)[: n_cli // 2]
        pick += rng.shuffle(rest)[: n_cli - len(pick)]
        bad, cls, vals = [], {}, 0
        tmp = tempfile.mkdtemp(prefix="xtext_")
        try:
            for n_, t in enumerate(pick):
                path = os.path.join(tmp, "p%d.blots" % n_)
                with open(path, "wb") as f:
                    f.write(t.encode("utf-8"))
                try:
                    p = subprocess.run([cli, path, "-i", es.DEFAULT_INPUTS_JSON], stdin=subprocess.DEVNULL, stdout=subprocess.PIPE,
                                       stderr=subprocess.PIPE, timeout=60)
                except subprocess.TimeoutExpired:
                    bad.append((t, "timeout", line_of_model[t]))
                    continue
                finally:
                    os.remove(path)
                code, stream, prefix = cli_expect(line_of_model[t])
                got = p.stdout if stream == "stdout" else p.stderr
                good = p.returncode == code and got.startswith(prefix)
                if good and code == 0:
                    try:
                        js = json.loads(p.stdout.decode("utf-8"))
                        exp = parse_outputs(line_of_model[t])
                        good = (isinstance(js, dict) and list(js.keys()) == [k for k, _ in exp]
                                and all(json_matches(js[k], v) for k, v in exp))
                        vals += len(exp)
                    except (ValueError, UnicodeDecodeError, IndexError):
                        good = False
                kc = outcome_class(line_of_model[t])
                cls[kc] = cls.get(kc, 0) + 1
                if not good:
                    bad.append((t, "exit %s stdout %r stderr %r" % (p.returncode, p.stdout[:300], p.stderr[:300]), line_of_model[t]))
        finally:
            try:
                os.rmdir(tmp)
            except OSError:
                pass
        ev["cli"] = {"texts_run_through_the_real_binary": len(pick), "agree": len(pick) - len(bad), "mismatches": len(bad),
                     "outcome_classes": dict(sorted(cls.items())), "output_values_compared": vals}
        if bad:
            res.tie_broken("correspondence TEXT-EVAL/cli: the real `blots` binary and run_text disagree (exit class / outputs object) "
                           "on %d of %d texts" % (len(bad), len(pick)), "first: text=%r\ncli  : %s\nmodel: %s" % bad[0])
    res.coverage["traces_validated_against_impl"] = res.coverage.get("traces_validated_against_impl", 0) + agree
    res.streams["TEXT-EVAL"] = ev
    return ev
